//! Shared deterministic-simulation kernel.
//!
//! This file is mounted with `#[path = "/verif/harness/common/mod.rs"]` into the harness module
//! of every crate under test. It only depends on `std`, `serde` and `serde_json`.
//!
//! Contract with the python driver (`/verif/check`):
//!   * the driver writes a job file and starts `<crate test binary> <path>::verif_main --exact
//!     --nocapture` with `VERIF_JOB=<job file>`;
//!   * `mode = "batch"`: run `count` generated scenarios (`seed_i = mix(base_seed, index_i)`), one
//!     JSON line per run to `out`; every violating run also gets a replay file in `replay_dir`;
//!   * `mode = "replay"`: re-execute exactly the scenario stored in `file`, write one JSON line;
//!   * `mode = "minimise"`: delta-debug the scenario in `file` while the same (property, oracle)
//!     keeps failing, write the reduced replay file to `out_file`.
//!
//! One integer decides everything: a scenario is a pure function of (engine, profile, tier, seed)
//! and a run is a pure function of the scenario and the code under test.
#![allow(dead_code, unreachable_pub, clippy::all, clippy::pedantic)]

use std::{
    collections::BTreeMap,
    io::Write as _,
    panic::AssertUnwindSafe,
    time::Instant,
};

use serde::{
    de::DeserializeOwned,
    Deserialize,
    Serialize,
};

// ---------------------------------------------------------------------------------------------
// PRNG
// ---------------------------------------------------------------------------------------------

/// SplitMix64. Small, fast, and trivially forkable.
#[derive(Clone, Debug)]
pub struct Rng {
    s: u64,
}

pub fn mix(a: u64, b: u64) -> u64 {
    let mut z = a ^ b.wrapping_mul(0x9E37_79B9_7F4A_7C15).rotate_left(17);
    z = z.wrapping_add(0x9E37_79B9_7F4A_7C15);
    z = (z ^ (z >> 30)).wrapping_mul(0xBF58_476D_1CE4_E5B9);
    z = (z ^ (z >> 27)).wrapping_mul(0x94D0_49BB_1331_11EB);
    z ^ (z >> 31)
}

impl Rng {
    pub fn new(seed: u64) -> Self {
        Self {
            s: mix(seed, 0x5EED),
        }
    }

    pub fn next_u64(&mut self) -> u64 {
        self.s = self.s.wrapping_add(0x9E37_79B9_7F4A_7C15);
        let mut z = self.s;
        z = (z ^ (z >> 30)).wrapping_mul(0xBF58_476D_1CE4_E5B9);
        z = (z ^ (z >> 27)).wrapping_mul(0x94D0_49BB_1331_11EB);
        z ^ (z >> 31)
    }

    /// A child stream that does not advance `self`; keyed by `tag` (e.g. an op's stable id).
    pub fn fork(&self, tag: u64) -> Rng {
        Rng {
            s: mix(self.s, tag),
        }
    }

    /// Uniform in `0..n` (`n > 0`).
    pub fn below(&mut self, n: u64) -> u64 {
        assert!(n > 0);
        // multiply-shift; bias is irrelevant here
        ((u128::from(self.next_u64()) * u128::from(n)) >> 64) as u64
    }

    pub fn below_usize(&mut self, n: usize) -> usize {
        self.below(n as u64) as usize
    }

    /// Uniform in `lo..=hi`.
    pub fn range(&mut self, lo: u64, hi: u64) -> u64 {
        assert!(lo <= hi);
        if lo == 0 && hi == u64::MAX {
            return self.next_u64();
        }
        lo + self.below(hi - lo + 1)
    }

    pub fn range_u128(&mut self, lo: u128, hi: u128) -> u128 {
        assert!(lo <= hi);
        let span = hi - lo;
        if span == u128::MAX {
            return (u128::from(self.next_u64()) << 64) | u128::from(self.next_u64());
        }
        let r = (u128::from(self.next_u64()) << 64) | u128::from(self.next_u64());
        lo + r % (span + 1)
    }

    /// True with probability `num/den`.
    pub fn chance(&mut self, num: u64, den: u64) -> bool {
        self.below(den) < num
    }

    pub fn pick<'a, T>(&mut self, xs: &'a [T]) -> &'a T {
        &xs[self.below_usize(xs.len())]
    }

    /// Index drawn with the given integer weights.
    pub fn weighted(&mut self, weights: &[u32]) -> usize {
        let total: u64 = weights.iter().map(|w| u64::from(*w)).sum();
        assert!(total > 0);
        let mut r = self.below(total);
        for (i, w) in weights.iter().enumerate() {
            let w = u64::from(*w);
            if r < w {
                return i;
            }
            r -= w;
        }
        weights.len() - 1
    }

    pub fn shuffle<T>(&mut self, xs: &mut [T]) {
        for i in (1..xs.len()).rev() {
            let j = self.below_usize(i + 1);
            xs.swap(i, j);
        }
    }

    pub fn bytes(&mut self, n: usize) -> Vec<u8> {
        let mut v = Vec::with_capacity(n);
        while v.len() < n {
            let x = self.next_u64().to_le_bytes();
            let take = (n - v.len()).min(8);
            v.extend_from_slice(&x[..take]);
        }
        v
    }

    pub fn array32(&mut self) -> [u8; 32] {
        let mut a = [0u8; 32];
        a.copy_from_slice(&self.bytes(32));
        a
    }
}

// ---------------------------------------------------------------------------------------------
// Event log hash (determinism self-check) and run signature
// ---------------------------------------------------------------------------------------------

#[derive(Clone, Debug)]
pub struct Fnv(pub u64);

impl Default for Fnv {
    fn default() -> Self {
        Fnv(0xcbf2_9ce4_8422_2325)
    }
}

impl Fnv {
    pub fn write(&mut self, bytes: &[u8]) {
        for b in bytes {
            self.0 ^= u64::from(*b);
            self.0 = self.0.wrapping_mul(0x0000_0100_0000_01B3);
        }
    }

    pub fn write_str(&mut self, s: &str) {
        self.write(s.as_bytes());
        self.write(&[0xff]);
    }

    pub fn write_u64(&mut self, v: u64) {
        self.write(&v.to_le_bytes());
    }
}

/// The recorded history of one run. `ev` lines feed the determinism hash (and are kept verbatim
/// when `VERIF_TRACE=1`); `abs` lines feed the *abstract-state* signature used to count distinct
/// interleavings. Logging never draws from a PRNG and never reads a clock.
#[derive(Default)]
pub struct Trace {
    pub log_hash: Fnv,
    pub sig_hash: Fnv,
    pub keep: bool,
    pub lines: Vec<String>,
    pub events: u64,
}

impl Trace {
    pub fn new() -> Self {
        Self {
            keep: std::env::var("VERIF_TRACE").map(|v| v == "1").unwrap_or(false),
            ..Self::default()
        }
    }

    pub fn ev(&mut self, line: &str) {
        self.events += 1;
        self.log_hash.write_str(line);
        if self.keep {
            self.lines.push(line.to_string());
        }
    }

    pub fn abs(&mut self, line: &str) {
        self.sig_hash.write_str(line);
    }
}

// ---------------------------------------------------------------------------------------------
// Results
// ---------------------------------------------------------------------------------------------

#[derive(Serialize, Deserialize, Clone, Debug, PartialEq, Eq)]
pub struct Violation {
    /// Property id, e.g. `C05`.
    pub property: String,
    /// Stable oracle id, e.g. `finalize-response-differs`.
    pub oracle: String,
    /// Stable description of the failing input class / call site, used to match known findings,
    /// e.g. `add-then-remove-same-block`. Must not contain seed-dependent values.
    pub signature: String,
    /// Human readable details (may contain values).
    pub message: String,
    /// Step (op index) at which the oracle fired.
    pub step: u64,
}

#[derive(Serialize, Deserialize, Clone, Debug, Default)]
pub struct Stats {
    pub steps: u64,
    /// Simulated milliseconds covered by the run.
    pub sim_ms: u64,
    /// How often each fault kind actually fired.
    pub faults: BTreeMap<String, u64>,
    /// "rare condition reached" probes and workload counters.
    pub probes: BTreeMap<String, u64>,
    /// Properties for which this run was non-trivial by the engine's stated rule.
    pub nontrivial: Vec<String>,
    /// Hash of the sequence of abstract states visited (distinctness measure).
    pub run_sig: u64,
    /// Hash of the full event log (determinism measure).
    pub log_hash: u64,
    pub events: u64,
}

impl Stats {
    pub fn fault(&mut self, kind: &str) {
        *self.faults.entry(kind.to_string()).or_default() += 1;
    }

    pub fn probe(&mut self, name: &str) {
        *self.probes.entry(name.to_string()).or_default() += 1;
    }

    pub fn probe_n(&mut self, name: &str, n: u64) {
        *self.probes.entry(name.to_string()).or_default() += n;
    }

    pub fn mark_nontrivial(&mut self, property: &str) {
        if !self.nontrivial.iter().any(|p| p == property) {
            self.nontrivial.push(property.to_string());
        }
    }

    pub fn finish(&mut self, trace: &Trace) {
        self.run_sig = trace.sig_hash.0;
        self.log_hash = trace.log_hash.0;
        self.events = trace.events;
    }
}

#[derive(Default)]
pub struct Outcome {
    pub violations: Vec<Violation>,
    pub stats: Stats,
    /// Kept only with VERIF_TRACE=1.
    pub trace_lines: Vec<String>,
}

// ---------------------------------------------------------------------------------------------
// Engine interface
// ---------------------------------------------------------------------------------------------

pub trait Engine {
    type Scenario: Serialize + DeserializeOwned + Clone;
    const NAME: &'static str;

    /// Expand a seed into a scenario (config + symbolic op list). Must be pure.
    fn generate(profile: &str, tier: &str, seed: u64) -> Self::Scenario;

    /// Execute the scenario against the real code. Must be deterministic. Panics of the code under
    /// test that matter to a property are caught by the engine and turned into violations; a panic
    /// that escapes is a harness error.
    fn run(scenario: &Self::Scenario) -> Outcome;

    /// Number of removable ops.
    fn len(scenario: &Self::Scenario) -> usize;

    /// The scenario with only the ops whose `keep[i]` is true.
    fn retain(scenario: &Self::Scenario, keep: &[bool]) -> Self::Scenario;

    /// One-step simplifications (smaller arguments, fewer nodes, simpler op kinds …).
    fn simplify(_scenario: &Self::Scenario) -> Vec<Self::Scenario> {
        Vec::new()
    }

    /// A short human-readable rendering for evidence samples.
    fn summarize(scenario: &Self::Scenario) -> serde_json::Value {
        serde_json::to_value(scenario).unwrap_or(serde_json::Value::Null)
    }
}

// ---------------------------------------------------------------------------------------------
// Job handling
// ---------------------------------------------------------------------------------------------

#[derive(Deserialize, Clone, Debug)]
pub struct Job {
    pub engine: String,
    pub mode: String,
    #[serde(default)]
    pub profile: String,
    /// Only violations of these properties are reported by this job ("*" = all).
    #[serde(default)]
    pub properties: Vec<String>,
    #[serde(default)]
    pub tier: String,
    #[serde(default)]
    pub base_seed: u64,
    /// First index, stride, count.
    #[serde(default)]
    pub start: u64,
    #[serde(default)]
    pub stride: u64,
    #[serde(default)]
    pub count: u64,
    /// Wall-clock budget in seconds for this worker (0 = none). Only bounds the batch; never
    /// enters a run.
    #[serde(default)]
    pub deadline_s: f64,
    #[serde(default)]
    pub out: String,
    #[serde(default)]
    pub replay_dir: String,
    #[serde(default)]
    pub file: String,
    #[serde(default)]
    pub out_file: String,
    #[serde(default)]
    pub budget_s: f64,
    /// Number of samples (summaries) to emit.
    #[serde(default)]
    pub samples: u64,
    /// Explicit seeds instead of start/stride/count.
    #[serde(default)]
    pub seeds: Vec<u64>,
    /// minimise: the (oracle, signature) to preserve (default: the first violation of the file)
    #[serde(default)]
    pub target_oracle: String,
    #[serde(default)]
    pub target_signature: String,
}

#[derive(Serialize, Deserialize, Clone)]
pub struct ReplayFile<S> {
    pub engine: String,
    pub profile: String,
    pub tier: String,
    pub seed: u64,
    pub violations: Vec<Violation>,
    pub log_hash: u64,
    pub minimised: bool,
    pub original_ops: usize,
    pub scenario: S,
}

pub fn read_job() -> Option<Job> {
    let path = std::env::var("VERIF_JOB").ok()?;
    let text = std::fs::read_to_string(&path).unwrap_or_else(|e| panic!("read job {path}: {e}"));
    Some(serde_json::from_str(&text).unwrap_or_else(|e| panic!("parse job {path}: {e}")))
}

fn wanted(job: &Job, v: &Violation) -> bool {
    job.properties.is_empty()
        || job
            .properties
            .iter()
            .any(|p| p == "*" || *p == v.property)
}

thread_local! {
    static LAST_PANIC: std::cell::RefCell<Option<String>> = const { std::cell::RefCell::new(None) };
}

/// Installs a panic hook that records the message (and location) of the last panic on this thread
/// and stays quiet unless VERIF_TRACE=1.
pub fn install_panic_hook() {
    let verbose = std::env::var("VERIF_TRACE").map(|v| v == "1").unwrap_or(false);
    let default = std::panic::take_hook();
    std::panic::set_hook(Box::new(move |info| {
        let msg = if let Some(s) = info.payload().downcast_ref::<&str>() {
            (*s).to_string()
        } else if let Some(s) = info.payload().downcast_ref::<String>() {
            s.clone()
        } else {
            "<non-string panic>".to_string()
        };
        let loc = info
            .location()
            .map(|l| format!("{}:{}", l.file(), l.line()))
            .unwrap_or_default();
        LAST_PANIC.with(|p| *p.borrow_mut() = Some(format!("{msg} @ {loc}")));
        if verbose {
            default(info);
        }
    }));
}

pub fn take_last_panic() -> Option<String> {
    LAST_PANIC.with(|p| p.borrow_mut().take())
}

/// Runs `f`, converting a panic into `Err(message)`.
pub fn catch<T>(f: impl FnOnce() -> T) -> Result<T, String> {
    match std::panic::catch_unwind(AssertUnwindSafe(f)) {
        Ok(v) => Ok(v),
        Err(_) => Err(take_last_panic().unwrap_or_else(|| "panic".to_string())),
    }
}

fn run_guarded<E: Engine>(sc: &E::Scenario) -> Result<Outcome, String> {
    catch(|| E::run(sc))
}

fn open_out(path: &str) -> Box<dyn std::io::Write> {
    if path.is_empty() || path == "-" {
        Box::new(std::io::stdout())
    } else {
        Box::new(std::io::BufWriter::new(
            std::fs::File::create(path).unwrap_or_else(|e| panic!("create {path}: {e}")),
        ))
    }
}

pub fn engine_main<E: Engine>(job: &Job) {
    install_panic_hook();
    match job.mode.as_str() {
        "batch" => batch::<E>(job),
        "replay" => replay::<E>(job),
        "minimise" => minimise::<E>(job),
        "generate" => {
            let mut out = open_out(&job.out);
            for seed in seeds_of(job) {
                let sc = E::generate(&job.profile, &job.tier, seed);
                writeln!(
                    out,
                    "{{\"seed\":{},\"scenario\":{}}}",
                    seed,
                    serde_json::to_string(&sc).unwrap()
                )
                .unwrap();
            }
        }
        other => panic!("unknown mode {other}"),
    }
}

fn seeds_of(job: &Job) -> Vec<u64> {
    if !job.seeds.is_empty() {
        return job.seeds.clone();
    }
    (0..job.count)
        .map(|k| mix(job.base_seed, job.start + k * job.stride.max(1)))
        .collect()
}

fn batch<E: Engine>(job: &Job) {
    let started = Instant::now();
    let mut out = open_out(&job.out);
    let seeds = seeds_of(job);
    let mut emitted_samples = 0u64;
    for (k, seed) in seeds.iter().enumerate() {
        if job.deadline_s > 0.0 && started.elapsed().as_secs_f64() > job.deadline_s {
            writeln!(
                out,
                "{}",
                serde_json::json!({"deadline_hit": true, "done": k, "planned": seeds.len()})
            )
            .unwrap();
            break;
        }
        let sc = E::generate(&job.profile, &job.tier, *seed);
        let t0 = Instant::now();
        let res = run_guarded::<E>(&sc);
        let wall_ms = t0.elapsed().as_secs_f64() * 1000.0;
        match res {
            Err(msg) => {
                // harness error: keep the scenario so it can be inspected
                let path = format!("{}/harness-error-{}-{}.json", job.replay_dir, E::NAME, seed);
                let _ = std::fs::create_dir_all(&job.replay_dir);
                // (built as a string: `serde_json::Value` cannot hold 128-bit integers)
                let _ = std::fs::write(
                    &path,
                    format!(
                        "{{\"engine\":{},\"profile\":{},\"tier\":{},\"seed\":{},\"harness_error\":{},\"scenario\":{}}}",
                        serde_json::to_string(E::NAME).unwrap(),
                        serde_json::to_string(&job.profile).unwrap(),
                        serde_json::to_string(&job.tier).unwrap(),
                        seed,
                        serde_json::to_string(&msg).unwrap(),
                        serde_json::to_string(&sc).unwrap_or_else(|_| "null".to_string()),
                    ),
                );
                writeln!(
                    out,
                    "{}",
                    serde_json::json!({"seed": seed, "harness_error": msg, "file": path})
                )
                .unwrap();
            }
            Ok(outcome) => {
                let all = outcome.violations.len();
                let viol: Vec<&Violation> =
                    outcome.violations.iter().filter(|v| wanted(job, v)).collect();
                let mut replay_path = serde_json::Value::Null;
                if !viol.is_empty() {
                    let _ = std::fs::create_dir_all(&job.replay_dir);
                    let path = format!(
                        "{}/{}-{}-{}.json",
                        job.replay_dir, viol[0].property, E::NAME, seed
                    );
                    let rf = ReplayFile {
                        engine: E::NAME.to_string(),
                        profile: job.profile.clone(),
                        tier: job.tier.clone(),
                        seed: *seed,
                        violations: viol.iter().map(|v| (*v).clone()).collect(),
                        log_hash: outcome.stats.log_hash,
                        minimised: false,
                        original_ops: E::len(&sc),
                        scenario: sc.clone(),
                    };
                    std::fs::write(&path, serde_json::to_vec(&rf).unwrap())
                        .unwrap_or_else(|e| panic!("write {path}: {e}"));
                    replay_path = serde_json::Value::String(path);
                }
                let sample = if emitted_samples < job.samples {
                    emitted_samples += 1;
                    E::summarize(&sc)
                } else {
                    serde_json::Value::Null
                };
                writeln!(
                    out,
                    "{}",
                    serde_json::json!({
                        "seed": seed,
                        "ops": E::len(&sc),
                        "violations": viol,
                        "other_violations": all - viol.len(),
                        "replay": replay_path,
                        "stats": outcome.stats,
                        "wall_ms": wall_ms,
                        "sample": sample,
                    })
                )
                .unwrap();
            }
        }
        out.flush().unwrap();
    }
    writeln!(
        out,
        "{}",
        serde_json::json!({"worker_done": true, "wall_s": started.elapsed().as_secs_f64()})
    )
    .unwrap();
    out.flush().unwrap();
}

fn load_replay<E: Engine>(path: &str) -> ReplayFile<E::Scenario> {
    let text = std::fs::read_to_string(path).unwrap_or_else(|e| panic!("read {path}: {e}"));
    serde_json::from_str(&text).unwrap_or_else(|e| panic!("parse {path}: {e}"))
}

fn replay<E: Engine>(job: &Job) {
    let rf = load_replay::<E>(&job.file);
    let mut out = open_out(&job.out);
    match run_guarded::<E>(&rf.scenario) {
        Err(msg) => writeln!(out, "{}", serde_json::json!({"harness_error": msg})).unwrap(),
        Ok(outcome) => {
            let reproduced = rf.violations.iter().all(|want| {
                outcome
                    .violations
                    .iter()
                    .any(|got| got.property == want.property && got.oracle == want.oracle)
            });
            writeln!(
                out,
                "{}",
                serde_json::json!({
                    "replayed": job.file,
                    "reproduced": reproduced && !rf.violations.is_empty(),
                    "same_log_hash": outcome.stats.log_hash == rf.log_hash,
                    "violations": outcome.violations,
                    "expected": rf.violations,
                    "stats": outcome.stats,
                    "trace": outcome.trace_lines,
                })
            )
            .unwrap();
        }
    }
    out.flush().unwrap();
}

/// ddmin over the op list followed by argument simplification, accepting a candidate only if the
/// same (property, oracle) still fails.
fn minimise<E: Engine>(job: &Job) {
    let started = Instant::now();
    let budget = if job.budget_s > 0.0 { job.budget_s } else { 60.0 };
    let rf = load_replay::<E>(&job.file);
    let target = rf
        .violations
        .iter()
        .find(|v| {
            !job.target_oracle.is_empty()
                && v.oracle == job.target_oracle
                && (job.target_signature.is_empty() || v.signature == job.target_signature)
        })
        .or_else(|| rf.violations.first())
        .cloned()
        .expect("replay file has a violation");
    let still_fails = |sc: &E::Scenario| -> Option<Outcome> {
        match run_guarded::<E>(sc) {
            Ok(o)
                if o.violations.iter().any(|v| {
                    v.property == target.property
                        && v.oracle == target.oracle
                        && (job.target_signature.is_empty() || v.signature == target.signature)
                }) =>
            {
                Some(o)
            }
            _ => None,
        }
    };
    let mut best = rf.scenario.clone();
    let mut best_outcome = still_fails(&best);
    let mut tried = 0u64;
    if best_outcome.is_some() {
        // phase 1: ddmin on ops
        let mut chunk = (E::len(&best) / 2).max(1);
        'outer: loop {
            let n = E::len(&best);
            if n == 0 {
                break;
            }
            let mut progress = false;
            let mut start = 0usize;
            while start < E::len(&best) {
                if started.elapsed().as_secs_f64() > budget {
                    break 'outer;
                }
                let n = E::len(&best);
                let end = (start + chunk).min(n);
                let keep: Vec<bool> = (0..n).map(|i| i < start || i >= end).collect();
                let cand = E::retain(&best, &keep);
                tried += 1;
                if let Some(o) = still_fails(&cand) {
                    best = cand;
                    best_outcome = Some(o);
                    progress = true;
                    // do not advance start: the next chunk slid into place
                } else {
                    start = end;
                }
            }
            if !progress {
                if chunk == 1 {
                    break;
                }
                chunk = (chunk / 2).max(1);
            }
        }
        // phase 2: argument simplification to a fixpoint
        'simp: loop {
            let mut progress = false;
            for cand in E::simplify(&best) {
                if started.elapsed().as_secs_f64() > budget {
                    break 'simp;
                }
                tried += 1;
                if let Some(o) = still_fails(&cand) {
                    best = cand;
                    best_outcome = Some(o);
                    progress = true;
                    break;
                }
            }
            if !progress {
                break;
            }
        }
    }
    let out_file = if job.out_file.is_empty() {
        job.file.clone()
    } else {
        job.out_file.clone()
    };
    let mut out = open_out(&job.out);
    match best_outcome {
        None => {
            writeln!(
                out,
                "{}",
                serde_json::json!({"minimised": false, "reason": "original does not reproduce"})
            )
            .unwrap();
        }
        Some(o) => {
            let viol: Vec<Violation> = o
                .violations
                .iter()
                .filter(|v| v.property == target.property && v.oracle == target.oracle)
                .cloned()
                .collect();
            let new = ReplayFile {
                engine: rf.engine.clone(),
                profile: rf.profile.clone(),
                tier: rf.tier.clone(),
                seed: rf.seed,
                violations: viol.clone(),
                log_hash: o.stats.log_hash,
                minimised: true,
                original_ops: rf.original_ops,
                scenario: best.clone(),
            };
            std::fs::write(&out_file, serde_json::to_vec_pretty(&new).unwrap()).unwrap();
            writeln!(
                out,
                "{}",
                serde_json::json!({
                    "minimised": true, "file": out_file, "ops_before": rf.original_ops,
                    "ops_after": E::len(&best), "candidates_tried": tried,
                    "violations": viol,
                })
            )
            .unwrap();
        }
    }
    out.flush().unwrap();
}

// ---------------------------------------------------------------------------------------------
// Small helpers shared by engines
// ---------------------------------------------------------------------------------------------

/// Collects violations during a run and de-duplicates on (property, oracle, signature).
#[derive(Default)]
pub struct Violations {
    pub list: Vec<Violation>,
}

impl Violations {
    pub fn push(
        &mut self,
        property: &str,
        oracle: &str,
        signature: &str,
        step: u64,
        message: String,
    ) {
        if self
            .list
            .iter()
            .any(|v| v.property == property && v.oracle == oracle && v.signature == signature)
        {
            return;
        }
        self.list.push(Violation {
            property: property.to_string(),
            oracle: oracle.to_string(),
            signature: signature.to_string(),
            message,
            step,
        });
    }

    pub fn is_empty(&self) -> bool {
        self.list.is_empty()
    }
}

pub fn hex(bytes: &[u8]) -> String {
    let mut s = String::with_capacity(bytes.len() * 2);
    for b in bytes {
        s.push_str(&format!("{b:02x}"));
    }
    s
}

pub fn short_hex(bytes: &[u8]) -> String {
    hex(&bytes[..bytes.len().min(6)])
}
