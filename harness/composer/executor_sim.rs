//! Layer B (`executor` profile): the real `Executor::run_until_stopped` against a fake sequencer.
//!
//! Real: the select loop, the block timer (paused tokio clock), `BundleFactory`, `SubmitFut`
//! (nonce refetch + resubmission), `submit_tx` / `get_pending_nonce` with their tryhard back-off,
//! the shutdown drain, `Handle::send_timeout`, tonic client + in-memory HTTP/2.
//! Stub: collectors (tasks calling `Handle::send_timeout` at PRNG virtual times), the sequencer
//! (CometBFT JSON-RPC through `SimHttpClient` (hook H6); `SequencerService/GetPendingNonce` over an
//! in-memory tonic channel), the shutdown token.
//!
//! `Executor` is constructed field by field (this module is a descendant of `executor`, so the
//! private fields are reachable); `executor::Builder::build` (key file, URL parsing, the 256-slot
//! channel) is *not* exercised.

use std::{
    collections::VecDeque,
    io,
    pin::Pin,
    sync::{
        Arc,
        Mutex,
    },
    task::{
        Context,
        Poll,
    },
    time::Duration,
};

use astria_core::{
    crypto::SigningKey,
    generated::astria::{
        protocol::transaction::v1::Transaction as RawTransaction,
        sequencerblock::v1::{
            sequencer_service_client::SequencerServiceClient,
            sequencer_service_server::{
                SequencerService,
                SequencerServiceServer,
            },
            FilteredSequencerBlock,
            GetFilteredSequencerBlockRequest,
            GetPendingNonceRequest,
            GetPendingNonceResponse,
            GetSequencerBlockRequest,
            GetUpgradesInfoRequest,
            GetUpgradesInfoResponse,
            GetValidatorNameRequest,
            GetValidatorNameResponse,
            SequencerBlock as RawSequencerBlock,
        },
    },
    primitive::v1::Address,
    protocol::{
        abci::AbciErrorCode,
        transaction::v1::Transaction,
    },
    Protobuf as _,
};
use prost::Message as _;
use sequencer_client::tendermint_rpc::{
    self as rpc,
    endpoint::broadcast::tx_sync,
};
use serde::{
    Deserialize,
    Serialize,
};
use telemetry::Metrics as _;
use tokio::{
    sync::{
        mpsc,
        watch,
    },
    time::Instant,
};
use tokio_util::sync::CancellationToken;

use super::{
    common::{
        Outcome,
        Rng,
        Stats,
        Trace,
        Violations,
    },
    txs::{
        self,
        TxKey,
        TxSpec,
    },
};
use crate::{
    executor::{
        Executor,
        Handle,
        Status,
    },
    metrics::Metrics,
};

const PROP: &str = "C16";
const CHAIN_ID: &str = "verif-chain";
const ABCI_URL: &str = "http://sim-sequencer.abci:26657";
const GRPC_URL: &str = "http://sim-sequencer.grpc:8080";
/// At most this many consecutive transport errors per RPC kind, so that one back-off never
/// exceeds 1.6 s and the 16 s drain budget is not exhausted by faults that have stopped.
const MAX_CONSECUTIVE_ERRORS: u32 = 4;
/// Latency of the fake sequencer once faults have stopped (after the shutdown signal).
const CALM_LATENCY_MS: u64 = 5;

// ---------------------------------------------------------------------------------------------
// scenario
// ---------------------------------------------------------------------------------------------

#[derive(Serialize, Deserialize, Clone, Copy, Debug, PartialEq, Eq)]
pub(crate) enum BcastOutcome {
    /// process the transaction (accept it, or answer with a nonce error if it is stale)
    Process,
    /// transport error before the transaction reached the sequencer (connection refused / reset)
    TransportError,
    /// CheckTx fails for a reason other than the nonce: the executor gives the bundle up
    RejectOther,
    /// Exploration only (profile `executor-lostresp`, not part of the registered check): the
    /// sequencer accepts the transaction but the response is lost; like CometBFT, the fake then
    /// answers a byte-identical retry with the JSON-RPC error "tx already exists in cache".
    AcceptLoseResponse,
}

#[derive(Serialize, Deserialize, Clone, Copy, Debug)]
pub(crate) struct BcastPlan {
    pub(crate) latency_ms: u64,
    pub(crate) outcome: BcastOutcome,
}

#[derive(Serialize, Deserialize, Clone, Copy, Debug)]
pub(crate) struct NoncePlan {
    pub(crate) latency_ms: u64,
    pub(crate) error: bool,
}

#[derive(Serialize, Deserialize, Clone, Debug)]
pub(crate) struct Config {
    pub(crate) max_bytes: usize,
    pub(crate) capacity: usize,
    pub(crate) block_time_ms: u64,
    pub(crate) chan_capacity: usize,
    pub(crate) send_timeout_ms: u64,
    /// relative to the instant the executor reports `is_connected`
    pub(crate) shutdown_at_ms: u64,
    pub(crate) start_nonce: u32,
    pub(crate) genesis_errors: u8,
    /// the k-th broadcast / nonce request (while faults are on) is treated by plan[k % len]
    pub(crate) bcast_plan: Vec<BcastPlan>,
    pub(crate) nonce_plan: Vec<NoncePlan>,
}

#[derive(Serialize, Deserialize, Clone, Copy, Debug, PartialEq, Eq)]
pub(crate) enum SizeSpec {
    Min,
    Data(usize),
    Frac(u16),
    ExactMax,
    MaxPlus(u16),
}

#[derive(Serialize, Deserialize, Clone, Debug)]
pub(crate) enum Op {
    /// A collector calls `Handle::send_timeout` at this virtual time.
    Send {
        at_ms: u64,
        id: u32,
        rollup: u8,
        asset: u8,
        size: SizeSpec,
    },
    /// Somebody else's transactions of the same account landed: the account nonce moves on, the
    /// next broadcast carrying a stale nonce is answered INVALID_NONCE (or NONCE_TAKEN).
    NonceBump {
        at_ms: u64,
        by: u32,
        taken: bool,
    },
}

impl Op {
    fn at_ms(&self) -> u64 {
        match self {
            Op::Send {
                at_ms, ..
            }
            | Op::NonceBump {
                at_ms, ..
            } => *at_ms,
        }
    }
}

#[derive(Serialize, Deserialize, Clone, Debug)]
pub(crate) struct Scenario {
    pub(crate) cfg: Config,
    pub(crate) ops: Vec<Op>,
}

pub(crate) fn generate(tier: &str, seed: u64) -> Scenario {
    let mut rng = Rng::new(seed ^ 0xE8EC_0000);
    let max_bytes = match rng.weighted(&[1, 2, 8, 8, 3]) {
        0 => *rng.pick(&[106usize, 109, 110]),
        1 => *rng.pick(&[212usize, 213, 218, 235, 236, 237, 318]),
        2 => rng.range(220, 700) as usize,
        3 => rng.range(700, 3000) as usize,
        _ => rng.range(3000, 12000) as usize,
    };
    let capacity = rng.range(1, 4) as usize;
    let block_time_ms = *rng.pick(&[20u64, 50, 100, 250, 500, 1000, 2000]);
    let chan_capacity = *rng.pick(&[1usize, 1, 2, 4, 16, 256]);
    let send_timeout_ms = *rng.pick(&[0u64, 5, 50, 500, 3000]);
    let n_sends = if tier == "thorough" {
        rng.range(5, 250) as usize
    } else {
        rng.range(5, 90) as usize
    };
    // arrivals: bursts separated by gaps
    let gap_small = *rng.pick(&[0u64, 0, 1, 5, 20, block_time_ms / 2, block_time_ms * 2]);
    let gap_big = *rng.pick(&[50u64, 200, 1000, 3000]);
    let burst_pm = *rng.pick(&[0u64, 50, 200, 600]);
    let size_w: [u32; 7] = [
        *rng.pick(&[0, 2, 10]),  // Min
        *rng.pick(&[0, 5, 20]),  // Data small
        *rng.pick(&[5, 20, 40]), // Frac small
        *rng.pick(&[0, 10, 30]), // Frac half
        *rng.pick(&[0, 5, 15]),  // Frac near max
        *rng.pick(&[0, 3, 10]),  // ExactMax
        *rng.pick(&[0, 2, 4, 8]), // MaxPlus
    ];
    let n_rollups = rng.range(1, 4) as u8;
    let n_assets = rng.range(1, txs::ASSETS.len() as u64) as u8;
    let mut ops = Vec::new();
    let mut t = rng.range(0, 50);
    for k in 0..n_sends {
        let size = match rng.weighted(&size_w) {
            0 => SizeSpec::Min,
            1 => SizeSpec::Data(rng.range(0, 40) as usize),
            2 => SizeSpec::Frac(rng.range(20, 300) as u16),
            3 => SizeSpec::Frac(rng.range(300, 700) as u16),
            4 => SizeSpec::Frac(rng.range(700, 1000) as u16),
            5 => SizeSpec::ExactMax,
            _ => SizeSpec::MaxPlus(*rng.pick(&[1u16, 1, 2, 3, 50])),
        };
        ops.push(Op::Send {
            at_ms: t,
            id: k as u32 + 1,
            rollup: rng.below(u64::from(n_rollups)) as u8,
            asset: rng.below(u64::from(n_assets)) as u8,
            size,
        });
        t += if rng.below(1000) < burst_pm {
            rng.range(0, gap_big)
        } else {
            rng.range(0, gap_small)
        };
    }
    let horizon = t.max(1);
    // nonce bumps
    let n_bumps = *rng.pick(&[0usize, 0, 1, 2, 4, 8]);
    for _ in 0..n_bumps {
        ops.push(Op::NonceBump {
            at_ms: rng.range(0, horizon + 2 * block_time_ms),
            by: rng.range(1, 3) as u32,
            taken: rng.chance(1, 3),
        });
    }
    ops.sort_by_key(Op::at_ms);
    let shutdown_at_ms = match rng.weighted(&[1, 3, 3, 5]) {
        0 => rng.range(0, 20),
        1 => rng.range(0, horizon),
        2 => horizon + rng.range(0, block_time_ms),
        _ => horizon + rng.range(block_time_ms, 6 * block_time_ms + 5000),
    };
    // fake sequencer behaviour
    let lat_hi = match rng.weighted(&[3, 3, 3, 2]) {
        0 => *rng.pick(&[0u64, 2, 10]),
        1 => block_time_ms,
        2 => (block_time_ms * 4).min(4000),
        _ => 4000,
    };
    let err_pm = *rng.pick(&[0u64, 0, 60, 250]);
    let reject_pm = *rng.pick(&[0u64, 0, 0, 40]);
    let plan_len = rng.range(8, 48) as usize;
    let bcast_plan = (0..plan_len)
        .map(|_| {
            let x = rng.below(1000);
            BcastPlan {
                latency_ms: if rng.chance(1, 4) { 0 } else { rng.range(0, lat_hi) },
                outcome: if x < err_pm {
                    BcastOutcome::TransportError
                } else if x < err_pm + reject_pm {
                    BcastOutcome::RejectOther
                } else {
                    BcastOutcome::Process
                },
            }
        })
        .collect();
    let nerr_pm = *rng.pick(&[0u64, 0, 100, 400]);
    let nonce_plan = (0..rng.range(4, 16) as usize)
        .map(|_| NoncePlan {
            latency_ms: if rng.chance(1, 4) { 0 } else { rng.range(0, lat_hi) },
            error: rng.below(1000) < nerr_pm,
        })
        .collect();
    Scenario {
        cfg: Config {
            max_bytes,
            capacity,
            block_time_ms,
            chan_capacity,
            send_timeout_ms,
            shutdown_at_ms,
            start_nonce: *rng.pick(&[0u32, 1, 7, 1000]),
            genesis_errors: *rng.pick(&[0u8, 0, 1, 3]),
            bcast_plan,
            nonce_plan,
        },
        ops,
    }
}

/// The registered scenario plus one or two "accepted, response lost" broadcasts early in the plan.
pub(crate) fn generate_lostresp(tier: &str, seed: u64) -> Scenario {
    let mut s = generate(tier, seed);
    let mut rng = Rng::new(seed ^ 0x1057_0000);
    let n = s.cfg.bcast_plan.len();
    for _ in 0..rng.range(1, 2) {
        let k = rng.below_usize(n.min(6));
        s.cfg.bcast_plan[k].outcome = BcastOutcome::AcceptLoseResponse;
    }
    s
}

pub(crate) fn simplify(s: &Scenario) -> Vec<Scenario> {
    let mut out = Vec::new();
    let plain_fault = |o: BcastOutcome| {
        matches!(o, BcastOutcome::TransportError | BcastOutcome::RejectOther)
    };
    if s.cfg.bcast_plan.iter().any(|p| plain_fault(p.outcome)) {
        let mut c = s.clone();
        for p in &mut c.cfg.bcast_plan {
            if plain_fault(p.outcome) {
                p.outcome = BcastOutcome::Process;
            }
        }
        out.push(c);
    }
    if s.cfg.nonce_plan.iter().any(|p| p.error) || s.cfg.genesis_errors > 0 {
        let mut c = s.clone();
        for p in &mut c.cfg.nonce_plan {
            p.error = false;
        }
        c.cfg.genesis_errors = 0;
        out.push(c);
    }
    if s.cfg.bcast_plan.iter().any(|p| p.latency_ms > 0)
        || s.cfg.nonce_plan.iter().any(|p| p.latency_ms > 0)
    {
        let mut c = s.clone();
        for p in &mut c.cfg.bcast_plan {
            p.latency_ms = 0;
        }
        for p in &mut c.cfg.nonce_plan {
            p.latency_ms = 0;
        }
        out.push(c);
    }
    if s.cfg.chan_capacity != 256 {
        let mut c = s.clone();
        c.cfg.chan_capacity = 256;
        out.push(c);
    }
    if s.cfg.start_nonce != 0 {
        let mut c = s.clone();
        c.cfg.start_nonce = 0;
        out.push(c);
    }
    for (i, op) in s.ops.iter().enumerate() {
        if out.len() >= 64 {
            break;
        }
        if let Op::Send {
            at_ms,
            id,
            rollup,
            asset,
            size,
        } = op
        {
            if *size != SizeSpec::Min || *rollup != 0 || *asset != 0 {
                let mut c = s.clone();
                c.ops[i] = Op::Send {
                    at_ms: *at_ms,
                    id: *id,
                    rollup: 0,
                    asset: 0,
                    size: if *size == SizeSpec::Min { SizeSpec::Min } else { SizeSpec::Frac(300) },
                };
                if *size != SizeSpec::Frac(300) || *rollup != 0 || *asset != 0 {
                    out.push(c);
                }
            }
        }
    }
    out
}

pub(crate) fn summarize(s: &Scenario) -> serde_json::Value {
    let ops: Vec<String> = s
        .ops
        .iter()
        .take(30)
        .map(|op| match op {
            Op::Send {
                at_ms,
                id,
                size,
                ..
            } => format!("{at_ms}ms send#{id}:{size:?}"),
            Op::NonceBump {
                at_ms,
                by,
                taken,
            } => format!("{at_ms}ms nonce+{by}{}", if *taken { ":taken" } else { "" }),
        })
        .collect();
    let c = &s.cfg;
    serde_json::json!({"layer": "executor", "max_bytes": c.max_bytes, "capacity": c.capacity,
        "block_time_ms": c.block_time_ms, "chan_capacity": c.chan_capacity,
        "send_timeout_ms": c.send_timeout_ms, "shutdown_at_ms": c.shutdown_at_ms,
        "bcast_plan_head": c.bcast_plan.iter().take(6).map(|p| format!("{}ms:{:?}", p.latency_ms, p.outcome)).collect::<Vec<_>>(),
        "n_ops": s.ops.len(), "first_ops": ops})
}

fn resolve(size: SizeSpec, max: usize) -> usize {
    match size {
        SizeSpec::Min => 0,
        SizeSpec::Data(n) => n,
        SizeSpec::Frac(pm) => txs::data_len_for(max * usize::from(pm) / 1000, false),
        SizeSpec::ExactMax => txs::data_len_for(max, false),
        SizeSpec::MaxPlus(k) => txs::data_len_for(max + usize::from(k), true),
    }
}

// ---------------------------------------------------------------------------------------------
// shared simulation state
// ---------------------------------------------------------------------------------------------

#[derive(Clone, Debug)]
struct SentTx {
    key: TxKey,
    size: usize,
    /// set once the transaction was seen in a definitive broadcast
    emitted: bool,
}

#[derive(Clone, Debug)]
struct EmittedBundle {
    total: usize,
    first_size: usize,
    after_shutdown: bool,
}

struct Shared {
    trace: Trace,
    stats: Stats,
    viol: Violations,
    cfg: Config,
    start: Instant,
    step: u64,
    // fake sequencer
    signer: [u8; 20],
    nonce: u32,
    faults_on: bool,
    stale_code_taken: bool,
    bcast_seq: usize,
    nonce_seq: usize,
    genesis_seq: usize,
    consecutive_bcast_errors: u32,
    consecutive_nonce_errors: u32,
    // observations
    /// transactions whose `send_timeout` returned `Ok`, in completion (= channel) order
    sent: Vec<SentTx>,
    /// everything in `sent` before this index is either emitted or skipped
    cursor: usize,
    emitted_bundles: Vec<EmittedBundle>,
    stale_bundle: Option<Vec<TxKey>>,
    shutdown_fired: bool,
    broadcasts_processed: u64,
    sink: Arc<Mutex<LogSink>>,
    /// exploration only: bytes of transactions the sequencer has in its tx cache
    tx_cache: Vec<Vec<u8>>,
}

impl Shared {
    fn now_ms(&self) -> u64 {
        Instant::now().duration_since(self.start).as_millis() as u64
    }

    fn ev(&mut self, line: &str) {
        let t = self.now_ms();
        self.trace.ev(&format!("{t:>7} {line}"));
    }

    fn violation(&mut self, oracle: &str, signature: &str, msg: String) {
        self.ev(&format!("VIOLATION {oracle} {signature}"));
        let step = self.step;
        self.viol.push(PROP, oracle, signature, step, msg);
    }
}

type Sh = Arc<Mutex<Shared>>;

// ---------------------------------------------------------------------------------------------
// log capture: the executor reports refusals only through `warn!`
// ---------------------------------------------------------------------------------------------

#[derive(Default)]
struct LogSink {
    /// (kind, encoded size reported, number of bundles definitively broadcast before) of "failed
    /// to bundle transaction, dropping it."
    refusals: Vec<(RefusalKind, usize, usize)>,
    /// maintained by the fake sequencer
    bundles_emitted: usize,
    drain_timed_out: bool,
    drain_failed: bool,
    other_warnings: u64,
}

#[derive(Clone, Copy, Debug, PartialEq, Eq)]
enum RefusalKind {
    TooLarge,
    QueueFull,
    Unknown,
}

struct Capture {
    sink: Arc<Mutex<LogSink>>,
}

#[derive(Default)]
struct FieldGrab {
    message: String,
    error: String,
}

impl tracing::field::Visit for FieldGrab {
    fn record_debug(&mut self, field: &tracing::field::Field, value: &dyn std::fmt::Debug) {
        match field.name() {
            "message" => self.message = format!("{value:?}"),
            "error" => self.error = format!("{value:?}"),
            _ => {}
        }
    }

    fn record_str(&mut self, field: &tracing::field::Field, value: &str) {
        match field.name() {
            "message" => self.message = value.to_string(),
            "error" => self.error = value.to_string(),
            _ => {}
        }
    }

    fn record_error(
        &mut self,
        field: &tracing::field::Field,
        value: &(dyn std::error::Error + 'static),
    ) {
        if field.name() == "error" {
            self.error = value.to_string();
        }
    }
}

fn last_number_after(hay: &str, needle: &str) -> Option<usize> {
    let at = hay.rfind(needle)? + needle.len();
    let digits: String = hay[at..].chars().take_while(char::is_ascii_digit).collect();
    digits.parse().ok()
}

impl tracing::Subscriber for Capture {
    fn enabled(&self, metadata: &tracing::Metadata<'_>) -> bool {
        metadata.is_event() && *metadata.level() <= tracing::Level::WARN
    }

    fn new_span(&self, _span: &tracing::span::Attributes<'_>) -> tracing::span::Id {
        tracing::span::Id::from_u64(1)
    }

    fn record(&self, _span: &tracing::span::Id, _values: &tracing::span::Record<'_>) {}

    fn record_follows_from(&self, _span: &tracing::span::Id, _follows: &tracing::span::Id) {}

    fn event(&self, event: &tracing::Event<'_>) {
        let mut grab = FieldGrab::default();
        event.record(&mut grab);
        let mut sink = self.sink.lock().unwrap();
        if grab.message.contains("failed to bundle transaction, dropping it") {
            let kind = if grab.error.contains("larger than the max bundle size") {
                RefusalKind::TooLarge
            } else if grab.error.contains("finished bundle queue is at capacity") {
                RefusalKind::QueueFull
            } else {
                RefusalKind::Unknown
            };
            let size = last_number_after(&grab.error, "action size: ").unwrap_or(usize::MAX);
            let seen = sink.bundles_emitted;
            sink.refusals.push((kind, size, seen));
        } else if grab.message.contains("executor shutdown tasks failed to complete in time")
            || grab.message.contains("unable to drain all bundles within the allocated time")
        {
            sink.drain_timed_out = true;
        } else if grab.message.contains("executor shutdown tasks failed") {
            sink.drain_failed = true;
        } else {
            sink.other_warnings += 1;
        }
    }

    fn enter(&self, _span: &tracing::span::Id) {}

    fn exit(&self, _span: &tracing::span::Id) {}
}

// ---------------------------------------------------------------------------------------------
// in-memory transport for the tonic channel (no sockets)
// ---------------------------------------------------------------------------------------------

struct MemIo(tokio::io::DuplexStream);

impl hyper::rt::Read for MemIo {
    fn poll_read(
        mut self: Pin<&mut Self>,
        cx: &mut Context<'_>,
        mut buf: hyper::rt::ReadBufCursor<'_>,
    ) -> Poll<io::Result<()>> {
        let mut tmp = [0u8; 8192];
        let want = buf.remaining().min(tmp.len());
        if want == 0 {
            return Poll::Ready(Ok(()));
        }
        let mut rb = tokio::io::ReadBuf::new(&mut tmp[..want]);
        match tokio::io::AsyncRead::poll_read(Pin::new(&mut self.0), cx, &mut rb) {
            Poll::Ready(Ok(())) => {
                buf.put_slice(rb.filled());
                Poll::Ready(Ok(()))
            }
            Poll::Ready(Err(e)) => Poll::Ready(Err(e)),
            Poll::Pending => Poll::Pending,
        }
    }
}

impl hyper::rt::Write for MemIo {
    fn poll_write(
        mut self: Pin<&mut Self>,
        cx: &mut Context<'_>,
        buf: &[u8],
    ) -> Poll<io::Result<usize>> {
        tokio::io::AsyncWrite::poll_write(Pin::new(&mut self.0), cx, buf)
    }

    fn poll_flush(mut self: Pin<&mut Self>, cx: &mut Context<'_>) -> Poll<io::Result<()>> {
        tokio::io::AsyncWrite::poll_flush(Pin::new(&mut self.0), cx)
    }

    fn poll_shutdown(mut self: Pin<&mut Self>, cx: &mut Context<'_>) -> Poll<io::Result<()>> {
        tokio::io::AsyncWrite::poll_shutdown(Pin::new(&mut self.0), cx)
    }
}

/// Every connection attempt of the channel creates a fresh duplex pipe and hands the other end to
/// the in-process tonic server.
#[derive(Clone)]
struct MemConnector {
    to_server: mpsc::UnboundedSender<Result<tokio::io::DuplexStream, io::Error>>,
}

impl tonic::codegen::Service<tonic::transport::Uri> for MemConnector {
    type Error = io::Error;
    type Future = futures::future::Ready<Result<MemIo, io::Error>>;
    type Response = MemIo;

    fn poll_ready(&mut self, _cx: &mut Context<'_>) -> Poll<Result<(), Self::Error>> {
        Poll::Ready(Ok(()))
    }

    fn call(&mut self, _uri: tonic::transport::Uri) -> Self::Future {
        let (client, server) = tokio::io::duplex(1 << 16);
        let res = self
            .to_server
            .send(Ok(server))
            .map(|()| MemIo(client))
            .map_err(|_| io::Error::new(io::ErrorKind::ConnectionRefused, "sim server gone"));
        futures::future::ready(res)
    }
}

// ---------------------------------------------------------------------------------------------
// fake sequencer: gRPC side
// ---------------------------------------------------------------------------------------------

struct FakeGrpc {
    sh: Sh,
}

#[async_trait::async_trait]
impl SequencerService for FakeGrpc {
    async fn get_sequencer_block(
        self: Arc<Self>,
        _request: tonic::Request<GetSequencerBlockRequest>,
    ) -> Result<tonic::Response<RawSequencerBlock>, tonic::Status> {
        Err(tonic::Status::unimplemented("sim"))
    }

    async fn get_filtered_sequencer_block(
        self: Arc<Self>,
        _request: tonic::Request<GetFilteredSequencerBlockRequest>,
    ) -> Result<tonic::Response<FilteredSequencerBlock>, tonic::Status> {
        Err(tonic::Status::unimplemented("sim"))
    }

    async fn get_pending_nonce(
        self: Arc<Self>,
        _request: tonic::Request<GetPendingNonceRequest>,
    ) -> Result<tonic::Response<GetPendingNonceResponse>, tonic::Status> {
        let plan = {
            let mut g = self.sh.lock().unwrap();
            let k = g.nonce_seq;
            g.nonce_seq += 1;
            let plan = if g.faults_on {
                g.cfg.nonce_plan[k % g.cfg.nonce_plan.len()]
            } else {
                NoncePlan {
                    latency_ms: CALM_LATENCY_MS,
                    error: false,
                }
            };
            g.ev(&format!("nonce-req k={k} latency={}", plan.latency_ms));
            plan
        };
        tokio::time::sleep(Duration::from_millis(plan.latency_ms)).await;
        let mut g = self.sh.lock().unwrap();
        if plan.error && g.faults_on && g.consecutive_nonce_errors < MAX_CONSECUTIVE_ERRORS {
            g.consecutive_nonce_errors += 1;
            g.stats.fault("nonce_rpc_error");
            g.ev("nonce-rsp unavailable");
            return Err(tonic::Status::unavailable("sim: sequencer unavailable"));
        }
        g.consecutive_nonce_errors = 0;
        let nonce = g.nonce;
        g.ev(&format!("nonce-rsp {nonce}"));
        Ok(tonic::Response::new(GetPendingNonceResponse {
            inner: nonce,
        }))
    }

    async fn get_upgrades_info(
        self: Arc<Self>,
        _request: tonic::Request<GetUpgradesInfoRequest>,
    ) -> Result<tonic::Response<GetUpgradesInfoResponse>, tonic::Status> {
        Err(tonic::Status::unimplemented("sim"))
    }

    async fn get_validator_name(
        self: Arc<Self>,
        _request: tonic::Request<GetValidatorNameRequest>,
    ) -> Result<tonic::Response<GetValidatorNameResponse>, tonic::Status> {
        Err(tonic::Status::unimplemented("sim"))
    }
}

// ---------------------------------------------------------------------------------------------
// fake sequencer: CometBFT JSON-RPC side (through SimHttpClient)
// ---------------------------------------------------------------------------------------------

fn genesis_json() -> String {
    use sequencer_client::tendermint::{
        self,
        consensus::{
            params::{
                AbciParams,
                ValidatorParams,
            },
            Params,
        },
        Genesis,
        Time,
    };
    let genesis: Genesis<serde_json::Value> = Genesis {
        genesis_time: Time::from_unix_timestamp(1, 1).unwrap(),
        chain_id: CHAIN_ID.try_into().unwrap(),
        initial_height: 1,
        consensus_params: Params {
            block: tendermint::block::Size {
                max_bytes: 1024,
                max_gas: 1024,
                time_iota_ms: 1000,
            },
            evidence: tendermint::evidence::Params {
                max_age_num_blocks: 1000,
                max_age_duration: tendermint::evidence::Duration(Duration::from_secs(3600)),
                max_bytes: 1_048_576,
            },
            validator: ValidatorParams {
                pub_key_types: vec![tendermint::public_key::Algorithm::Ed25519],
            },
            version: None,
            abci: AbciParams::default(),
        },
        validators: vec![],
        app_hash: tendermint::hash::AppHash::default(),
        app_state: serde_json::Value::Null,
    };
    let wrapper = rpc::response::Wrapper::new_with_id(
        rpc::Id::Num(1),
        Some(rpc::endpoint::genesis::Response::<serde_json::Value> {
            genesis,
        }),
        None,
    );
    serde_json::to_string(&wrapper).unwrap()
}

fn tx_sync_json(code: u32, log: &str) -> String {
    let wrapper = rpc::response::Wrapper::new_with_id(
        rpc::Id::Num(1),
        Some(tx_sync::Response {
            code: code.into(),
            data: vec![].into(),
            log: log.to_string(),
            hash: sequencer_client::tendermint::Hash::Sha256([0; 32]),
            codespace: String::new(),
        }),
        None,
    );
    serde_json::to_string(&wrapper).unwrap()
}

async fn handle_jsonrpc(sh: Sh, request: String) -> Result<String, rpc::Error> {
    let value: serde_json::Value =
        serde_json::from_str(&request).map_err(|e| rpc::Error::client_internal(e.to_string()))?;
    // the request id is a random UUID: never looked at, never logged
    match value.get("method").and_then(|m| m.as_str()) {
        Some("genesis") => {
            let fail = {
                let mut g = sh.lock().unwrap();
                let k = g.genesis_seq;
                g.genesis_seq += 1;
                let fail = k < usize::from(g.cfg.genesis_errors);
                g.ev(&format!("genesis-req k={k} fail={fail}"));
                if fail {
                    g.stats.fault("genesis_error");
                }
                fail
            };
            tokio::time::sleep(Duration::from_millis(1)).await;
            if fail {
                Err(rpc::Error::server("sim: connection refused".to_string()))
            } else {
                Ok(genesis_json())
            }
        }
        Some("broadcast_tx_sync") => handle_broadcast(sh, &request).await,
        other => Err(rpc::Error::client_internal(format!("sim: unsupported method {other:?}"))),
    }
}

async fn handle_broadcast(sh: Sh, request: &str) -> Result<String, rpc::Error> {
    let wrapped: rpc::request::Wrapper<tx_sync::Request> =
        serde_json::from_str(request).map_err(|e| rpc::Error::client_internal(e.to_string()))?;
    let tx_bytes = wrapped.params().tx.clone();
    let (k, plan) = {
        let mut g = sh.lock().unwrap();
        let k = g.bcast_seq;
        g.bcast_seq += 1;
        let plan = if g.faults_on {
            g.cfg.bcast_plan[k % g.cfg.bcast_plan.len()]
        } else {
            BcastPlan {
                latency_ms: CALM_LATENCY_MS,
                outcome: BcastOutcome::Process,
            }
        };
        g.ev(&format!("bcast-req k={k} latency={} plan={:?}", plan.latency_ms, plan.outcome));
        (k, plan)
    };
    tokio::time::sleep(Duration::from_millis(plan.latency_ms)).await;
    let mut g = sh.lock().unwrap();
    g.step += 1;
    if plan.latency_ms > g.cfg.block_time_ms {
        g.stats.fault("latency_over_block_time");
    }
    let faults_on = g.faults_on;
    if plan.outcome == BcastOutcome::TransportError
        && faults_on
        && g.consecutive_bcast_errors < MAX_CONSECUTIVE_ERRORS
    {
        g.consecutive_bcast_errors += 1;
        g.stats.fault("bcast_transport_error");
        g.ev(&format!("bcast-rsp k={k} transport-error"));
        return Err(rpc::Error::server("sim: connection reset by peer".to_string()));
    }
    g.consecutive_bcast_errors = 0;
    g.broadcasts_processed += 1;
    if g.tx_cache.iter().any(|c| c.as_slice() == &tx_bytes[..]) {
        g.stats.fault("tx_already_in_cache");
        g.ev(&format!("bcast-rsp k={k} tx-already-in-cache"));
        return Err(rpc::Error::server("tx already exists in cache".to_string()));
    }

    // decode and verify what arrived
    let tx = RawTransaction::decode(&*tx_bytes)
        .map_err(|e| e.to_string())
        .and_then(|raw| Transaction::try_from_raw(raw).map_err(|e| e.to_string()));
    let tx = match tx {
        Ok(tx) => tx,
        Err(e) => {
            g.violation(
                "malformed-broadcast",
                "decode-or-signature",
                format!("broadcast {k} is not a valid signed sequencer transaction: {e}"),
            );
            return Ok(tx_sync_json(1, "sim: malformed"));
        }
    };
    if tx.chain_id() != CHAIN_ID || tx.address_bytes() != &g.signer {
        g.violation(
            "malformed-broadcast",
            "chain-id-or-signer",
            format!("broadcast {k}: chain id {:?}", tx.chain_id()),
        );
    }
    let mut keys = Vec::new();
    let mut sizes = Vec::new();
    let mut foreign = 0usize;
    for action in tx.actions() {
        match action.as_rollup_data_submission() {
            Some(a) => {
                keys.push(txs::key_of(a));
                sizes.push(txs::wire_size(a));
            }
            None => foreign += 1,
        }
    }
    let total: usize = sizes.iter().sum();
    let desc = format!(
        "nonce={} n={} size={total} [{}]",
        tx.nonce(),
        keys.len(),
        keys.iter().map(TxKey::short).collect::<Vec<_>>().join(",")
    );
    if foreign > 0 {
        g.violation("foreign-action", "broadcast", format!("broadcast {k}: {foreign} foreign actions"));
    }
    if keys.is_empty() {
        g.violation("empty-bundle", "broadcast", format!("broadcast {k} carries no rollup transaction"));
    }
    if total > g.cfg.max_bytes {
        let max = g.cfg.max_bytes;
        g.violation(
            "size-bound",
            "broadcast",
            format!("broadcast {k}: bundle of {} txs encodes to {total} > max {max}", keys.len()),
        );
    }

    // the sequencer's answer
    let expected = g.nonce;
    if tx.nonce() < expected {
        let (code, name) = if g.stale_code_taken {
            (AbciErrorCode::NONCE_TAKEN.value().get(), "nonce_taken")
        } else {
            (AbciErrorCode::INVALID_NONCE.value().get(), "invalid_nonce")
        };
        g.stats.fault(name);
        g.ev(&format!("bcast-rsp k={k} {name} expected={expected} {desc}"));
        g.trace.abs(name);
        g.stale_bundle = Some(keys);
        return Ok(tx_sync_json(code, name));
    }
    if tx.nonce() > expected {
        // a real sequencer parks it: answered OK but never executed before the gap closes
        g.stats.probe("B.parked_future_nonce");
        g.ev(&format!("bcast-rsp k={k} parked expected={expected} {desc}"));
        return Ok(tx_sync_json(0, ""));
    }
    if let Some(prev) = g.stale_bundle.take() {
        if prev == keys {
            g.stats.probe("B.resubmitted_same_bundle_under_new_nonce");
        } else {
            g.stats.probe("B.bundle_changed_after_nonce_error");
        }
    }
    let rejected = plan.outcome == BcastOutcome::RejectOther && faults_on;
    if rejected {
        // definitive non-nonce rejection: the composer can do nothing about it, the bundle counts
        // as emitted (it must still never come back)
        g.stats.fault("bcast_reject_other");
        g.ev(&format!("bcast-rsp k={k} rejected-other {desc}"));
    } else {
        g.nonce += 1;
        g.ev(&format!("bcast-rsp k={k} accepted {desc}"));
    }
    record_emission(&mut g, &keys, &sizes, total);
    if plan.outcome == BcastOutcome::AcceptLoseResponse && faults_on {
        g.tx_cache.push(tx_bytes.to_vec());
        g.stats.fault("accepted_response_lost");
        g.ev(&format!("bcast-rsp k={k} response lost"));
        return Err(rpc::Error::server("sim: connection reset before the response".to_string()));
    }
    if rejected {
        Ok(tx_sync_json(AbciErrorCode::INSUFFICIENT_FUNDS.value().get(), "sim: insufficient funds"))
    } else {
        Ok(tx_sync_json(0, ""))
    }
}

/// Incremental part of the history oracle: the concatenation of all definitively emitted bundles
/// must be a subsequence of the transactions handed to the executor, in the order they were handed
/// over (exactly once, order across and inside bundles).
fn record_emission(g: &mut Shared, keys: &[TxKey], sizes: &[usize], total: usize) {
    for key in keys {
        let from = g.cursor;
        if let Some(off) = g.sent[from..].iter().position(|s| &s.key == key) {
            let at = from + off;
            g.sent[at].emitted = true;
            g.cursor = at + 1;
            continue;
        }
        let (sig, detail) = match g.sent[..from].iter().find(|s| &s.key == key) {
            Some(s) if s.emitted => ("emitted-twice", "was already emitted"),
            Some(_) => ("out-of-order", "was handed over before transactions that are already emitted"),
            None => ("unknown-tx-emitted", "was never handed to the executor"),
        };
        g.violation(
            "exactly-once-order",
            sig,
            format!("emitted transaction {} {detail}", key.short()),
        );
        return;
    }
    let after_shutdown = g.shutdown_fired;
    g.sink.lock().unwrap().bundles_emitted += 1;
    g.emitted_bundles.push(EmittedBundle {
        total,
        first_size: sizes.first().copied().unwrap_or(0),
        after_shutdown,
    });
    let n = keys.len().min(9);
    g.trace.abs(&format!("emit|n{n}|s{}", u8::from(after_shutdown)));
}

// ---------------------------------------------------------------------------------------------
// run
// ---------------------------------------------------------------------------------------------

fn metrics() -> &'static Metrics {
    thread_local! {
        static METRICS: std::cell::OnceCell<&'static Metrics> = const { std::cell::OnceCell::new() };
    }
    METRICS.with(|m| {
        *m.get_or_init(|| {
            let rollups = (0u8..4)
                .map(|k| format!("{}::ws://sim-rollup-{k}:8546", txs::rollup_name(k)))
                .collect::<Vec<_>>()
                .join(",");
            let cfg = crate::Config {
                log: "off".into(),
                api_listen_addr: "127.0.0.1:0".parse().unwrap(),
                sequencer_abci_endpoint: ABCI_URL.into(),
                sequencer_grpc_endpoint: GRPC_URL.into(),
                sequencer_chain_id: CHAIN_ID.into(),
                rollups,
                private_key_file: String::new(),
                sequencer_address_prefix: "astria".into(),
                block_time_ms: 1000,
                max_bytes_per_bundle: 1000,
                bundle_queue_capacity: 1,
                force_stdout: false,
                no_otel: true,
                no_metrics: true,
                metrics_http_listener_addr: String::new(),
                grpc_addr: "127.0.0.1:0".parse().unwrap(),
                fee_asset: "nria".parse().unwrap(),
            };
            Box::leak(Box::new(Metrics::noop_metrics(&cfg).expect("noop metrics")))
        })
    })
}

pub(crate) fn run(s: &Scenario) -> Outcome {
    let sink = Arc::new(Mutex::new(LogSink::default()));
    let _log_guard = tracing::subscriber::set_default(Capture {
        sink: sink.clone(),
    });
    sequencer_client::verif::clear();
    let rt = tokio::runtime::Builder::new_current_thread()
        .enable_all()
        .start_paused(true)
        .build()
        .expect("runtime");
    let outcome = rt.block_on(simulate(s, sink));
    drop(rt);
    sequencer_client::verif::clear();
    outcome
}

async fn simulate(s: &Scenario, sink: Arc<Mutex<LogSink>>) -> Outcome {
    let cfg = s.cfg.clone();
    let start = Instant::now();
    let key_bytes = [0x42u8; 32];
    let signing_key = SigningKey::from(key_bytes);
    let signer = *signing_key.verification_key().address_bytes();
    let sh: Sh = Arc::new(Mutex::new(Shared {
        trace: Trace::new(),
        stats: Stats::default(),
        viol: Violations::default(),
        cfg: cfg.clone(),
        start,
        step: 0,
        signer,
        nonce: cfg.start_nonce,
        faults_on: true,
        stale_code_taken: false,
        bcast_seq: 0,
        nonce_seq: 0,
        genesis_seq: 0,
        consecutive_bcast_errors: 0,
        consecutive_nonce_errors: 0,
        sent: Vec::new(),
        cursor: 0,
        emitted_bundles: Vec::new(),
        stale_bundle: None,
        shutdown_fired: false,
        broadcasts_processed: 0,
        sink: sink.clone(),
        tx_cache: Vec::new(),
    }));
    sh.lock().unwrap().ev(&format!(
        "cfg max={} cap={} block={}ms chan={} send_timeout={}ms shutdown_at={}ms nonce0={}",
        cfg.max_bytes,
        cfg.capacity,
        cfg.block_time_ms,
        cfg.chan_capacity,
        cfg.send_timeout_ms,
        cfg.shutdown_at_ms,
        cfg.start_nonce
    ));

    // CometBFT JSON-RPC fake behind SimHttpClient
    {
        let sh = sh.clone();
        sequencer_client::verif::register(
            ABCI_URL,
            Arc::new(move |req: String| {
                let sh = sh.clone();
                Box::pin(handle_jsonrpc(sh, req)) as sequencer_client::verif::HandlerFuture
            }),
        );
    }
    // gRPC fake behind an in-memory channel
    let (conn_tx, conn_rx) = mpsc::unbounded_channel();
    let server = tokio::spawn(
        tonic::transport::Server::builder()
            .add_service(SequencerServiceServer::new(FakeGrpc {
                sh: sh.clone(),
            }))
            .serve_with_incoming(tokio_stream::wrappers::UnboundedReceiverStream::new(conn_rx)),
    );
    let channel = tonic::transport::Endpoint::from_static(GRPC_URL).connect_with_connector_lazy(
        MemConnector {
            to_server: conn_tx,
        },
    );

    // the executor, field by field (what `Builder::build` would assemble)
    let (tx_chan, rx_chan) = mpsc::channel(cfg.chan_capacity.max(1));
    let (status, _) = watch::channel(Status::new());
    let shutdown_token = CancellationToken::new();
    let address = Address::builder()
        .prefix("astria")
        .array(signer)
        .try_build()
        .expect("address");
    let executor = Executor {
        status,
        serialized_rollup_transactions: rx_chan,
        abci_client: sequencer_client::HttpClient::new(ABCI_URL).expect("sim http client"),
        grpc_client: SequencerServiceClient::new(channel),
        sequencer_chain_id: CHAIN_ID.to_string(),
        sequencer_key: signing_key,
        address,
        block_time: Duration::from_millis(cfg.block_time_ms),
        max_bytes_per_bundle: cfg.max_bytes,
        bundle_queue_capacity: cfg.capacity,
        shutdown_token: shutdown_token.clone(),
        metrics: metrics(),
    };
    let handle = Handle::new(tx_chan);
    let mut status_rx = executor.subscribe();
    let mut exec_task = tokio::spawn(executor.run_until_stopped());

    // wait until the executor is initialised: only then is every transaction that enters the
    // channel certain to be pulled by the executor (before, a shutdown returns without draining)
    // (the `Ref` returned by `wait_for` holds the watch's read lock: drop it at once)
    let connected = matches!(
        tokio::time::timeout(Duration::from_secs(600), status_rx.wait_for(Status::is_connected))
            .await,
        Ok(Ok(_))
    );
    let mut exec_result = None;
    if !connected {
        let mut g = sh.lock().unwrap();
        g.violation(
            "executor-init",
            "never-connected",
            "executor did not report is_connected within 600 s of virtual time".into(),
        );
    } else {
        let t0 = Instant::now();
        sh.lock().unwrap().ev("connected");

        // release the ops in virtual-time order; the shutdown signal is one more event
        let mut senders = Vec::new();
        let mut queue: VecDeque<(u64, Option<&Op>)> = VecDeque::new();
        {
            let mut evs: Vec<(u64, usize, Option<&Op>)> = s
                .ops
                .iter()
                .enumerate()
                .map(|(i, op)| (op.at_ms(), i + 1, Some(op)))
                .collect();
            // the shutdown goes before ops scheduled for the same millisecond
            evs.push((cfg.shutdown_at_ms, 0, None));
            evs.sort_by_key(|e| (e.0, e.1));
            queue.extend(evs.into_iter().map(|e| (e.0, e.2)));
        }
        while let Some((at, op)) = queue.pop_front() {
            tokio::time::sleep_until(t0 + Duration::from_millis(at)).await;
            match op {
                None => {
                    let mut g = sh.lock().unwrap();
                    g.faults_on = false;
                    g.shutdown_fired = true;
                    g.ev("shutdown");
                    g.trace.abs("shutdown");
                    drop(g);
                    shutdown_token.cancel();
                }
                Some(Op::NonceBump {
                    by,
                    taken,
                    ..
                }) => {
                    let mut g = sh.lock().unwrap();
                    g.nonce = g.nonce.saturating_add(*by);
                    g.stale_code_taken = *taken;
                    g.stats.fault("nonce_bump");
                    let n = g.nonce;
                    g.ev(&format!("nonce-bump +{by} -> {n}"));
                }
                Some(Op::Send {
                    id,
                    rollup,
                    asset,
                    size,
                    ..
                }) => {
                    let spec = TxSpec {
                        id: *id,
                        rollup: *rollup,
                        asset: *asset,
                        data_len: resolve(*size, cfg.max_bytes),
                    };
                    let tx = txs::build(&spec);
                    let key = txs::expected_key(&spec);
                    let size = txs::emitted_size(spec.data_len);
                    let handle = handle.clone();
                    let sh = sh.clone();
                    let timeout = Duration::from_millis(cfg.send_timeout_ms);
                    let id = *id;
                    sh.lock().unwrap().ev(&format!("send#{id} size={size} start"));
                    senders.push(tokio::spawn(async move {
                        let res = handle.send_timeout(tx, timeout).await;
                        let mut g = sh.lock().unwrap();
                        match res {
                            Ok(()) => {
                                g.sent.push(SentTx {
                                    key,
                                    size,
                                    emitted: false,
                                });
                                g.ev(&format!("send#{id} ok"));
                            }
                            Err(mpsc::error::SendTimeoutError::Timeout(_)) => {
                                g.stats.probe("B.send_timed_out_backpressure");
                                g.ev(&format!("send#{id} timeout"));
                                g.trace.abs("send-timeout");
                            }
                            Err(mpsc::error::SendTimeoutError::Closed(_)) => {
                                g.stats.probe("B.send_after_close");
                                g.ev(&format!("send#{id} closed"));
                            }
                        }
                    }));
                }
            }
        }

        // bounded liveness once faults have stopped: the executor must come down
        match tokio::time::timeout(Duration::from_secs(120), &mut exec_task).await {
            Ok(joined) => exec_result = Some(joined),
            Err(_) => {
                let mut g = sh.lock().unwrap();
                g.violation(
                    "executor-liveness",
                    "did-not-stop",
                    "executor still running 120 s (virtual) after the shutdown signal with a \
                     healthy sequencer"
                        .into(),
                );
            }
        }
        for t in senders {
            let _ = tokio::time::timeout(Duration::from_secs(30), t).await;
        }
    }
    exec_task.abort();
    server.abort();
    drop(handle);

    let mut g = sh.lock().unwrap();
    g.ev("executor stopped");
    match &exec_result {
        Some(Ok(Ok(()))) => {}
        Some(Ok(Err(e))) => {
            let msg = format!("executor returned an error: {e:#}");
            g.violation("executor-exit", "error", msg);
        }
        Some(Err(join)) => {
            let msg = format!("executor task failed: {join}");
            g.violation("panic", "executor-task", msg);
        }
        None => {}
    }
    let sink = sink.lock().unwrap();
    final_checks(&mut g, &sink);

    let mut stats = std::mem::take(&mut g.stats);
    stats.steps = s.ops.len() as u64 + g.broadcasts_processed;
    stats.sim_ms = g.now_ms();
    stats.finish(&g.trace);
    Outcome {
        violations: std::mem::take(&mut g.viol.list),
        stats,
        trace_lines: std::mem::take(&mut g.trace.lines),
    }
}

/// End-of-run history checks.
fn final_checks(g: &mut Shared, sink: &LogSink) {
    let max = g.cfg.max_bytes;
    if sink.drain_timed_out {
        g.ev("log: drain timed out");
        g.stats.probe("B.drain_timed_out");
    }
    if sink.drain_failed {
        g.ev("log: drain failed");
    }
    // every transaction handed to the executor is either emitted once or accounted for by a
    // refusal the executor logged; refusals are legitimate only for the two reasons the property
    // names
    let mut missing_over: Vec<usize> = Vec::new();
    let mut missing_fit: Vec<usize> = Vec::new();
    let mut first_fit_missing = None;
    for s in &g.sent {
        if !s.emitted {
            if s.size > max {
                missing_over.push(s.size);
            } else {
                if first_fit_missing.is_none() {
                    first_fit_missing = Some(s.key.short());
                }
                missing_fit.push(s.size);
            }
        }
    }
    let mut logged_over: Vec<usize> = Vec::new();
    let mut logged_full: Vec<usize> = Vec::new();
    let mut full_refusal_seen_at: Vec<usize> = Vec::new();
    for (kind, size, seen) in &sink.refusals {
        match kind {
            RefusalKind::TooLarge => logged_over.push(*size),
            RefusalKind::QueueFull => {
                logged_full.push(*size);
                full_refusal_seen_at.push(*seen);
            }
            RefusalKind::Unknown => {
                g.violation(
                    "refusal-unjustified",
                    "unknown-reason",
                    "executor dropped a transaction for a reason the property does not allow".into(),
                );
            }
        }
    }
    g.ev(&format!(
        "final sent={} emitted={} missing_fit={} missing_over={} logged_full={} logged_over={} bundles={}",
        g.sent.len(),
        g.sent.iter().filter(|s| s.emitted).count(),
        missing_fit.len(),
        missing_over.len(),
        logged_full.len(),
        logged_over.len(),
        g.emitted_bundles.len()
    ));
    g.stats.probe_n("B.txs_handed_over", g.sent.len() as u64);
    g.stats.probe_n("B.txs_emitted", g.sent.iter().filter(|s| s.emitted).count() as u64);
    g.stats.probe_n("B.refused_oversize", logged_over.len() as u64);
    g.stats.probe_n("B.refused_queue_full", logged_full.len() as u64);
    g.stats.probe_n("B.bundles_emitted", g.emitted_bundles.len() as u64);

    for v in [&mut missing_over, &mut missing_fit, &mut logged_over, &mut logged_full] {
        v.sort_unstable();
    }
    if let Some(too_small) = logged_over.iter().find(|s| **s <= max) {
        g.violation(
            "refusal-unjustified",
            "too-large-but-within-max",
            format!("a transaction of size {too_small} was refused as too large, max {max}"),
        );
    }
    let only_if_clean = g.viol.is_empty();
    if only_if_clean && missing_fit != logged_full {
        if missing_fit.len() > logged_full.len() {
            g.violation(
                "missing-without-refusal",
                if g.shutdown_fired && sink.drain_timed_out { "drain-timed-out" } else { "lost" },
                format!(
                    "{} transactions that fit a bundle were handed to the executor but never \
                     reached the sequencer, only {} refusals (queue full) were reported; first \
                     missing: {}",
                    missing_fit.len(),
                    logged_full.len(),
                    first_fit_missing.unwrap_or_default()
                ),
            );
        } else {
            g.violation(
                "refusal-accounting",
                "refused-but-not-missing",
                format!(
                    "refusals logged for sizes {logged_full:?} but the missing transactions have \
                     sizes {missing_fit:?}"
                ),
            );
        }
    }
    if g.viol.is_empty() && missing_over != logged_over {
        g.violation(
            "refusal-accounting",
            "oversize",
            format!(
                "oversize transactions missing: {missing_over:?}, refusals logged: {logged_over:?}"
            ),
        );
    }

    // "refused only when ... the queue of finished bundles is full": when a transaction was refused
    // for that reason, `capacity` finished bundles plus a non-empty bundle under construction were
    // waiting, and since nothing may be lost they all must have reached the sequencer afterwards
    if g.viol.is_empty() && !sink.drain_timed_out {
        let total = g.emitted_bundles.len();
        for seen in &full_refusal_seen_at {
            if total - seen.min(&total) < g.cfg.capacity + 1 {
                let cap = g.cfg.capacity;
                g.violation(
                    "refusal-unjustified",
                    "queue-not-full-by-emission-count",
                    format!(
                        "a transaction was refused because the finished queue (capacity {cap}) was \
                         full, but only {} bundles reached the sequencer afterwards",
                        total - seen.min(&total)
                    ),
                );
                break;
            }
        }
    }

    // non-triviality (inferred from what the sequencer saw): a bundle that left although the next
    // emitted transaction would still have fitted was taken by the timer (or the drain); one that
    // left because the next did not fit went through the finished queue
    let mut preempted = false;
    let mut via_finished = false;
    for w in 0..g.emitted_bundles.len() {
        let b = &g.emitted_bundles[w];
        match g.emitted_bundles.get(w + 1) {
            Some(next) if b.total + next.first_size > max => via_finished = true,
            _ if !b.after_shutdown => preempted = true,
            _ => {}
        }
    }
    if preempted {
        g.stats.probe("B.timer_preempted_current");
    }
    if via_finished {
        g.stats.probe("B.bundle_via_finished_queue");
    }
    if preempted && via_finished && !sink.refusals.is_empty() {
        g.stats.mark_nontrivial(PROP);
    }
}
