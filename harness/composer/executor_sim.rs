//! stub
use serde::{Deserialize, Serialize};
use super::common::Outcome;
#[derive(Serialize, Deserialize, Clone, Debug)]
pub(crate) struct Scenario { pub(crate) ops: Vec<u8> }
pub(crate) fn generate(_tier: &str, _seed: u64) -> Scenario { Scenario { ops: vec![] } }
pub(crate) fn run(_s: &Scenario) -> Outcome { Outcome::default() }
pub(crate) fn simplify(_s: &Scenario) -> Vec<Scenario> { vec![] }
pub(crate) fn summarize(_s: &Scenario) -> serde_json::Value { serde_json::Value::Null }
