//! Rollup transactions used by both layers: construction from a symbolic spec, a hand-written
//! protobuf size formula (the property's "encoded size": the sum of the protobuf encodings of the
//! `RollupDataSubmission` actions of a bundle, as documented for `max_bytes_per_bundle`), and the
//! content key by which emitted transactions are compared with pushed ones.

use astria_core::{
    primitive::v1::{
        asset,
        RollupId,
    },
    protocol::transaction::v1::action::RollupDataSubmission,
    Protobuf as _,
};
use prost::Message as _;
use serde::{
    Deserialize,
    Serialize,
};

/// Fee assets as the collectors would hand them over (the factory converts every one of them to
/// the ibc-prefixed form before sizing and emitting).
pub(crate) const ASSETS: [&str; 4] = [
    "nria",
    "ibc/0123456789abcdef0123456789abcdef0123456789abcdef0123456789abcdef",
    "transfer/channel-0/utia",
    "transfer/channel-1/transfer/channel-22/transfer/channel-333/averyveryverylongbasedenomname",
];

/// Length of `ibc/` + 64 hex digits.
const IBC_DENOM_LEN: usize = 68;
/// `rollup_id` field: tag + len + (tag + len + 32 bytes).
const ROLLUP_ID_FIELD: usize = 36;
/// `fee_asset` field in ibc-prefixed form: tag + len + 68.
const FEE_ASSET_FIELD: usize = 2 + IBC_DENOM_LEN;
/// Encoded size of an emitted transaction with zero-length data.
pub(crate) const MIN_TX_SIZE: usize = ROLLUP_ID_FIELD + FEE_ASSET_FIELD;

#[derive(Serialize, Deserialize, Clone, Copy, Debug, PartialEq, Eq)]
pub(crate) struct TxSpec {
    /// Unique per scenario; embedded in the data when there is room.
    pub(crate) id: u32,
    pub(crate) rollup: u8,
    pub(crate) asset: u8,
    pub(crate) data_len: usize,
}

pub(crate) fn rollup_name(k: u8) -> String {
    format!("r{}", k % 4)
}

pub(crate) fn rollup_id(k: u8) -> RollupId {
    RollupId::from_unhashed_bytes(rollup_name(k))
}

fn varint_len(mut v: usize) -> usize {
    let mut n = 1;
    while v >= 0x80 {
        v >>= 7;
        n += 1;
    }
    n
}

/// Encoded size (hand formula) of the transaction *as emitted* (fee asset ibc-prefixed).
pub(crate) fn emitted_size(data_len: usize) -> usize {
    let data_field = if data_len == 0 {
        0
    } else {
        1 + varint_len(data_len) + data_len
    };
    MIN_TX_SIZE + data_field
}

/// Largest data length whose emitted size is `<= total` (`round_up = false`), or the smallest
/// whose emitted size is `>= total` (`round_up = true`). Not every total is reachable (varint
/// boundaries, 1- and 2-byte data fields do not exist).
pub(crate) fn data_len_for(total: usize, round_up: bool) -> usize {
    if total <= MIN_TX_SIZE {
        return 0;
    }
    let want = total - MIN_TX_SIZE;
    // start a little below the answer and walk up
    let mut n = want.saturating_sub(8);
    if round_up {
        while emitted_size(n) < total {
            n += 1;
        }
        n
    } else {
        let mut best = 0;
        while emitted_size(n) <= total {
            best = n;
            n += 1;
        }
        best
    }
}

pub(crate) fn data_bytes(id: u32, n: usize) -> Vec<u8> {
    let mut v = Vec::with_capacity(n);
    let idb = id.to_le_bytes();
    for i in 0..n {
        if i < 4 {
            v.push(idb[i]);
        } else {
            v.push((id as usize).wrapping_mul(31).wrapping_add(i) as u8);
        }
    }
    v
}

pub(crate) fn build(spec: &TxSpec) -> RollupDataSubmission {
    RollupDataSubmission {
        rollup_id: rollup_id(spec.rollup),
        data: data_bytes(spec.id, spec.data_len).into(),
        fee_asset: ASSETS[spec.asset as usize % ASSETS.len()]
            .parse::<asset::Denom>()
            .expect("harness denoms parse"),
    }
}

/// Content identity of a transaction in emitted form.
#[derive(Clone, Debug, PartialEq, Eq)]
pub(crate) struct TxKey {
    pub(crate) rollup: [u8; 32],
    pub(crate) data: Vec<u8>,
    pub(crate) asset: String,
}

impl TxKey {
    pub(crate) fn short(&self) -> String {
        let id = if self.data.len() >= 4 {
            format!(
                "#{}",
                u32::from_le_bytes([self.data[0], self.data[1], self.data[2], self.data[3]])
            )
        } else {
            "#?".to_string()
        };
        format!("{id}/len{}", self.data.len())
    }
}

/// What the composer must emit for `spec`: same rollup id and data, fee asset in ibc-prefixed
/// form.
pub(crate) fn expected_key(spec: &TxSpec) -> TxKey {
    let denom = ASSETS[spec.asset as usize % ASSETS.len()]
        .parse::<asset::Denom>()
        .expect("harness denoms parse");
    TxKey {
        rollup: *rollup_id(spec.rollup).as_bytes(),
        data: data_bytes(spec.id, spec.data_len),
        asset: denom.to_ibc_prefixed().to_string(),
    }
}

pub(crate) fn key_of(action: &RollupDataSubmission) -> TxKey {
    TxKey {
        rollup: *action.rollup_id.as_bytes(),
        data: action.data.to_vec(),
        asset: action.fee_asset.to_string(),
    }
}

/// Size of the action as it would go on the wire (real prost encoding of the raw message).
pub(crate) fn wire_size(action: &RollupDataSubmission) -> usize {
    action.to_raw().encode_to_vec().len()
}

#[test]
fn verif_size_formula_matches_prost() {
    for n in [0usize, 1, 2, 3, 126, 127, 128, 129, 300, 16383, 16384, 16385, 70000] {
        for a in 0..ASSETS.len() as u8 {
            let spec = TxSpec {
                id: 7,
                rollup: 1,
                asset: a,
                data_len: n,
            };
            let tx = build(&spec);
            let emitted = RollupDataSubmission {
                fee_asset: tx.fee_asset.to_ibc_prefixed().into(),
                ..tx
            };
            assert_eq!(wire_size(&emitted), emitted_size(n), "n={n} asset={a}");
            assert_eq!(key_of(&emitted), expected_key(&spec));
        }
    }
    for total in 90..400usize {
        let d = data_len_for(total, false);
        assert!(emitted_size(d) <= total.max(MIN_TX_SIZE));
        assert!(emitted_size(d + 1) > total || d == 0);
        let u = data_len_for(total, true);
        assert!(emitted_size(u) >= total);
        assert!(u == 0 || emitted_size(u - 1) < total);
    }
}
