//! Layer A (`factory` profile): the real `BundleFactory` under PRNG op sequences.
//!
//! The ops mirror what `Executor::run_until_stopped` does with the factory:
//!   * rollup tx arrives            -> `try_push` (guarded by `!is_full()` in the select loop,
//!     unguarded in the shutdown drain) and the tx is dropped on either error;
//!   * block timer fires            -> `pop_now()`;
//!   * submission slot free         -> `next_finished()` and, if `Some`, `.pop()`; the handle may
//!     also be dropped without popping (select cancellation);
//!   * shutdown                     -> `pop_now()` until it returns an empty bundle.
//!
//! Oracle: a FIFO reference model written from the property text (see `Model`).

use std::collections::VecDeque;

use serde::{
    Deserialize,
    Serialize,
};

use super::{
    common::{
        self,
        Outcome,
        Rng,
        Stats,
        Trace,
        Violations,
    },
    txs::{
        self,
        TxKey,
        TxSpec,
    },
};
use crate::executor::bundle_factory::{
    BundleFactory,
    BundleFactoryError,
    SizedBundle,
};

const PROP: &str = "C16";

// ---------------------------------------------------------------------------------------------
// scenario
// ---------------------------------------------------------------------------------------------

#[derive(Serialize, Deserialize, Clone, Debug)]
pub(crate) struct Config {
    pub(crate) max_bytes: usize,
    pub(crate) capacity: usize,
}

/// Sizes are symbolic so that an op keeps its meaning when earlier ops are deleted: the ones that
/// refer to the space left in the bundle under construction are resolved at run time against the
/// reference model.
#[derive(Serialize, Deserialize, Clone, Copy, Debug, PartialEq, Eq)]
pub(crate) enum SizeSpec {
    /// Zero-length data.
    Min,
    /// Data of exactly this many bytes.
    Data(usize),
    /// Encoded size ≈ permille/1000 of the maximum (rounded down to a reachable size).
    Frac(u16),
    /// Largest encoded size `<= max`.
    ExactMax,
    /// Smallest encoded size `>= max + k`, k >= 1: alone over the maximum.
    MaxPlus(u16),
    /// Fills the bundle under construction exactly (or as nearly as reachable from below).
    FillRemaining,
    /// Smallest encoded size `>= remaining + k`, k >= 1: does not fit any more.
    RemainingPlus(u16),
    /// Largest encoded size `<= remaining - k`.
    RemainingMinus(u16),
}

#[derive(Serialize, Deserialize, Clone, Debug)]
pub(crate) enum Op {
    Push {
        id: u32,
        rollup: u8,
        asset: u8,
        size: SizeSpec,
        /// `true`: the select-loop arm (skipped while `is_full()`); `false`: the drain path.
        guarded: bool,
    },
    /// `next_finished()` and `.pop()` if there is one.
    PopFinished,
    /// `next_finished()` obtained and dropped.
    PeekFinished,
    /// Block timer.
    PopNow,
}

#[derive(Serialize, Deserialize, Clone, Debug)]
pub(crate) struct Scenario {
    pub(crate) cfg: Config,
    pub(crate) ops: Vec<Op>,
}

pub(crate) fn generate(tier: &str, seed: u64) -> Scenario {
    let mut rng = Rng::new(seed ^ 0xFAC7_0000);
    let max_bytes = match rng.weighted(&[2, 3, 3, 10, 10, 6, 3, 1]) {
        0 => *rng.pick(&[1usize, 50, 105]), // nothing fits at all
        1 => *rng.pick(&[106usize, 107, 108, 109, 110]), // only (nearly) empty txs fit
        2 => *rng.pick(&[212usize, 213, 214, 218, 318, 233, 234, 235, 236, 237]),
        3 => rng.range(220, 700) as usize,
        4 => rng.range(700, 3000) as usize,
        5 => rng.range(3000, 20000) as usize,
        6 => *rng.pick(&[16384usize + 106, 16384 + 109, 16384 + 110, 16500, 128 + 109, 127 + 109]),
        _ => rng.range(20000, 70000) as usize,
    };
    let capacity = match rng.weighted(&[1, 8, 6, 4, 3, 1]) {
        0 => 0usize,
        1 => 1,
        2 => 2,
        3 => 3,
        4 => 4,
        _ => rng.range(5, 9) as usize,
    };
    let n_ops = if tier == "thorough" {
        rng.range(10, 500) as usize
    } else {
        rng.range(10, 160) as usize
    };
    // swarm: per-run op mix and size mix
    let w_push = rng.range(30, 95) as u32;
    let w_popf = *rng.pick(&[0u32, 3, 10, 25]);
    let w_peek = *rng.pick(&[0u32, 0, 2, 8]);
    let w_now = *rng.pick(&[0u32, 3, 10, 25]);
    let guarded_pm = *rng.pick(&[0u64, 0, 300, 700, 1000]);
    let n_rollups = rng.range(1, 4) as u8;
    let n_assets = rng.range(1, txs::ASSETS.len() as u64) as u8;
    // weights over the SizeSpec kinds
    let size_w: [u32; 9] = [
        *rng.pick(&[0, 2, 10]),  // Min
        *rng.pick(&[0, 5, 20]),  // Data small
        *rng.pick(&[5, 20, 40]), // Frac small (many per bundle)
        *rng.pick(&[0, 10, 30]), // Frac around half
        *rng.pick(&[0, 5, 15]),  // Frac near max
        *rng.pick(&[0, 3, 10]),  // ExactMax
        *rng.pick(&[0, 3, 10]),  // MaxPlus
        *rng.pick(&[0, 5, 20]),  // FillRemaining / RemainingMinus
        *rng.pick(&[0, 5, 20]),  // RemainingPlus
    ];
    let mut ops = Vec::with_capacity(n_ops);
    let mut next_id = 1u32;
    for _ in 0..n_ops {
        match rng.weighted(&[w_push, w_popf, w_peek, w_now]) {
            0 => {
                let size = match rng.weighted(&size_w) {
                    0 => SizeSpec::Min,
                    1 => SizeSpec::Data(rng.range(0, 40) as usize),
                    2 => SizeSpec::Frac(rng.range(20, 300) as u16),
                    3 => SizeSpec::Frac(rng.range(300, 700) as u16),
                    4 => SizeSpec::Frac(rng.range(700, 1000) as u16),
                    5 => SizeSpec::ExactMax,
                    6 => SizeSpec::MaxPlus(*rng.pick(&[1u16, 1, 1, 2, 3, 50, 5000])),
                    7 => {
                        if rng.chance(2, 3) {
                            SizeSpec::FillRemaining
                        } else {
                            SizeSpec::RemainingMinus(*rng.pick(&[1u16, 2, 3, 10]))
                        }
                    }
                    _ => SizeSpec::RemainingPlus(*rng.pick(&[1u16, 1, 1, 2, 3, 10])),
                };
                ops.push(Op::Push {
                    id: next_id,
                    rollup: rng.below(u64::from(n_rollups)) as u8,
                    asset: rng.below(u64::from(n_assets)) as u8,
                    size,
                    guarded: rng.below(1000) < guarded_pm,
                });
                next_id += 1;
            }
            1 => ops.push(Op::PopFinished),
            2 => ops.push(Op::PeekFinished),
            _ => ops.push(Op::PopNow),
        }
    }
    Scenario {
        cfg: Config {
            max_bytes,
            capacity,
        },
        ops,
    }
}

pub(crate) fn simplify(s: &Scenario) -> Vec<Scenario> {
    let mut out = Vec::new();
    for (i, op) in s.ops.iter().enumerate() {
        if out.len() >= 96 {
            break;
        }
        if let Op::Push {
            id,
            rollup,
            asset,
            size,
            guarded,
        } = op
        {
            if *guarded {
                let mut c = s.clone();
                c.ops[i] = Op::Push {
                    id: *id,
                    rollup: *rollup,
                    asset: *asset,
                    size: *size,
                    guarded: false,
                };
                out.push(c);
            }
            if *rollup != 0 || *asset != 0 {
                let mut c = s.clone();
                c.ops[i] = Op::Push {
                    id: *id,
                    rollup: 0,
                    asset: 0,
                    size: *size,
                    guarded: *guarded,
                };
                out.push(c);
            }
            if *size != SizeSpec::Min {
                let mut c = s.clone();
                c.ops[i] = Op::Push {
                    id: *id,
                    rollup: *rollup,
                    asset: *asset,
                    size: SizeSpec::Min,
                    guarded: *guarded,
                };
                out.push(c);
            }
        }
    }
    out
}

pub(crate) fn summarize(s: &Scenario) -> serde_json::Value {
    let ops: Vec<String> = s
        .ops
        .iter()
        .take(40)
        .map(|op| match op {
            Op::Push {
                id,
                size,
                guarded,
                ..
            } => format!("push#{id}:{size:?}{}", if *guarded { ":g" } else { "" }),
            Op::PopFinished => "popf".to_string(),
            Op::PeekFinished => "peek".to_string(),
            Op::PopNow => "now".to_string(),
        })
        .collect();
    serde_json::json!({"layer": "factory", "max_bytes": s.cfg.max_bytes, "capacity": s.cfg.capacity,
        "n_ops": s.ops.len(), "first_ops": ops})
}

// ---------------------------------------------------------------------------------------------
// reference model (from the property text)
// ---------------------------------------------------------------------------------------------

#[derive(Clone, Debug)]
pub(crate) struct MTx {
    pub(crate) key: TxKey,
    pub(crate) size: usize,
}

/// The bundle FIFO the property talks about: a bundle under construction plus a bounded FIFO of
/// finished bundles. A transaction goes into the bundle under construction while the sum of encoded
/// sizes stays `<= max`; when it does not fit, the bundle under construction moves to the back of
/// the FIFO (if the FIFO has room) and the transaction starts a new bundle. Bundles leave from the
/// front of the FIFO; the timer takes the front of the FIFO or, if that is empty, the bundle under
/// construction.
#[derive(Clone, Debug)]
pub(crate) struct Model {
    pub(crate) max: usize,
    pub(crate) cap: usize,
    pub(crate) cur: Vec<MTx>,
    pub(crate) cur_size: usize,
    pub(crate) finished: VecDeque<Vec<MTx>>,
}

#[derive(Clone, Copy, Debug, PartialEq, Eq)]
pub(crate) enum Verdict {
    /// fits into the bundle under construction
    Fits,
    /// does not fit, FIFO has room: flush then start a new bundle
    Flush,
    /// alone larger than the maximum: must be refused
    Oversize,
    /// does not fit and the FIFO is at capacity: must be refused
    NoRoom,
}

impl Model {
    pub(crate) fn new(max: usize, cap: usize) -> Self {
        Self {
            max,
            cap,
            cur: Vec::new(),
            cur_size: 0,
            finished: VecDeque::new(),
        }
    }

    pub(crate) fn queue_full(&self) -> bool {
        self.finished.len() >= self.cap
    }

    pub(crate) fn remaining(&self) -> usize {
        self.max.saturating_sub(self.cur_size)
    }

    pub(crate) fn verdict(&self, size: usize) -> Verdict {
        if size > self.max {
            Verdict::Oversize
        } else if self.cur_size + size <= self.max {
            Verdict::Fits
        } else if self.queue_full() {
            Verdict::NoRoom
        } else {
            Verdict::Flush
        }
    }

    /// Applies an *accepted* push.
    pub(crate) fn accept(&mut self, tx: MTx) {
        if self.cur_size + tx.size > self.max {
            let full = std::mem::take(&mut self.cur);
            self.finished.push_back(full);
            self.cur_size = 0;
        }
        self.cur_size += tx.size;
        self.cur.push(tx);
    }

    pub(crate) fn pop_finished(&mut self) -> Option<Vec<MTx>> {
        self.finished.pop_front()
    }

    pub(crate) fn pop_now(&mut self) -> Vec<MTx> {
        if let Some(b) = self.finished.pop_front() {
            b
        } else {
            self.cur_size = 0;
            std::mem::take(&mut self.cur)
        }
    }

    pub(crate) fn pending_txs(&self) -> usize {
        self.cur.len() + self.finished.iter().map(Vec::len).sum::<usize>()
    }
}

// ---------------------------------------------------------------------------------------------
// run
// ---------------------------------------------------------------------------------------------

fn resolve(size: SizeSpec, model: &Model) -> usize {
    let max = model.max;
    match size {
        SizeSpec::Min => 0,
        SizeSpec::Data(n) => n,
        SizeSpec::Frac(pm) => txs::data_len_for(max * usize::from(pm) / 1000, false),
        SizeSpec::ExactMax => txs::data_len_for(max, false),
        SizeSpec::MaxPlus(k) => txs::data_len_for(max + usize::from(k), true),
        SizeSpec::FillRemaining => txs::data_len_for(model.remaining(), false),
        SizeSpec::RemainingPlus(k) => txs::data_len_for(model.remaining() + usize::from(k), true),
        SizeSpec::RemainingMinus(k) => {
            txs::data_len_for(model.remaining().saturating_sub(usize::from(k)), false)
        }
    }
}

/// Everything the harness can see of an emitted bundle through the API the executor uses.
pub(crate) struct Seen {
    pub(crate) keys: Vec<TxKey>,
    pub(crate) sizes: Vec<usize>,
    pub(crate) foreign_actions: usize,
    pub(crate) reported_size: usize,
    pub(crate) reported_count: usize,
    pub(crate) is_empty: bool,
}

pub(crate) fn inspect(bundle: &SizedBundle) -> Result<Seen, String> {
    let is_empty = bundle.is_empty();
    let mut seen = Seen {
        keys: Vec::new(),
        sizes: Vec::new(),
        foreign_actions: 0,
        reported_size: bundle.get_size(),
        reported_count: bundle.actions_count(),
        is_empty,
    };
    if is_empty {
        return Ok(seen);
    }
    // the way `SubmitFut` turns a bundle into what goes to the sequencer
    let body = common::catch(|| bundle.to_transaction_body(0, "verif"))?;
    for action in body.actions() {
        match action.as_rollup_data_submission() {
            Some(a) => {
                seen.keys.push(txs::key_of(a));
                seen.sizes.push(txs::wire_size(a));
            }
            None => seen.foreign_actions += 1,
        }
    }
    Ok(seen)
}

struct Run {
    trace: Trace,
    stats: Stats,
    viol: Violations,
    model: Model,
    /// accepted transactions in acceptance order
    accepted: Vec<MTx>,
    /// how many of `accepted` have been emitted so far
    emitted: usize,
    refused: Vec<TxKey>,
    step: u64,
    refusal_since_last_pop: bool,
}

impl Run {
    fn violation(&mut self, oracle: &str, signature: &str, msg: String) {
        self.trace.ev(&format!("VIOLATION {oracle} {signature}"));
        self.viol.push(PROP, oracle, signature, self.step, msg);
    }

    /// Checks one emitted bundle against the flat acceptance list (exactly once, order), the size
    /// bound, the factory's own accounting, and the bundle the model predicts.
    fn check_bundle(&mut self, via: &str, bundle: &SizedBundle, predicted: &[MTx]) {
        let seen = match inspect(bundle) {
            Ok(s) => s,
            Err(p) => {
                self.violation("panic", &format!("to_transaction_body/{via}"), p);
                return;
            }
        };
        self.trace.ev(&format!(
            "emit via={via} n={} size={} [{}]",
            seen.keys.len(),
            seen.reported_size,
            seen.keys.iter().map(TxKey::short).collect::<Vec<_>>().join(",")
        ));
        if seen.foreign_actions > 0 {
            self.violation(
                "foreign-action",
                via,
                format!("{} actions that are not rollup data submissions", seen.foreign_actions),
            );
        }
        // exactly once + order, incrementally
        for (j, key) in seen.keys.iter().enumerate() {
            let at = self.emitted;
            if self.accepted.get(at).map(|t| &t.key) == Some(key) {
                self.emitted += 1;
                continue;
            }
            let sig = if self.accepted[..at.min(self.accepted.len())]
                .iter()
                .any(|t| &t.key == key)
            {
                "emitted-twice"
            } else if self.accepted.iter().skip(at).any(|t| &t.key == key) {
                "out-of-order-or-skipped"
            } else if self.refused.iter().any(|k| k == key) {
                "refused-tx-emitted"
            } else {
                "unknown-tx-emitted"
            };
            let want = self
                .accepted
                .get(at)
                .map(|t| t.key.short())
                .unwrap_or_else(|| "<nothing>".into());
            self.violation(
                "exactly-once-order",
                sig,
                format!(
                    "bundle via {via}: position {j} holds {} but the next accepted transaction \
                     not yet emitted is {want} (accepted #{at} of {})",
                    key.short(),
                    self.accepted.len()
                ),
            );
            return;
        }
        // size bound, harness-computed from the real protobuf encoding of the emitted actions
        let total: usize = seen.sizes.iter().sum();
        if total > self.model.max {
            self.violation(
                "size-bound",
                via,
                format!("bundle of {} txs encodes to {total} > max {}", seen.keys.len(), self.model.max),
            );
        }
        if seen.reported_size != total || seen.reported_count != seen.keys.len() {
            self.violation(
                "size-accounting",
                via,
                format!(
                    "factory reports size {} / count {} but the emitted actions encode to {total} \
                     / {} actions",
                    seen.reported_size,
                    seen.reported_count,
                    seen.keys.len()
                ),
            );
        }
        // bundle boundaries as predicted by the FIFO model (what a refusal must not disturb)
        let same = predicted.len() == seen.keys.len()
            && predicted.iter().zip(&seen.keys).all(|(p, k)| &p.key == k);
        if !same {
            let sig = if self.refusal_since_last_pop {
                format!("{via}/after-refusal")
            } else {
                via.to_string()
            };
            self.violation(
                "bundle-prediction",
                &sig,
                format!(
                    "emitted [{}] but the FIFO model predicts [{}]",
                    seen.keys.iter().map(TxKey::short).collect::<Vec<_>>().join(","),
                    predicted.iter().map(|t| t.key.short()).collect::<Vec<_>>().join(",")
                ),
            );
        }
        self.refusal_since_last_pop = false;
    }

    fn abs(&mut self, what: &str) {
        let line = format!(
            "{what}|f{}|c{}|r{}",
            self.model.finished.len(),
            self.model.cur.len().min(9),
            // how full the bundle under construction is, in eighths
            if self.model.max == 0 { 0 } else { self.model.cur_size * 8 / self.model.max.max(1) }
        );
        self.trace.abs(&line);
    }
}

pub(crate) fn run(s: &Scenario) -> Outcome {
    let mut r = Run {
        trace: Trace::new(),
        stats: Stats::default(),
        viol: Violations::default(),
        model: Model::new(s.cfg.max_bytes, s.cfg.capacity),
        accepted: Vec::new(),
        emitted: 0,
        refused: Vec::new(),
        step: 0,
        refusal_since_last_pop: false,
    };
    r.trace.ev(&format!("cfg max={} cap={}", s.cfg.max_bytes, s.cfg.capacity));
    let mut factory = BundleFactory::new(s.cfg.max_bytes, s.cfg.capacity);
    let mut preempt_nonempty = 0u64;
    let mut finished_pops = 0u64;
    let mut refusals = 0u64;

    'ops: for (i, op) in s.ops.iter().enumerate() {
        r.step = i as u64;
        match op {
            Op::Push {
                id,
                rollup,
                asset,
                size,
                guarded,
            } => {
                if *guarded && factory.is_full() {
                    // the select loop does not pull from the channel while the factory is full
                    r.trace.ev(&format!("push#{id} deferred: is_full"));
                    r.stats.probe("A.push_deferred_is_full");
                    r.abs("defer");
                } else {
                    let spec = TxSpec {
                        id: *id,
                        rollup: *rollup,
                        asset: *asset,
                        data_len: resolve(*size, &r.model),
                    };
                    let tx = txs::build(&spec);
                    let key = txs::expected_key(&spec);
                    let size = txs::emitted_size(spec.data_len);
                    let verdict = r.model.verdict(size);
                    let res = common::catch(|| factory.try_push(tx));
                    let res = match res {
                        Ok(x) => x,
                        Err(p) => {
                            r.violation("panic", "try_push", p);
                            break 'ops;
                        }
                    };
                    r.trace.ev(&format!(
                        "push#{id} size={size} verdict={verdict:?} -> {}",
                        match &res {
                            Ok(()) => "accepted",
                            Err(BundleFactoryError::SequenceActionTooLarge { .. }) => "refused:too-large",
                            Err(BundleFactoryError::FinishedQueueFull(_)) => "refused:queue-full",
                        }
                    ));
                    match (&res, verdict) {
                        (Ok(()), Verdict::Fits | Verdict::Flush) => {
                            if verdict == Verdict::Flush {
                                r.stats.probe("A.flush_to_finished");
                            }
                            if size == r.model.remaining() {
                                r.stats.probe("A.push_fills_exactly");
                            }
                            let mtx = MTx {
                                key,
                                size,
                            };
                            r.accepted.push(mtx.clone());
                            r.model.accept(mtx);
                            r.abs("acc");
                        }
                        (Ok(()), Verdict::Oversize) => {
                            r.violation(
                                "accepted-oversize",
                                "try_push",
                                format!("tx of encoded size {size} accepted, max {}", s.cfg.max_bytes),
                            );
                            break 'ops;
                        }
                        (Ok(()), Verdict::NoRoom) => {
                            r.violation(
                                "accepted-no-room",
                                "try_push",
                                format!(
                                    "tx of size {size} accepted although it does not fit the bundle \
                                     under construction ({} of {}) and {} finished bundles are \
                                     queued (capacity {})",
                                    r.model.cur_size,
                                    s.cfg.max_bytes,
                                    r.model.finished.len(),
                                    s.cfg.capacity
                                ),
                            );
                            break 'ops;
                        }
                        (Err(e), v) => {
                            refusals += 1;
                            r.refusal_since_last_pop = true;
                            r.refused.push(key);
                            let justified = size > s.cfg.max_bytes || r.model.queue_full();
                            if !justified {
                                let sig = match e {
                                    BundleFactoryError::SequenceActionTooLarge {
                                        ..
                                    } => "too-large-but-within-max",
                                    BundleFactoryError::FinishedQueueFull(_) => "queue-not-full",
                                };
                                r.violation(
                                    "refusal-unjustified",
                                    sig,
                                    format!(
                                        "tx of size {size} refused ({e}); max {} and {} of {} \
                                         finished bundles queued",
                                        s.cfg.max_bytes,
                                        r.model.finished.len(),
                                        s.cfg.capacity
                                    ),
                                );
                                break 'ops;
                            }
                            match v {
                                Verdict::Oversize => r.stats.probe("A.refused_oversize"),
                                Verdict::NoRoom => r.stats.probe("A.refused_queue_full"),
                                // permitted by the property (queue is full) though the tx would
                                // have fitted: not what the FIFO does, so later bundles will differ
                                _ => r.stats.probe("A.refused_queue_full_but_fits"),
                            }
                            r.abs("ref");
                        }
                    }
                }
            }
            Op::PopFinished => {
                let predicted = r.model.pop_finished();
                let got = common::catch(|| factory.next_finished().map(|h| h.pop()));
                let got = match got {
                    Ok(x) => x,
                    Err(p) => {
                        r.violation("panic", "next_finished", p);
                        break 'ops;
                    }
                };
                match (got, predicted) {
                    (None, None) => {
                        r.trace.ev("popf none");
                        r.abs("popf0");
                    }
                    (Some(b), Some(p)) => {
                        finished_pops += 1;
                        r.stats.probe("A.finished_pop");
                        r.check_bundle("next_finished", &b, &p);
                        r.abs("popf");
                    }
                    (Some(b), None) => {
                        r.check_bundle("next_finished", &b, &[]);
                        r.violation(
                            "finished-availability",
                            "some-when-none-expected",
                            "next_finished() returned a bundle although no bundle is finished".into(),
                        );
                    }
                    (None, Some(p)) => {
                        r.violation(
                            "finished-availability",
                            "none-when-some-expected",
                            format!("next_finished() is None although a bundle of {} txs is finished", p.len()),
                        );
                    }
                }
            }
            Op::PeekFinished => {
                let some = factory.next_finished().is_some();
                r.trace.ev(&format!("peek {some}"));
                if some != !r.model.finished.is_empty() {
                    r.violation(
                        "finished-availability",
                        "peek",
                        format!("next_finished().is_some() = {some}, model has {} finished", r.model.finished.len()),
                    );
                }
                r.stats.probe("A.peek_dropped");
                r.abs("peek");
            }
            Op::PopNow => {
                let from_finished = !r.model.finished.is_empty();
                let predicted = r.model.pop_now();
                let got = match common::catch(|| factory.pop_now()) {
                    Ok(x) => x,
                    Err(p) => {
                        r.violation("panic", "pop_now", p);
                        break 'ops;
                    }
                };
                if from_finished {
                    finished_pops += 1;
                    r.stats.probe("A.pop_now_took_finished");
                } else if !predicted.is_empty() {
                    preempt_nonempty += 1;
                    r.stats.probe("A.timer_preempted_current");
                } else {
                    r.stats.probe("A.pop_now_empty");
                }
                r.check_bundle("pop_now", &got, &predicted);
                r.abs("now");
            }
        }
        if !r.viol.is_empty() {
            break;
        }
        // the flag the select loop uses for back-pressure must agree with the FIFO
        let full = factory.is_full();
        if full != r.model.queue_full() {
            r.violation(
                "is-full-flag",
                if full { "full-but-has-room" } else { "not-full-at-capacity" },
                format!(
                    "is_full() = {full} with {} finished bundles, capacity {}",
                    r.model.finished.len(),
                    s.cfg.capacity
                ),
            );
            break;
        }
    }

    // shutdown path: `pop_now()` until an empty bundle comes back
    if r.viol.is_empty() {
        r.step = s.ops.len() as u64;
        let mut rounds = 0usize;
        loop {
            let predicted = r.model.pop_now();
            let got = match common::catch(|| factory.pop_now()) {
                Ok(x) => x,
                Err(p) => {
                    r.violation("panic", "pop_now", p);
                    break;
                }
            };
            let empty = got.is_empty();
            r.check_bundle("drain", &got, &predicted);
            if empty || !r.viol.is_empty() {
                break;
            }
            r.stats.probe("A.drained_bundle");
            rounds += 1;
            if rounds > s.cfg.capacity + s.ops.len() + 4 {
                r.violation("drain-unbounded", "drain", "pop_now() keeps returning bundles".into());
                break;
            }
        }
        if r.viol.is_empty() && r.emitted != r.accepted.len() {
            let lost = r.accepted.len() - r.emitted;
            r.violation(
                "exactly-once-order",
                "missing-after-drain",
                format!(
                    "{lost} accepted transactions were never emitted; first: {}",
                    r.accepted[r.emitted].key.short()
                ),
            );
        }
    }

    r.stats.probe_n("A.txs_accepted", r.accepted.len() as u64);
    r.stats.probe_n("A.txs_refused", refusals);
    if preempt_nonempty > 0 && finished_pops > 0 && refusals > 0 {
        r.stats.mark_nontrivial(PROP);
    }
    r.stats.steps = s.ops.len() as u64;
    r.stats.sim_ms = 0;
    r.stats.finish(&r.trace);
    Outcome {
        violations: r.viol.list,
        stats: r.stats,
        trace_lines: r.trace.lines,
    }
}
