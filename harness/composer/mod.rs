//! E5 `composersim` — deterministic simulation of the composer's bundling path (property C16).
//!
//! Mounted inside `astria_composer::executor` (hook H4) so that it can reach the private
//! `bundle_factory` module, the private fields of `Executor` and `SubmitFut`.
//!
//! Two layers, selected by the job's profile:
//!   * `factory`  — the real `BundleFactory` driven by PRNG op sequences that mirror the three
//!     select arms of `Executor::run_until_stopped`; oracle = FIFO reference model.
//!   * `executor` — the real `Executor::run_until_stopped` (block timer on the paused tokio clock,
//!     real `SubmitFut`, real shutdown drain) against a fake sequencer (in-memory gRPC for the
//!     pending nonce, `SimHttpClient` (hook H6) for CometBFT JSON-RPC).
#![allow(dead_code, unreachable_pub, clippy::all, clippy::pedantic)]

#[path = "/verif/harness/common/mod.rs"]
pub(crate) mod common;

mod executor_sim;
mod factory;
mod txs;

use common::{
    Engine,
    Outcome,
};
use serde::{
    Deserialize,
    Serialize,
};

#[derive(Serialize, Deserialize, Clone)]
pub(crate) enum Scenario {
    Factory(factory::Scenario),
    Executor(executor_sim::Scenario),
}

struct ComposerSim;

impl Engine for ComposerSim {
    type Scenario = Scenario;

    const NAME: &'static str = "composersim";

    fn generate(profile: &str, tier: &str, seed: u64) -> Scenario {
        match profile {
            "factory" => Scenario::Factory(factory::generate(tier, seed)),
            "executor" => Scenario::Executor(executor_sim::generate(tier, seed)),
            // exploration outside the registered fault model, see NOTES.md
            "executor-lostresp" => Scenario::Executor(executor_sim::generate_lostresp(tier, seed)),
            other => panic!("unknown profile {other}"),
        }
    }

    fn run(scenario: &Scenario) -> Outcome {
        match scenario {
            Scenario::Factory(s) => factory::run(s),
            Scenario::Executor(s) => executor_sim::run(s),
        }
    }

    fn len(scenario: &Scenario) -> usize {
        match scenario {
            Scenario::Factory(s) => s.ops.len(),
            Scenario::Executor(s) => s.ops.len(),
        }
    }

    fn retain(scenario: &Scenario, keep: &[bool]) -> Scenario {
        fn filter<T: Clone>(ops: &[T], keep: &[bool]) -> Vec<T> {
            ops.iter()
                .zip(keep)
                .filter(|(_, k)| **k)
                .map(|(o, _)| o.clone())
                .collect()
        }
        match scenario {
            Scenario::Factory(s) => {
                let mut s = s.clone();
                s.ops = filter(&s.ops, keep);
                Scenario::Factory(s)
            }
            Scenario::Executor(s) => {
                let mut s = s.clone();
                s.ops = filter(&s.ops, keep);
                Scenario::Executor(s)
            }
        }
    }

    fn simplify(scenario: &Scenario) -> Vec<Scenario> {
        match scenario {
            Scenario::Factory(s) => factory::simplify(s).into_iter().map(Scenario::Factory).collect(),
            Scenario::Executor(s) => {
                executor_sim::simplify(s).into_iter().map(Scenario::Executor).collect()
            }
        }
    }

    fn summarize(scenario: &Scenario) -> serde_json::Value {
        match scenario {
            Scenario::Factory(s) => factory::summarize(s),
            Scenario::Executor(s) => executor_sim::summarize(s),
        }
    }
}

#[test]
fn verif_main() {
    let Some(job) = common::read_job() else {
        return;
    };
    match job.engine.as_str() {
        "composersim" => common::engine_main::<ComposerSim>(&job),
        other => panic!("unknown engine {other}"),
    }
}
