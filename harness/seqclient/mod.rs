//! Hook H6: `SimHttpClient`, an in-process stand-in for `tendermint_rpc::HttpClient`.
//!
//! Mounted into `astria-sequencer-client` (the *library*, not only its tests) under the cargo
//! feature `verif`:
//!
//! ```ignore
//! #[cfg(feature = "verif")]
//! #[path = "/verif/harness/seqclient/mod.rs"]
//! pub mod verif;
//! #[cfg(all(feature = "http", feature = "verif"))]
//! pub use verif::SimHttpClient as HttpClient;
//! ```
//!
//! With the feature on, every `sequencer_client::HttpClient` in the dependent crates (composer
//! executor, relayer, conductor readers) is a `SimHttpClient`. It implements
//! `tendermint_rpc::Client` by handing the JSON-RPC request text to a handler that a simulator
//! registered for the client's URL on the *current thread*, and parses the handler's JSON-RPC
//! response text exactly the way the real HTTP client parses a response body. No socket is ever
//! opened.
//!
//! Notes for fakes: tendermint-rpc puts a random UUID into the `id` field of every request; a fake
//! must look only at `method` / `params` and must never put the id into an event log. The response
//! id is not compared with the request id by tendermint-rpc's parser.
#![allow(dead_code, unreachable_pub, clippy::all, clippy::pedantic)]

use std::{
    cell::RefCell,
    collections::BTreeMap,
    future::Future,
    pin::Pin,
    sync::Arc,
};

use tendermint_rpc::{
    Error,
    HttpClientUrl,
    Response as _,
    SimpleRequest,
};

/// The future a handler returns: the JSON-RPC response text, or a transport-level error.
pub type HandlerFuture = Pin<Box<dyn Future<Output = Result<String, Error>> + Send>>;

/// A simulated JSON-RPC endpoint: gets the request text (JSON-RPC envelope included).
pub type Handler = Arc<dyn Fn(String) -> HandlerFuture + Send + Sync>;

thread_local! {
    static ENDPOINTS: RefCell<BTreeMap<String, Handler>> = const { RefCell::new(BTreeMap::new()) };
}

/// `http://host:1` and `http://host:1/` name the same endpoint.
pub fn normalise(url: &str) -> String {
    match url.parse::<HttpClientUrl>() {
        Ok(u) => tendermint_rpc::Url::from(u).to_string(),
        Err(_) => url.to_string(),
    }
}

/// Registers (or replaces) the handler that answers for `url` on the current thread.
pub fn register(url: &str, handler: Handler) {
    let key = normalise(url);
    ENDPOINTS.with(|e| {
        e.borrow_mut().insert(key, handler);
    });
}

pub fn unregister(url: &str) {
    let key = normalise(url);
    ENDPOINTS.with(|e| {
        e.borrow_mut().remove(&key);
    });
}

/// Removes every handler of the current thread (call at the start and end of a simulated run).
pub fn clear() {
    ENDPOINTS.with(|e| e.borrow_mut().clear());
}

fn lookup(url: &str) -> Option<Handler> {
    ENDPOINTS.with(|e| e.borrow().get(url).cloned())
}

/// Source compatible with the way the astria crates construct and use `tendermint_rpc::HttpClient`
/// (`HttpClient::new(&str)`, `Clone`, `Client` methods, `SequencerClientExt`,
/// `StreamLatestHeight`).
#[derive(Clone, Debug)]
pub struct SimHttpClient {
    url: String,
}

impl SimHttpClient {
    pub fn new<U>(url: U) -> Result<Self, Error>
    where
        U: TryInto<HttpClientUrl, Error = Error>,
    {
        let url: HttpClientUrl = url.try_into()?;
        Ok(Self {
            url: tendermint_rpc::Url::from(url).to_string(),
        })
    }

    pub fn url(&self) -> &str {
        &self.url
    }
}

#[async_trait::async_trait]
impl tendermint_rpc::Client for SimHttpClient {
    async fn perform<R>(&self, request: R) -> Result<R::Output, Error>
    where
        R: SimpleRequest,
    {
        // the handler is resolved at call time on the calling thread, so a simulator may register
        // its fake after the code under test constructed the client
        let Some(handler) = lookup(&self.url) else {
            return Err(Error::client_internal(format!(
                "no simulated endpoint registered for `{}`",
                self.url
            )));
        };
        let request_text = request.into_json();
        let response_text = handler(request_text).await?;
        R::Response::from_string(response_text).map(Into::into)
    }
}

#[cfg(feature = "http")]
impl crate::extension_trait::SequencerClientExt for SimHttpClient {}
