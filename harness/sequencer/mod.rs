//! Harness mounted into `astria-sequencer` as `crate::verif` (cfg(all(test, feature = "verif"))).
#![allow(dead_code, unused_imports, unused_variables, unused_mut, clippy::all, clippy::pedantic, clippy::restriction)]

#[path = "/verif/harness/common/mod.rs"]
pub(crate) mod common;

#[path = "/verif/harness/sequencer/chainsim/mod.rs"]
pub(crate) mod chainsim;

#[path = "/verif/harness/sequencer/mempoolsim/mod.rs"]
pub(crate) mod mempoolsim;

#[test]
fn verif_main() {
    let Some(job) = common::read_job() else {
        return;
    };
    match job.engine.as_str() {
        "chainsim" => common::engine_main::<chainsim::ChainSim>(&job),
        "mempoolsim" => common::engine_main::<mempoolsim::MempoolSim>(&job),
        other => panic!("unknown engine {other}"),
    }
}
