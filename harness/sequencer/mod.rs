//! Harness mounted into `astria-sequencer` as `crate::verif` (cfg(all(test, feature = "verif"))).
#![allow(dead_code, unused_imports, unused_variables, unused_mut, clippy::all, clippy::pedantic, clippy::restriction)]

#[path = "/verif/harness/common/mod.rs"]
pub(crate) mod common;

#[path = "/verif/harness/sequencer/chainsim/mod.rs"]
pub(crate) mod chainsim;

#[test]
fn verif_main() {
    let Some(job) = common::read_job() else {
        return;
    };
    match job.engine.as_str() {
        "chainsim" => common::engine_main::<chainsim::ChainSim>(&job),
        other => panic!("unknown engine {other}"),
    }
}
