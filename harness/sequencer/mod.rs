//! Harness mounted into `astria-sequencer` as `crate::verif` (cfg(all(test, feature = "verif"))).
#![allow(dead_code, unused_imports, clippy::all, clippy::pedantic, clippy::restriction)]

#[path = "/verif/harness/common/mod.rs"]
pub(crate) mod common;

#[test]
fn verif_main() {
    let Some(job) = common::read_job() else {
        return;
    };
    match job.engine.as_str() {
        other => panic!("unknown engine {other}"),
    }
}
