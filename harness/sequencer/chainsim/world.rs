//! The simulated world of E1: keys, assets, genesis, sequencer nodes (real `App` + real `Mempool`
//! + real cnidarium storage) and the ABCI request constructors used by the model CometBFT.

use std::{
    collections::BTreeMap,
    sync::OnceLock,
};

use astria_core::{
    crypto::{
        SigningKey,
        VerificationKey,
    },
    generated::astria::protocol::genesis::v1::{
        Account as RawAccount,
        AddressPrefixes as RawAddressPrefixes,
        GenesisAppState as RawGenesisAppState,
        IbcParameters as RawIbcParameters,
    },
    primitive::v1::{
        asset::{
            Denom,
            IbcPrefixed,
        },
        Address,
        RollupId,
    },
    protocol::{
        fees::v1::FeeComponents,
        genesis::v1::{
            GenesisAppState,
            GenesisFees,
        },
        transaction::v1::action::ValidatorUpdate,
    },
    upgrades::test_utils::UpgradesBuilder,
    Protobuf as _,
};
use bytes::Bytes;
use cnidarium::{
    StateDelta,
    StateRead as _,
    Storage,
    TempStorage,
};
use futures::TryStreamExt as _;
use sha2::Digest as _;
use telemetry::Metrics as _;
use tendermint::{
    abci,
    abci::types::{
        CommitInfo,
        ExtendedCommitInfo,
    },
    account,
    block::Height,
    Hash,
    Time,
};

use super::{
    super::common::Rng,
    Config,
};
use crate::{
    accounts::StateWriteExt as _,
    app::{
        vote_extension::Handler as VeHandler,
        App,
    },
    mempool::Mempool,
    test_utils::astria_address,
    Metrics,
};

pub(crate) const CHAIN_ID: &str = "test";
pub(crate) const GENESIS_UNIX: i64 = 1_744_036_762;

pub(crate) type Addr = [u8; 20];
pub(crate) type AssetId = [u8; 32];

pub(crate) fn metrics() -> &'static Metrics {
    static M: OnceLock<&'static Metrics> = OnceLock::new();
    M.get_or_init(|| Box::leak(Box::new(Metrics::noop_metrics(&()).unwrap())))
}

/// The fixed asset universe of a run. Index 0 is the native asset.
pub(crate) fn asset_denoms() -> Vec<Denom> {
    vec![
        "nria".parse().unwrap(),
        "asset-one".parse().unwrap(),
        // a foreign asset that arrived over channel-0 (sink zone: burned on withdrawal over
        // channel-0, escrowed on withdrawal over channel-1)
        "transfer/channel-0/utia".parse().unwrap(),
        "asset-three".parse().unwrap(),
    ]
}

pub(crate) fn denom(i: u8) -> Denom {
    let d = asset_denoms();
    d[i as usize % d.len()].clone()
}

pub(crate) fn asset_id(d: &Denom) -> AssetId {
    *d.to_ibc_prefixed().as_bytes()
}

pub(crate) fn rollup_id(i: u8) -> RollupId {
    RollupId::new([i.wrapping_add(1); 32])
}

pub(crate) struct Keys {
    pub(crate) keys: Vec<SigningKey>,
    pub(crate) addrs: Vec<Addr>,
    /// Validator keys are separate from account keys.
    pub(crate) vkeys: Vec<SigningKey>,
}

impl Keys {
    pub(crate) fn new(seed: u64, n: usize, nv: usize) -> Self {
        let mut rng = Rng::new(seed ^ 0x6b65_7973);
        // one more key than accounts: index n is a "stranger" that never had funds
        let keys: Vec<SigningKey> = (0..=n).map(|_| SigningKey::from(rng.array32())).collect();
        let addrs = keys.iter().map(SigningKey::address_bytes).collect();
        let vkeys = (0..nv).map(|_| SigningKey::from(rng.array32())).collect();
        Self {
            keys,
            addrs,
            vkeys,
        }
    }

    pub(crate) fn address(&self, i: u8) -> Address {
        astria_address(&self.addrs[i as usize % self.addrs.len()])
    }

    pub(crate) fn addr(&self, i: u8) -> Addr {
        self.addrs[i as usize % self.addrs.len()]
    }

    pub(crate) fn key(&self, i: u8) -> &SigningKey {
        &self.keys[i as usize % self.keys.len()]
    }

    pub(crate) fn index_of(&self, a: &Addr) -> Option<u8> {
        self.addrs.iter().position(|x| x == a).map(|i| i as u8)
    }

    pub(crate) fn vkey(&self, i: u8) -> &SigningKey {
        &self.vkeys[i as usize % self.vkeys.len()]
    }

    pub(crate) fn vkey_by_addr(&self, a: &Addr) -> Option<&SigningKey> {
        self.vkeys.iter().find(|k| k.address_bytes() == *a)
    }
}

pub(crate) const ACTION_NAMES: [&str; 18] = [
    "RollupDataSubmission",
    "Transfer",
    "Ics20Withdrawal",
    "InitBridgeAccount",
    "BridgeLock",
    "BridgeUnlock",
    "BridgeTransfer",
    "BridgeSudoChange",
    "IbcRelay",
    "ValidatorUpdate",
    "FeeAssetChange",
    "FeeChange",
    "IbcRelayerChange",
    "SudoAddressChange",
    "IbcSudoChange",
    "RecoverIbcClient",
    "CurrencyPairsChange",
    "MarketsChange",
];

pub(crate) fn fee_table(variant: u8) -> BTreeMap<&'static str, Option<(u128, u128)>> {
    let mut m = BTreeMap::new();
    for (i, n) in ACTION_NAMES.iter().enumerate() {
        let i = i as u128;
        let v = match variant {
            0 => Some((i + 1, 1001 + i)),
            1 => Some((0, 0)),
            2 => Some((1_000_000 + i, 7)),
            _ => Some((i, 1)),
        };
        m.insert(*n, v);
    }
    if variant == 3 {
        // some actions disabled at genesis
        m.insert("BridgeTransfer", None);
        m.insert("RecoverIbcClient", None);
    }
    m
}

fn fc<T>(v: Option<(u128, u128)>) -> Option<FeeComponents<T>> {
    v.map(|(b, m)| FeeComponents::new(b, m))
}

pub(crate) fn genesis_fees(variant: u8) -> GenesisFees {
    let t = fee_table(variant);
    GenesisFees {
        rollup_data_submission: fc(t["RollupDataSubmission"]),
        transfer: fc(t["Transfer"]),
        ics20_withdrawal: fc(t["Ics20Withdrawal"]),
        init_bridge_account: fc(t["InitBridgeAccount"]),
        bridge_lock: fc(t["BridgeLock"]),
        bridge_unlock: fc(t["BridgeUnlock"]),
        bridge_transfer: fc(t["BridgeTransfer"]),
        bridge_sudo_change: fc(t["BridgeSudoChange"]),
        ibc_relay: fc(t["IbcRelay"]),
        validator_update: fc(t["ValidatorUpdate"]),
        fee_asset_change: fc(t["FeeAssetChange"]),
        fee_change: fc(t["FeeChange"]).unwrap_or(FeeComponents::new(0, 0)),
        ibc_relayer_change: fc(t["IbcRelayerChange"]),
        sudo_address_change: fc(t["SudoAddressChange"]),
        ibc_sudo_change: fc(t["IbcSudoChange"]),
        recover_ibc_client: fc(t["RecoverIbcClient"]),
        currency_pairs_change: fc(t["CurrencyPairsChange"]),
        markets_change: fc(t["MarketsChange"]),
    }
}

pub(crate) fn genesis_state(cfg: &Config, keys: &Keys) -> GenesisAppState {
    let denoms = asset_denoms();
    let accounts = cfg
        .balances
        .iter()
        .enumerate()
        .filter(|(_, b)| **b > 0)
        .map(|(i, b)| RawAccount {
            address: Some(keys.address(i as u8).to_raw()),
            balance: Some((*b).into()),
        })
        .collect();
    let raw = RawGenesisAppState {
        chain_id: CHAIN_ID.to_string(),
        address_prefixes: Some(RawAddressPrefixes {
            base: crate::test_utils::ASTRIA_PREFIX.into(),
            ibc_compat: crate::test_utils::ASTRIA_COMPAT_PREFIX.into(),
        }),
        accounts,
        authority_sudo_address: Some(keys.address(cfg.sudo).to_raw()),
        ibc_sudo_address: Some(keys.address(cfg.ibc_sudo).to_raw()),
        ibc_relayer_addresses: cfg.relayers.iter().map(|k| keys.address(*k).to_raw()).collect(),
        native_asset_base_denomination: denoms[0].to_string(),
        ibc_parameters: Some(RawIbcParameters {
            ibc_enabled: true,
            inbound_ics20_transfers_enabled: true,
            outbound_ics20_transfers_enabled: true,
        }),
        allowed_fee_assets: cfg
            .fee_assets
            .iter()
            .map(|a| denoms[*a as usize % denoms.len()].to_string())
            .collect(),
        fees: Some(genesis_fees(cfg.fee_variant).to_raw()),
    };
    GenesisAppState::try_from_raw(raw).expect("valid genesis")
}

pub(crate) fn genesis_validators(cfg: &Config, keys: &Keys) -> Vec<ValidatorUpdate> {
    cfg.validators
        .iter()
        .enumerate()
        .map(|(i, (k, power))| ValidatorUpdate {
            power: *power,
            verification_key: keys.vkey(*k).verification_key(),
            name: format!("v{i}").parse().unwrap(),
        })
        .collect()
}

/// One sequencer node: the durable part is `storage`; everything else dies with a crash.
pub(crate) struct Node {
    pub(crate) idx: u8,
    _temp: TempStorage,
    pub(crate) storage: Storage,
    pub(crate) app: Option<App>,
    pub(crate) mempool: Mempool,
    /// Height of the last block whose Commit completed on this node.
    pub(crate) committed: u64,
    /// While `Some(h)`, the node is down and comes back when height `h` starts.
    pub(crate) down_until: Option<u64>,
    /// The node's application panicked or failed on a legal call; it takes no further part.
    pub(crate) dead: bool,
    /// What this node did during the current height (for the abstract-state signature).
    pub(crate) path: String,
}

fn upgrades_handler(cfg: &Config) -> crate::upgrades::UpgradesHandler {
    UpgradesBuilder::new()
        .set_aspen(cfg.aspen)
        .set_blackburn(cfg.blackburn)
        .build()
        .into()
}

impl Node {
    /// Creates the node and runs InitChain (+ the Commit the consensus service issues after it).
    pub(crate) async fn new(idx: u8, cfg: &Config, keys: &Keys) -> Self {
        let temp = TempStorage::new().await.expect("temp storage");
        let storage: Storage = (*temp).clone();
        // balances in non-native assets cannot be expressed in the genesis file; they are written
        // to the (empty) store before genesis, identically on every node
        {
            use crate::assets::StateWriteExt as _;
            let mut delta = StateDelta::new(storage.latest_snapshot());
            for d in asset_denoms() {
                if let Denom::TracePrefixed(t) = d {
                    delta.put_ibc_asset(t).expect("put ibc asset");
                }
            }
            for (acct, asset, amount) in &cfg.extra {
                delta
                    .put_account_balance(&keys.addr(*acct), &denom(*asset), *amount)
                    .expect("put balance");
            }
            storage.commit(delta).await.expect("pre-genesis commit");
        }
        let mempool = Mempool::new(metrics(), cfg.parked_max, 100);
        let mut app = App::new(
            storage.latest_snapshot(),
            mempool.clone(),
            upgrades_handler(cfg),
            VeHandler::new(None),
            metrics(),
        )
        .await
        .expect("app");
        app.init_chain(
            storage.clone(),
            genesis_state(cfg, keys),
            genesis_validators(cfg, keys),
            CHAIN_ID.to_string(),
        )
        .await
        .expect("init_chain");
        app.commit(storage.clone()).await.expect("commit genesis");
        drop(app);
        write_ibc_genesis(&storage).await;
        let app = App::new(
            storage.latest_snapshot(),
            mempool.clone(),
            upgrades_handler(cfg),
            VeHandler::new(None),
            metrics(),
        )
        .await
        .expect("app after ibc genesis");
        Self {
            idx,
            _temp: temp,
            storage,
            app: Some(app),
            mempool,
            committed: 0,
            down_until: None,
            dead: false,
            path: String::new(),
        }
    }

    pub(crate) fn is_up(&self) -> bool {
        self.app.is_some() && !self.dead
    }

    /// Kill the process: the `App` (inter-block state, execution state machine, pending write
    /// batch) and the mempool are lost; committed storage survives.
    pub(crate) fn crash(&mut self) {
        self.app = None;
    }

    /// Restart from durable state with a fresh mempool.
    pub(crate) async fn restart(&mut self, cfg: &Config) {
        self.mempool = Mempool::new(metrics(), cfg.parked_max, 100);
        let app = App::new(
            self.storage.latest_snapshot(),
            self.mempool.clone(),
            upgrades_handler(cfg),
            VeHandler::new(None),
            metrics(),
        )
        .await
        .expect("app restart");
        self.app = Some(app);
        self.down_until = None;
    }
}

pub(crate) const COUNTERPARTY_CHANNELS: [&str; 2] = ["channel-10", "channel-11"];

/// IBC core state that on a real chain results from the client/connection/channel handshakes:
/// one active tendermint client, one open connection, and two open unordered `transfer` channels
/// (`channel-0` <-> `channel-10`, `channel-1` <-> `channel-11`). Written directly, identically on
/// every node, right after genesis.
pub(crate) async fn write_ibc_genesis(storage: &Storage) {
    use ibc_types::core::{
        channel::{
            channel::{
                Counterparty as ChanCounterparty,
                Order,
                State as ChanState,
            },
            ChannelEnd,
            ChannelId,
            PortId,
            Version as ChanVersion,
        },
        client::ClientId,
        commitment::MerkleRoot,
        connection::{
            ConnectionEnd,
            ConnectionId,
            Counterparty as ConnCounterparty,
            State as ConnState,
            Version as ConnVersion,
        },
    };
    use ibc_types::lightclients::tendermint::ConsensusState;
    use penumbra_ibc::component::{
        ChannelStateWriteExt as _,
        ClientStateWriteExt as _,
        ConnectionStateWriteExt as _,
        ConsensusStateWriteExt as _,
    };

    use crate::app::StateWriteExt as _;

    let mut delta = StateDelta::new(storage.latest_snapshot());
    let ts = block_time(0, 0);
    delta.put_block_timestamp(ts).expect("timestamp");
    let client_id = ClientId::default();
    // (the crate's dummy client state has a trusting period of one second, i.e. is expired by the
    // first block; use a period that outlasts every run)
    let client_state = {
        use ibc_types::lightclients::tendermint::{
            client_state::{
                AllowUpdate,
                ClientState,
            },
            TrustThreshold,
        };
        let version = 2;
        let chain_id = ibc_types::core::connection::ChainId::new("test".to_string(), version);
        let proof_spec = ibc_proto::ics23::ProofSpec {
            leaf_spec: None,
            inner_spec: None,
            max_depth: 0,
            min_depth: 0,
            prehash_key_before_comparison: false,
        };
        ClientState::new(
            chain_id,
            TrustThreshold::TWO_THIRDS,
            std::time::Duration::from_secs(10_000_000),
            std::time::Duration::from_secs(20_000_000),
            std::time::Duration::from_secs(1),
            ibc_types::core::client::Height::new(version, 5).unwrap(),
            vec![proof_spec],
            vec![],
            AllowUpdate {
                after_expiry: true,
                after_misbehaviour: true,
            },
            None,
        )
        .unwrap()
    };
    let height = client_state.latest_height;
    delta.put_client(&client_id, client_state);
    let consensus_state = ConsensusState::new(
        MerkleRoot {
            hash: vec![1; 32],
        },
        ts,
        tendermint::Hash::Sha256([2; 32]),
    );
    // (the host interface refuses height 0 when it records at which height the client was updated)
    delta.put_block_height(1).expect("height");
    delta
        .put_verified_consensus_state::<crate::ibc::host_interface::AstriaHost>(height, client_id.clone(), consensus_state)
        .await
        .expect("consensus state");
    delta.put_block_height(0).expect("height");
    let conn_id = ConnectionId::new(0);
    delta.update_connection(
        &conn_id,
        ConnectionEnd {
            state: ConnState::Open,
            client_id: client_id.clone(),
            counterparty: ConnCounterparty {
                client_id: client_id.clone(),
                connection_id: Some(ConnectionId::new(7)),
                prefix: penumbra_ibc::IBC_COMMITMENT_PREFIX.clone(),
            },
            versions: vec![ConnVersion::default()],
            delay_period: std::time::Duration::from_secs(0),
        },
    );
    for (i, remote) in COUNTERPARTY_CHANNELS.iter().enumerate() {
        let chan = ChannelEnd {
            state: ChanState::Open,
            ordering: Order::Unordered,
            remote: ChanCounterparty {
                port_id: PortId::transfer(),
                channel_id: Some(remote.parse::<ChannelId>().unwrap()),
            },
            connection_hops: vec![conn_id.clone()],
            version: ChanVersion::new("ics20-1".to_string()),
            ..ChannelEnd::default()
        };
        delta.put_channel(&ChannelId::new(i as u64), &PortId::transfer(), chan);
        // what the channel handshake leaves behind: sequences start at 1 (a packet with sequence 0
        // cannot be encoded, so the first packet of a channel could never be acknowledged otherwise)
        delta.put_send_sequence(&ChannelId::new(i as u64), &PortId::transfer(), 1);
        delta.put_recv_sequence(&ChannelId::new(i as u64), &PortId::transfer(), 1);
        delta.put_ack_sequence(&ChannelId::new(i as u64), &PortId::transfer(), 1);
    }
    storage.commit(delta).await.expect("ibc genesis commit");
}

/// Dump of the whole verifiable key space of a snapshot.
pub(crate) async fn dump_state(storage: &Storage) -> BTreeMap<String, Vec<u8>> {
    let snap = storage.latest_snapshot();
    let mut out = BTreeMap::new();
    let mut stream = std::pin::pin!(snap.prefix_raw(""));
    while let Some((k, v)) = stream.try_next().await.expect("prefix_raw") {
        out.insert(k, v);
    }
    out
}

pub(crate) fn block_time(height: u64, dt_ms: u32) -> Time {
    Time::from_unix_timestamp(
        GENESIS_UNIX + i64::try_from(height).unwrap() * 2,
        dt_ms % 1000 * 1_000_000,
    )
    .unwrap()
}

pub(crate) fn block_hash(height: u64, time: Time, proposer: &account::Id, txs: &[Bytes]) -> Hash {
    let mut h = sha2::Sha256::new();
    h.update(height.to_le_bytes());
    h.update(time.unix_timestamp_nanos().to_le_bytes());
    h.update(proposer.as_bytes());
    for tx in txs {
        h.update((tx.len() as u64).to_le_bytes());
        h.update(tx);
    }
    Hash::Sha256(h.finalize().into())
}

pub(crate) fn commit_info_of(ext: &ExtendedCommitInfo) -> CommitInfo {
    CommitInfo {
        round: ext.round,
        votes: ext
            .votes
            .iter()
            .map(|v| abci::types::VoteInfo {
                validator: v.validator.clone(),
                sig_info: v.sig_info,
            })
            .collect(),
    }
}

#[derive(Clone)]
pub(crate) struct BlockHeader {
    pub(crate) height: u64,
    pub(crate) time: Time,
    pub(crate) proposer: account::Id,
    pub(crate) next_validators_hash: Hash,
}

pub(crate) fn prepare_request(
    hd: &BlockHeader,
    max_tx_bytes: i64,
    local_last_commit: Option<ExtendedCommitInfo>,
) -> abci::request::PrepareProposal {
    abci::request::PrepareProposal {
        txs: vec![],
        max_tx_bytes,
        local_last_commit,
        misbehavior: vec![],
        height: Height::try_from(hd.height).unwrap(),
        time: hd.time,
        next_validators_hash: hd.next_validators_hash,
        proposer_address: hd.proposer,
    }
}

pub(crate) fn process_request(
    hd: &BlockHeader,
    hash: Hash,
    txs: Vec<Bytes>,
    proposed_last_commit: Option<CommitInfo>,
) -> abci::request::ProcessProposal {
    abci::request::ProcessProposal {
        txs,
        proposed_last_commit,
        misbehavior: vec![],
        hash,
        height: Height::try_from(hd.height).unwrap(),
        time: hd.time,
        next_validators_hash: hd.next_validators_hash,
        proposer_address: hd.proposer,
    }
}

pub(crate) fn finalize_request(
    hd: &BlockHeader,
    hash: Hash,
    txs: Vec<Bytes>,
    decided_last_commit: CommitInfo,
) -> abci::request::FinalizeBlock {
    abci::request::FinalizeBlock {
        txs,
        decided_last_commit,
        misbehavior: vec![],
        hash,
        height: Height::try_from(hd.height).unwrap(),
        time: hd.time,
        next_validators_hash: hd.next_validators_hash,
        proposer_address: hd.proposer,
    }
}

pub(crate) fn vk_address(vk: &VerificationKey) -> Addr {
    *vk.address_bytes()
}

pub(crate) fn ibc_prefixed(id: &AssetId) -> IbcPrefixed {
    IbcPrefixed::new(*id)
}
