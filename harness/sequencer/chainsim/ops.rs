//! Scenario vocabulary of E1 and the seeded generator. All ops are symbolic: they refer to
//! accounts, assets, nodes, validators by small indices (taken modulo the live population at run
//! time) and to amounts as fractions of the balance at the time the op executes, so that an op
//! keeps its meaning when earlier ops are removed by the minimiser.

use serde::{
    Deserialize,
    Serialize,
};

use super::{
    super::common::{
        mix,
        Rng,
    },
    Scenario,
};

pub(crate) const N_ASSETS: u8 = 4;
pub(crate) const N_ROLLUPS: u8 = 3;
pub(crate) const N_VKEYS: u8 = 6;

#[derive(Serialize, Deserialize, Clone, Debug, Default)]
pub(crate) struct Faults {
    pub(crate) failed_rounds: bool,
    pub(crate) crashes: bool,
    pub(crate) lagging: bool,
    pub(crate) byz_proposer: bool,
    pub(crate) byz_ve: bool,
    pub(crate) gossip_loss: bool,
}

#[derive(Serialize, Deserialize, Clone, Debug)]
pub(crate) struct Config {
    pub(crate) seed: u64,
    pub(crate) n_nodes: u8,
    pub(crate) n_accounts: u8,
    /// native-asset genesis balance per account
    pub(crate) balances: Vec<u128>,
    /// (account, asset index, amount): balances in non-native assets, written before genesis
    pub(crate) extra: Vec<(u8, u8, u128)>,
    pub(crate) sudo: u8,
    pub(crate) ibc_sudo: u8,
    pub(crate) relayers: Vec<u8>,
    pub(crate) fee_assets: Vec<u8>,
    pub(crate) fee_variant: u8,
    /// (validator key index, power)
    pub(crate) validators: Vec<(u8, u32)>,
    pub(crate) aspen: Option<u64>,
    pub(crate) blackburn: Option<u64>,
    pub(crate) parked_max: usize,
    pub(crate) faults: Faults,
}

#[derive(Serialize, Deserialize, Clone, Debug, PartialEq, Eq)]
pub(crate) enum Amt {
    Abs(u128),
    /// per-mille of the paying account's balance in that asset when the op executes
    PerMille(u16),
    /// balance + k (an overdraft by k)
    BalPlus(u8),
    Max,
}

#[derive(Serialize, Deserialize, Clone, Debug, PartialEq, Eq)]
pub(crate) enum NonceSel {
    /// what an honest client would use (pending nonce of the node it talks to)
    Next,
    Plus(u8),
    Minus(u8),
}

#[derive(Serialize, Deserialize, Clone, Debug, PartialEq, Eq)]
pub(crate) enum ActOp {
    Transfer { to: u8, asset: u8, amt: Amt, fee_asset: u8 },
    Rollup { rollup: u8, len: u32, fee_asset: u8 },
    InitBridge { rollup: u8, asset: u8, fee_asset: u8, sudo: Option<u8>, withdrawer: Option<u8> },
    BridgeLock { to: u8, asset: u8, amt: Amt, fee_asset: u8, dest_len: u8 },
    BridgeUnlock { bridge: u8, to: u8, amt: Amt, fee_asset: u8, event: u8 },
    BridgeTransfer { bridge: u8, to: u8, amt: Amt, fee_asset: u8, event: u8 },
    BridgeSudoChange { bridge: u8, new_sudo: Option<u8>, new_withdrawer: Option<u8>, fee_asset: u8, disable: bool },
    SudoChange { to: u8 },
    IbcSudoChange { to: u8 },
    RelayerChange { add: bool, who: u8 },
    FeeAssetChange { add: bool, asset: u8 },
    FeeChange { which: u8, base: u128, mult: u128 },
    ValidatorUpdate { vkey: u8, power: u32 },
    CurrencyPairs { add: bool, pair: u8 },
    /// kind: 0 create, 1 remove, 2 update
    Markets { kind: u8, pair: u8, decimals: u8 },
    Ics20Withdrawal {
        asset: u8,
        amt: Amt,
        channel: u8,
        fee_asset: u8,
        bridge: Option<u8>,
        event: u8,
        /// account named as the return address (None: the signer)
        #[serde(default)]
        ret: Option<u8>,
        /// carry a rollup-withdrawal shaped memo even without `bridge`
        #[serde(default)]
        rollup_memo: bool,
    },
}

#[derive(Serialize, Deserialize, Clone, Debug, PartialEq, Eq)]
pub(crate) struct TxOp {
    pub(crate) id: u32,
    pub(crate) signer: u8,
    pub(crate) nonce: NonceSel,
    pub(crate) actions: Vec<ActOp>,
    /// bitmask of nodes whose CheckTx receives the transaction (gossip outcome)
    pub(crate) nodes: u8,
    /// deliver a second time to the same nodes
    pub(crate) dup: bool,
    /// re-send the bytes of the transaction built for op `id` instead of building a new one
    pub(crate) replay_of: Option<u32>,
}

#[derive(Serialize, Deserialize, Clone, Debug, PartialEq, Eq)]
pub(crate) enum ByzOp {
    CorruptCommitment(u8),
    DropTx(u8),
    DupTx(u8),
    CorruptTxByte(u8, u16),
    InsertOverdraft,
    SwapGroups,
    Oversize,
    DropDataItem(u8),
    SwapDataItems,
    /// mutate the extended-commit data item (C15 safety half)
    Ext(ExtMut),
}

#[derive(Serialize, Deserialize, Clone, Debug, PartialEq, Eq)]
pub(crate) enum ExtMut {
    CorruptSig(u8),
    DropSig(u8),
    SwapExtensions,
    DupVote(u8),
    ChangePower(u8),
    ChangeRound,
    /// strip extensions until signed power is at or just below 2/3
    BelowThreshold,
    WrongMapping,
    /// extension on a non-commit vote
    ExtOnNil(u8),
    ResignWrongHeight(u8),
    ResignWrongChain(u8),
    ResignOtherKey(u8),
    DropVote(u8),
    ReorderVotes,
    /// another address on one vote entry (odd k: prefer an absent entry)
    ChangeAddress(u8),
}

#[derive(Serialize, Deserialize, Clone, Debug, PartialEq, Eq)]
pub(crate) struct RoundOp {
    /// proposer node (index into the nodes that are up)
    pub(crate) proposer: u8,
    /// false: re-propose the latest honest proposal of this height if there is one (valid-block
    /// re-proposal: no PrepareProposal call); forced to true when there is none
    pub(crate) prepare: bool,
    /// bitmask of up nodes that receive ProcessProposal for this round's proposal
    pub(crate) process: u8,
    /// Byzantine round: the proposal is a mutation of an honest one and is never decided
    pub(crate) byz: Option<ByzOp>,
}

#[derive(Serialize, Deserialize, Clone, Debug, PartialEq, Eq)]
pub(crate) enum ExtKind {
    Empty,
    /// (currency pair id, price)
    Prices(Vec<(u64, i128)>),
    /// a price whose byte length is `len` (valid wire length is 16)
    BadLen(u8),
    TooMany,
    Garbage,
}

#[derive(Serialize, Deserialize, Clone, Debug, PartialEq, Eq)]
pub(crate) struct VoteOp {
    /// 0 commit, 1 nil, 2 absent
    pub(crate) flag: u8,
    pub(crate) ext: ExtKind,
}

#[derive(Serialize, Deserialize, Clone, Debug, PartialEq, Eq)]
pub(crate) struct CrashOp {
    pub(crate) node: u8,
    /// 0 before the block, 1 after the first round, 2 after ProcessProposal of the deciding
    /// round, 3 between FinalizeBlock and Commit; 4: not the node but its consensus engine alone
    /// restarts between FinalizeBlock and Commit - the application process survives and, after the
    /// engine's handshake (Info reports the previous height), is sent FinalizeBlock for the same
    /// block again, then Commit
    pub(crate) point: u8,
    /// number of following blocks during which the node stays down (0 = restart at once)
    pub(crate) down: u8,
}

#[derive(Serialize, Deserialize, Clone, Debug, PartialEq, Eq)]
pub(crate) struct BlockOp {
    pub(crate) id: u32,
    pub(crate) dt_ms: u32,
    pub(crate) max_tx_bytes: u32,
    /// failed rounds followed by the deciding round (last)
    pub(crate) rounds: Vec<RoundOp>,
    pub(crate) crash: Option<CrashOp>,
    /// bitmask of up nodes that see nothing of this height until it is decided and they sync it
    pub(crate) late: u8,
    /// how each validator (by position in CometBFT's set) votes at this height; positions beyond
    /// the list vote commit with valid prices
    pub(crate) votes: Vec<VoteOp>,
    /// call VerifyVoteExtension on this node for the generated extensions
    pub(crate) verify_on: u8,
}

#[derive(Serialize, Deserialize, Clone, Debug, PartialEq, Eq)]
pub(crate) enum RecvDenom {
    /// an asset of the counterparty chain (minted here as `transfer/<our channel>/<base>`)
    Foreign(u8),
    /// one of this chain's assets coming back: `transfer/<counterparty channel>/<asset>`
    Returning(u8),
    /// the same, but naming a channel other than the one it arrives over
    ReturningWrongChannel(u8),
    Garbage,
}

#[derive(Serialize, Deserialize, Clone, Debug, PartialEq, Eq)]
pub(crate) enum RecvAmt {
    Abs(u128),
    /// per-mille of what is escrowed for that asset on that channel
    EscrowPerMille(u16),
    /// escrow + k: the counterparty over-returns
    EscrowPlus(u8),
    Max,
    NotANumber,
}

#[derive(Serialize, Deserialize, Clone, Debug, PartialEq, Eq)]
pub(crate) enum RecvTo {
    Account(u8),
    /// the ibc-compat (bech32) rendering of the account address
    Compat(u8),
    Garbage,
}

#[derive(Serialize, Deserialize, Clone, Debug, PartialEq, Eq)]
pub(crate) enum MemoKind {
    Empty,
    Deposit(u16),
    BadJson,
}

#[derive(Serialize, Deserialize, Clone, Debug, PartialEq, Eq)]
pub(crate) enum IbcKind {
    Recv { channel: u8, denom: RecvDenom, amt: RecvAmt, to: RecvTo, memo: MemoKind, seq: u8, expired: bool },
    /// acknowledge the `of`-th packet this chain has sent (modulo the number sent so far)
    Ack { of: u8, success: bool },
    Timeout { of: u8 },
}

#[derive(Serialize, Deserialize, Clone, Debug, PartialEq, Eq)]
pub(crate) struct IbcOp {
    pub(crate) id: u32,
    /// the relaying account (succeeds only while it is in the relayer set)
    pub(crate) relayer: u8,
    pub(crate) nonce: NonceSel,
    pub(crate) kind: IbcKind,
    pub(crate) nodes: u8,
    /// general actions bundled in front of the relay action (same transaction, same signer)
    #[serde(default)]
    pub(crate) pre: Vec<ActOp>,
}

#[derive(Serialize, Deserialize, Clone, Debug, PartialEq, Eq)]
pub(crate) enum Op {
    Tx(TxOp),
    Block(BlockOp),
    Ibc(IbcOp),
}

// ------------------------------------------------------------------------------------------------
// generator
// ------------------------------------------------------------------------------------------------

struct Weights {
    transfer: u32,
    rollup: u32,
    bridge: u32,
    sudo: u32,
    fee: u32,
    validator: u32,
    pairs: u32,
    ics20: u32,
    bundle: u32,
    bad_signer: u32,
    bad_nonce: u32,
    replay: u32,
    big_rollup: u32,
}

fn weights(profile: &str) -> Weights {
    let base = Weights {
        transfer: 20,
        rollup: 14,
        bridge: 22,
        sudo: 4,
        fee: 8,
        validator: 6,
        pairs: 3,
        ics20: 0,
        bundle: 30,
        bad_signer: 12,
        bad_nonce: 8,
        replay: 5,
        big_rollup: 3,
    };
    match profile {
        "ledger" => Weights { bridge: 26, fee: 12, ..base },
        "authority" => Weights { sudo: 14, fee: 10, validator: 8, bad_signer: 40, bridge: 26, ..base },
        "atomic" => Weights { bundle: 70, bad_nonce: 20, replay: 15, ..base },
        "paths" => Weights { pairs: 10, validator: 10, fee: 10, ..base },
        "proposal" => Weights { rollup: 40, big_rollup: 25, bundle: 20, ..base },
        "validators" => Weights { validator: 45, sudo: 6, ..base },
        "oracle" => Weights { pairs: 14, validator: 12, ..base },
        "ibc" => Weights { ics20: 40, bridge: 30, transfer: 10, rollup: 4, fee: 10, sudo: 6, ..base },
        _ => base,
    }
}

fn gen_amt(rng: &mut Rng) -> Amt {
    match rng.weighted(&[60, 16, 8, 6, 5, 5]) {
        0 => Amt::PerMille(rng.range(1, 300) as u16),
        1 => Amt::Abs(rng.range(1, 5000) as u128),
        2 => Amt::BalPlus(rng.range(1, 3) as u8),
        3 => Amt::PerMille(1000),
        4 => Amt::Abs(0),
        _ => Amt::Max,
    }
}

/// The generator's own expectation of the chain's authority state, assuming that every
/// well-formed privileged transaction it generated succeeded. It only biases generation (most
/// operations are plausible, a minority deliberately is not); the oracles never consult it.
#[derive(Clone)]
struct GenWorld {
    sudo: u8,
    ibc_sudo: u8,
    relayers: Vec<u8>,
    fee_assets: Vec<u8>,
    /// account -> (asset, sudo, withdrawer)
    bridges: std::collections::BTreeMap<u8, (u8, u8, u8)>,
    used_events: Vec<(u8, u8)>,
    vkeys: Vec<u8>,
}

impl GenWorld {
    fn new(cfg: &Config) -> Self {
        Self {
            sudo: cfg.sudo,
            ibc_sudo: cfg.ibc_sudo,
            relayers: cfg.relayers.clone(),
            fee_assets: cfg.fee_assets.clone(),
            bridges: std::collections::BTreeMap::new(),
            used_events: Vec::new(),
            vkeys: cfg.validators.iter().map(|v| v.0).collect(),
        }
    }

    fn fee_asset(&self, rng: &mut Rng) -> u8 {
        if self.fee_assets.is_empty() || rng.chance(1, 14) {
            rng.below(u64::from(N_ASSETS)) as u8
        } else {
            *rng.pick(&self.fee_assets)
        }
    }

    fn plain_account(&self, rng: &mut Rng, na: u8) -> u8 {
        for _ in 0..6 {
            let a = rng.below(u64::from(na)) as u8;
            if !self.bridges.contains_key(&a) {
                return a;
            }
        }
        rng.below(u64::from(na)) as u8
    }

    fn some_bridge(&self, rng: &mut Rng, na: u8) -> u8 {
        if self.bridges.is_empty() || rng.chance(1, 8) {
            rng.below(u64::from(na)) as u8
        } else {
            let keys: Vec<u8> = self.bridges.keys().copied().collect();
            *rng.pick(&keys)
        }
    }

    fn event(&mut self, rng: &mut Rng, bridge: u8) -> u8 {
        let used: Vec<u8> = self.used_events.iter().filter(|(b, _)| *b == bridge).map(|(_, e)| *e).collect();
        if !used.is_empty() && rng.chance(3, 10) {
            return *rng.pick(&used);
        }
        let e = rng.below(40) as u8;
        self.used_events.push((bridge, e));
        e
    }
}

/// Generates one transaction: first a role (whose key signs), then actions that fit the role.
fn gen_tx(rng: &mut Rng, w: &Weights, cfg: &Config, gw: &mut GenWorld, id: u32, prev_tx_ids: &[u32]) -> TxOp {
    let na = cfg.n_accounts;
    if !prev_tx_ids.is_empty() && rng.chance(u64::from(w.replay), 200) {
        return TxOp {
            id,
            signer: 0,
            nonce: NonceSel::Next,
            actions: vec![],
            nodes: rng.range(1, 255) as u8,
            dup: false,
            replay_of: Some(*rng.pick(prev_tx_ids)),
        };
    }
    let sudo_w = w.sudo + w.fee + w.validator + w.pairs;
    let user_w = w.transfer + w.rollup + w.ics20;
    let role = rng.weighted(&[user_w, w.bridge, sudo_w]);
    let wrong_signer = rng.chance(u64::from(w.bad_signer), 100);
    let n_actions = if rng.chance(u64::from(w.bundle), 100) { rng.range(2, 5) as usize } else { 1 };
    let mut actions: Vec<ActOp> = Vec::new();
    let mut signer: u8;
    match role {
        // ---- a plain user: transfers, rollup data, locks into bridges, ICS20 withdrawals -------
        0 => {
            signer = gw.plain_account(rng, na);
            for _ in 0..n_actions {
                let fee_asset = gw.fee_asset(rng);
                let a = match rng.weighted(&[w.transfer, w.rollup, w.ics20, w.bridge / 2]) {
                    0 => ActOp::Transfer {
                        to: rng.below(u64::from(na) + 1) as u8,
                        asset: if rng.chance(2, 3) { 0 } else { rng.below(u64::from(N_ASSETS)) as u8 },
                        amt: gen_amt(rng),
                        fee_asset,
                    },
                    1 => {
                        let len = if rng.chance(u64::from(w.big_rollup), 40) {
                            *rng.pick(&[60_000u32, 120_000, 200_000, 255_990, 256_000, 256_001])
                        } else {
                            match rng.weighted(&[10, 50, 30, 10]) {
                                0 => 0,
                                1 => rng.range(1, 64) as u32,
                                2 => rng.range(64, 2000) as u32,
                                _ => rng.range(2000, 30_000) as u32,
                            }
                        };
                        ActOp::Rollup { rollup: rng.below(u64::from(N_ROLLUPS)) as u8, len, fee_asset }
                    }
                    2 => ActOp::Ics20Withdrawal {
                        // mostly assets the account is likely to hold (native = source zone on both
                        // channels; asset 2 = sink zone on channel-0)
                        asset: *rng.pick(&[0u8, 0, 0, 0, 0, 2, 2, 1, 3]),
                        amt: gen_amt(rng),
                        channel: rng.below(2) as u8,
                        fee_asset,
                        bridge: None,
                        event: rng.below(40) as u8,
                        // anybody may name a bridge account as the return address of a transfer
                        // whose memo looks like a rollup withdrawal: a refund then is a deposit
                        ret: if !gw.bridges.is_empty() && rng.chance(1, 7) { Some(gw.some_bridge(rng, na)) } else { None },
                        rollup_memo: rng.chance(1, 6),
                    },
                    _ => {
                        let to = gw.some_bridge(rng, na);
                        let asset = match gw.bridges.get(&to) {
                            Some((a, _, _)) if !rng.chance(1, 8) => *a,
                            _ => rng.below(u64::from(N_ASSETS)) as u8,
                        };
                        ActOp::BridgeLock { to, asset, amt: gen_amt(rng), fee_asset, dest_len: rng.range(0, 40) as u8 }
                    }
                };
                actions.push(a);
            }
            if wrong_signer && !gw.bridges.is_empty() {
                // a bridge account trying to move its own funds with plain actions
                signer = gw.some_bridge(rng, na);
            }
        }
        // ---- bridge operations: init, unlock, bridge transfer, ICS20 from bridge, admin ---------
        1 => {
            let fee_asset = gw.fee_asset(rng);
            if !gw.bridges.is_empty() && rng.chance(1, 9) {
                // an account that already is a bridge tries to initialise itself again (other rollup,
                // default sudo/withdrawer): must be refused whatever the parameters
                signer = gw.some_bridge(rng, na);
                let asset = rng.below(u64::from(N_ASSETS)) as u8;
                actions.push(ActOp::InitBridge {
                    rollup: rng.below(u64::from(N_ROLLUPS)) as u8,
                    asset: if rng.chance(1, 2) { gw.bridges.get(&signer).map_or(asset, |b| b.0) } else { asset },
                    fee_asset,
                    sudo: if rng.chance(1, 3) { Some(rng.below(u64::from(na)) as u8) } else { None },
                    withdrawer: if rng.chance(1, 3) { Some(rng.below(u64::from(na)) as u8) } else { None },
                });
            } else if gw.bridges.len() < 3 && (gw.bridges.is_empty() || rng.chance(1, 4)) {
                signer = gw.plain_account(rng, na);
                let asset = if w.ics20 > 0 {
                    // IBC workloads: bridges of source-zone and sink-zone assets alike
                    *rng.pick(&[0u8, 0, 1, 2, 2, 3])
                } else if rng.chance(3, 4) {
                    0
                } else {
                    rng.below(u64::from(N_ASSETS)) as u8
                };
                let sudo = if rng.chance(1, 2) { Some(rng.below(u64::from(na)) as u8) } else { None };
                let withdrawer = if rng.chance(1, 2) { Some(rng.below(u64::from(na)) as u8) } else { None };
                gw.bridges.entry(signer).or_insert((asset, sudo.unwrap_or(signer), withdrawer.unwrap_or(signer)));
                actions.push(ActOp::InitBridge { rollup: rng.below(u64::from(N_ROLLUPS)) as u8, asset, fee_asset, sudo, withdrawer });
            } else {
                let bridge = gw.some_bridge(rng, na);
                let (b_asset, b_sudo, b_withdrawer) = gw.bridges.get(&bridge).copied().unwrap_or((0, bridge, bridge));
                if rng.chance(1, 6) {
                    // administration by the bridge sudo
                    signer = b_sudo;
                    let new_sudo = if rng.chance(1, 2) { Some(rng.below(u64::from(na)) as u8) } else { None };
                    let new_withdrawer = if rng.chance(1, 2) { Some(rng.below(u64::from(na)) as u8) } else { None };
                    if !wrong_signer {
                        if let Some(e) = gw.bridges.get_mut(&bridge) {
                            if let Some(s) = new_sudo {
                                e.1 = s;
                            }
                            if let Some(x) = new_withdrawer {
                                e.2 = x;
                            }
                        }
                    }
                    actions.push(ActOp::BridgeSudoChange { bridge, new_sudo, new_withdrawer, fee_asset, disable: rng.chance(1, 3) });
                } else {
                    signer = b_withdrawer;
                    for _ in 0..n_actions {
                        let fee_asset = gw.fee_asset(rng);
                        let event = gw.event(rng, bridge);
                        let a = match rng.weighted(&[50, 30, if w.ics20 > 0 { 60 } else { 4 }]) {
                            0 => ActOp::BridgeUnlock { bridge, to: rng.below(u64::from(na)) as u8, amt: gen_amt(rng), fee_asset, event },
                            1 => {
                                let others: Vec<u8> = gw.bridges.iter().filter(|(k, v)| **k != bridge && (v.0 == b_asset || rng.chance(1, 8))).map(|(k, _)| *k).collect();
                                let to = if rng.chance(1, 8) {
                                    bridge // a bridge transferring to itself
                                } else if others.is_empty() {
                                    rng.below(u64::from(na)) as u8
                                } else {
                                    *rng.pick(&others)
                                };
                                ActOp::BridgeTransfer { bridge, to, amt: gen_amt(rng), fee_asset, event }
                            }
                            _ => ActOp::Ics20Withdrawal {
                                // now and then an asset the bridge merely holds (sent to it by a plain Transfer)
                                asset: if rng.chance(1, 6) { rng.below(u64::from(N_ASSETS)) as u8 } else { b_asset },
                                amt: gen_amt(rng),
                                channel: rng.below(2) as u8,
                                fee_asset,
                                bridge: Some(bridge),
                                event,
                                ret: match rng.weighted(&[60, 30, 10]) {
                                    0 => Some(bridge),
                                    1 => None,
                                    _ => Some(gw.some_bridge(rng, na)),
                                },
                                rollup_memo: true,
                            },
                        };
                        actions.push(a);
                    }
                }
                if wrong_signer {
                    signer = rng.below(u64::from(na)) as u8;
                }
            }
        }
        // ---- chain authorities -----------------------------------------------------------------
        _ => {
            signer = gw.sudo;
            match rng.weighted(&[w.sudo, w.fee, w.validator, w.pairs]) {
                0 => match rng.weighted(&[3, 2, 4]) {
                    0 => {
                        let to = rng.below(u64::from(na)) as u8;
                        if !wrong_signer {
                            gw.sudo = to;
                        }
                        actions.push(ActOp::SudoChange { to });
                    }
                    1 => {
                        let to = rng.below(u64::from(na)) as u8;
                        if !wrong_signer {
                            gw.ibc_sudo = to;
                        }
                        actions.push(ActOp::IbcSudoChange { to });
                    }
                    _ => {
                        signer = gw.ibc_sudo;
                        for _ in 0..n_actions {
                            let add = gw.relayers.is_empty() || rng.chance(1, 2);
                            let who = if add || gw.relayers.is_empty() { rng.below(u64::from(na)) as u8 } else { *rng.pick(&gw.relayers) };
                            if !wrong_signer {
                                if add {
                                    gw.relayers.push(who);
                                } else {
                                    gw.relayers.retain(|r| *r != who);
                                }
                            }
                            actions.push(ActOp::RelayerChange { add, who });
                        }
                    }
                },
                1 => {
                    for _ in 0..n_actions {
                        if rng.chance(1, 3) {
                            let add = gw.fee_assets.len() < 2 || rng.chance(1, 2);
                            let asset = if add { rng.below(u64::from(N_ASSETS)) as u8 } else { *rng.pick(&gw.fee_assets) };
                            if !wrong_signer {
                                if add {
                                    if !gw.fee_assets.contains(&asset) {
                                        gw.fee_assets.push(asset);
                                    }
                                } else if gw.fee_assets.len() > 1 || rng.chance(1, 6) {
                                    gw.fee_assets.retain(|a| *a != asset);
                                }
                            }
                            actions.push(ActOp::FeeAssetChange { add, asset });
                        } else {
                            let (base, mult) = match rng.weighted(&[40, 20, 20, 10, 10]) {
                                0 => (rng.range(0, 50) as u128, rng.range(0, 5) as u128),
                                1 => (0, 0),
                                2 => (rng.range(1000, 1_000_000) as u128, rng.range(1, 2000) as u128),
                                3 => (u128::MAX / 2, 1),
                                _ => (1, u128::MAX / 3),
                            };
                            actions.push(ActOp::FeeChange { which: rng.below(18) as u8, base, mult });
                        }
                    }
                }
                2 => {
                    for _ in 0..n_actions {
                        // mostly meaningful updates: remove/repower an existing validator, add a new one
                        let known = !gw.vkeys.is_empty() && rng.chance(3, 5);
                        let vkey = if known { *rng.pick(&gw.vkeys) } else { rng.below(u64::from(N_VKEYS)) as u8 };
                        let power = match rng.weighted(&[30, 50, 10, 10]) {
                            0 => 0,
                            1 => rng.range(1, 20) as u32,
                            2 => rng.range(1, 3) as u32,
                            _ => rng.range(1000, 100_000) as u32,
                        };
                        if !wrong_signer {
                            if power == 0 {
                                gw.vkeys.retain(|k| *k != vkey);
                            } else if !gw.vkeys.contains(&vkey) {
                                gw.vkeys.push(vkey);
                            }
                        }
                        actions.push(ActOp::ValidatorUpdate { vkey, power });
                        // the same key again in this transaction: add-then-remove / remove-then-add
                        if rng.chance(1, 4) {
                            let again = if power == 0 { rng.range(1, 9) as u32 } else { 0 };
                            if !wrong_signer {
                                if again == 0 {
                                    gw.vkeys.retain(|k| *k != vkey);
                                } else if !gw.vkeys.contains(&vkey) {
                                    gw.vkeys.push(vkey);
                                }
                            }
                            actions.push(ActOp::ValidatorUpdate { vkey, power: again });
                        }
                    }
                }
                _ => {
                    for _ in 0..n_actions {
                        if rng.chance(1, 3) {
                            actions.push(ActOp::Markets { kind: rng.below(3) as u8, pair: rng.below(4) as u8, decimals: rng.range(0, 12) as u8 });
                        } else {
                            actions.push(ActOp::CurrencyPairs { add: rng.chance(1, 2), pair: rng.below(4) as u8 });
                        }
                    }
                }
            }
            if wrong_signer {
                signer = rng.below(u64::from(na)) as u8;
            }
        }
    }
    // occasionally an ill-formed bundle (mixed groups): must be rejected at construction
    if rng.chance(1, 40) {
        actions.push(ActOp::SudoChange { to: 0 });
    }
    let nonce = if rng.chance(u64::from(w.bad_nonce), 100) {
        if rng.chance(1, 2) { NonceSel::Plus(rng.range(1, 3) as u8) } else { NonceSel::Minus(rng.range(1, 2) as u8) }
    } else {
        NonceSel::Next
    };
    let nodes = if cfg.faults.gossip_loss && rng.chance(1, 3) { rng.range(1, 255) as u8 } else { 0xff };
    TxOp {
        id,
        signer,
        nonce,
        actions,
        nodes,
        dup: rng.chance(1, 12),
        replay_of: None,
    }
}

/// A scripted mini-history placed at the start of some runs: one withdrawal event id of a bridge
/// account carried first by action kind `k1` and then again by kind `k2` (all nine pairs of
/// BridgeUnlock / BridgeTransfer / Ics20Withdrawal, source- and sink-zone bridge assets). The
/// surrounding random operations stay in place; the recipe only guarantees that the cross-kind
/// reuse matrix is exercised regularly.
fn gen_event_reuse_recipe(rng: &mut Rng, cfg: &Config, gw: &mut GenWorld, next_id: &mut u32, profile: &str) -> Vec<Op> {
    let na = cfg.n_accounts;
    let mut out = Vec::new();
    let asset: u8 = if rng.chance(1, 2) { 0 } else { 2 };
    // a funder that holds the asset at genesis
    let funder = if asset == 0 {
        (0..na).find(|a| cfg.balances.get(*a as usize).copied().unwrap_or(0) > 1_000_000)
    } else {
        cfg.extra.iter().find(|(_, a, _)| *a == asset).map(|(acct, _, _)| *acct)
    };
    let Some(funder) = funder else { return out };
    let bridge = (0..na).find(|a| *a != funder && !gw.bridges.contains_key(a));
    let Some(bridge) = bridge else { return out };
    let bridge2 = (0..na).find(|a| *a != funder && *a != bridge && !gw.bridges.contains_key(a));
    let withdrawer = if rng.chance(1, 2) { bridge } else { rng.below(u64::from(na)) as u8 };
    let fee_asset = cfg.fee_assets[0];
    let mut id = || {
        let i = *next_id;
        *next_id += 1;
        i
    };
    let tx = |id: u32, signer: u8, actions: Vec<ActOp>| Op::Tx(TxOp { id, signer, nonce: NonceSel::Next, actions, nodes: 0xff, dup: false, replay_of: None });
    let block = |id: u32, rng: &mut Rng| {
        Op::Block(BlockOp {
            id,
            dt_ms: rng.range(1, 999) as u32,
            max_tx_bytes: 1_048_576,
            rounds: vec![RoundOp { proposer: rng.below(8) as u8, prepare: true, process: 0xff, byz: None }],
            crash: None,
            late: 0,
            votes: gen_votes(rng, cfg, profile),
            verify_on: rng.below(8) as u8,
        })
    };
    out.push(tx(id(), bridge, vec![ActOp::InitBridge { rollup: rng.below(u64::from(N_ROLLUPS)) as u8, asset, fee_asset, sudo: None, withdrawer: Some(withdrawer) }]));
    gw.bridges.insert(bridge, (asset, bridge, withdrawer));
    if let Some(b2) = bridge2 {
        out.push(tx(id(), b2, vec![ActOp::InitBridge { rollup: rng.below(u64::from(N_ROLLUPS)) as u8, asset, fee_asset, sudo: None, withdrawer: None }]));
        gw.bridges.insert(b2, (asset, b2, b2));
    }
    out.push(block(id(), rng));
    out.push(tx(id(), funder, vec![ActOp::BridgeLock { to: bridge, asset, amt: Amt::PerMille(300), fee_asset, dest_len: 10 }]));
    out.push(block(id(), rng));
    let event = rng.range(40, 60) as u8;
    gw.used_events.push((bridge, event));
    let kinds: Vec<u8> = vec![rng.below(3) as u8, rng.below(3) as u8];
    for k in kinds {
        let a = match k {
            0 => ActOp::BridgeUnlock { bridge, to: rng.below(u64::from(na)) as u8, amt: Amt::PerMille(100), fee_asset, event },
            1 => ActOp::BridgeTransfer { bridge, to: bridge2.unwrap_or(bridge), amt: Amt::PerMille(100), fee_asset, event },
            _ => ActOp::Ics20Withdrawal { asset, amt: Amt::PerMille(100), channel: rng.below(2) as u8, fee_asset, bridge: Some(bridge), event, ret: Some(bridge), rollup_memo: true },
        };
        out.push(tx(id(), withdrawer, vec![a]));
        out.push(block(id(), rng));
    }
    out
}

/// A scripted mini-history for the "transaction waited in the mempool while the state it was
/// checked against changed" class: the sudo account queues `remove validator K` behind a nonce gap
/// while K exists, removes K with the gap's predecessor, then fills the gap with `add K`. The
/// proposer of the next block sees [add K, remove K] become executable together although the
/// queued removal is invalid against the state at the start of that block.
fn gen_stale_mempool_recipe(rng: &mut Rng, cfg: &Config, gw: &mut GenWorld, next_id: &mut u32, profile: &str) -> Vec<Op> {
    let mut out = Vec::new();
    if gw.vkeys.len() < 2 {
        return out;
    }
    let k = gw.vkeys[rng.below_usize(gw.vkeys.len())];
    let sudo = gw.sudo;
    let mut id = || {
        let i = *next_id;
        *next_id += 1;
        i
    };
    let tx = |id: u32, nonce: NonceSel, power: u32| {
        Op::Tx(TxOp { id, signer: sudo, nonce, actions: vec![ActOp::ValidatorUpdate { vkey: k, power }], nodes: 0xff, dup: false, replay_of: None })
    };
    let block = |id: u32, rng: &mut Rng| {
        Op::Block(BlockOp {
            id,
            dt_ms: rng.range(1, 999) as u32,
            max_tx_bytes: 1_048_576,
            rounds: vec![RoundOp { proposer: rng.below(8) as u8, prepare: true, process: 0xff, byz: None }],
            crash: None,
            late: 0,
            votes: gen_votes(rng, cfg, profile),
            verify_on: rng.below(8) as u8,
        })
    };
    out.push(tx(id(), NonceSel::Plus(2), 0)); // parked: remove K (valid now)
    out.push(tx(id(), NonceSel::Next, 0)); // remove K
    out.push(block(id(), rng));
    out.push(tx(id(), NonceSel::Next, rng.range(1, 9) as u32)); // add K again: fills the gap
    out.push(block(id(), rng));
    out.push(block(id(), rng));
    out
}

/// A scripted mini-history for "a transaction that fails after a BridgeLock, in a block that
/// already has a deposit": the withdrawer of a funded bridge queues two transactions that carry the
/// same withdrawal event id, each preceded by a BridgeLock. Both pass CheckTx (the id is unused in
/// the committed state); when the proposer executes them in order the second one fails at its
/// second action, after its lock has run, and has to leave nothing behind.
fn gen_ghost_deposit_recipe(rng: &mut Rng, cfg: &Config, gw: &mut GenWorld, next_id: &mut u32, profile: &str) -> Vec<Op> {
    let na = cfg.n_accounts;
    let mut out = Vec::new();
    let asset: u8 = 0;
    let Some(funder) = (0..na).find(|a| cfg.balances.get(*a as usize).copied().unwrap_or(0) > 1_000_000 && !gw.bridges.contains_key(a)) else { return out };
    let Some(bridge) = (0..na).find(|a| *a != funder && !gw.bridges.contains_key(a) && cfg.balances.get(*a as usize).copied().unwrap_or(0) > 10_000) else { return out };
    let fee_asset = cfg.fee_assets[0];
    let mut id = || {
        let i = *next_id;
        *next_id += 1;
        i
    };
    let tx = |id: u32, signer: u8, actions: Vec<ActOp>| Op::Tx(TxOp { id, signer, nonce: NonceSel::Next, actions, nodes: 0xff, dup: false, replay_of: None });
    let block = |id: u32, rng: &mut Rng| {
        Op::Block(BlockOp {
            id,
            dt_ms: rng.range(1, 999) as u32,
            max_tx_bytes: 1_048_576,
            rounds: vec![RoundOp { proposer: rng.below(8) as u8, prepare: true, process: 0xff, byz: None }],
            crash: None,
            late: if rng.chance(1, 3) { 1 << rng.below(3) } else { 0 },
            votes: gen_votes(rng, cfg, profile),
            verify_on: rng.below(8) as u8,
        })
    };
    out.push(tx(id(), bridge, vec![ActOp::InitBridge { rollup: rng.below(u64::from(N_ROLLUPS)) as u8, asset, fee_asset, sudo: None, withdrawer: Some(funder) }]));
    gw.bridges.insert(bridge, (asset, bridge, funder));
    out.push(block(id(), rng));
    out.push(tx(id(), funder, vec![ActOp::BridgeLock { to: bridge, asset, amt: Amt::PerMille(100), fee_asset, dest_len: 8 }]));
    out.push(block(id(), rng));
    let event = rng.range(60, 80) as u8;
    gw.used_events.push((bridge, event));
    let to = rng.below(u64::from(na)) as u8;
    for _ in 0..2 {
        let second = match rng.weighted(&[60, 40]) {
            0 => ActOp::BridgeUnlock { bridge, to, amt: Amt::Abs(rng.range(1, 500) as u128), fee_asset, event },
            _ => ActOp::BridgeTransfer { bridge, to: bridge, amt: Amt::Abs(rng.range(1, 500) as u128), fee_asset, event },
        };
        out.push(tx(id(), funder, vec![ActOp::BridgeLock { to: bridge, asset, amt: Amt::Abs(rng.range(1, 2000) as u128), fee_asset, dest_len: rng.range(1, 30) as u8 }, second]));
    }
    out.push(block(id(), rng));
    out.push(block(id(), rng));
    out
}

/// A scripted mini-history for "a failed outgoing transfer is refunded to a bridge account in an
/// asset the bridge does not bridge": the bridge (asset A) is sent asset B by a plain Transfer, B
/// leaves over IBC with the bridge as return address and a rollup-withdrawal memo (from the bridge
/// through its withdrawer, or from a plain account - nothing ties the return address to the
/// signer), and the packet then fails (error acknowledgement or timeout).
fn gen_bridge_refund_recipe(rng: &mut Rng, cfg: &Config, gw: &mut GenWorld, next_id: &mut u32, profile: &str) -> Vec<Op> {
    let na = cfg.n_accounts;
    let mut out = Vec::new();
    let (a, b): (u8, u8) = if rng.chance(1, 2) { (2, 0) } else { (0, 2) };
    let holder = |asset: u8| {
        if asset == 0 {
            (0..na).find(|x| cfg.balances.get(*x as usize).copied().unwrap_or(0) > 1_000_000)
        } else {
            cfg.extra.iter().find(|(_, x, _)| *x == asset).map(|(acct, _, _)| *acct)
        }
    };
    let Some(funder) = holder(b) else { return out };
    let Some(bridge) = (0..na).find(|x| *x != funder && !gw.bridges.contains_key(x) && cfg.balances.get(*x as usize).copied().unwrap_or(0) > 10_000) else { return out };
    let fee_asset = cfg.fee_assets[0];
    let mut id = || {
        let i = *next_id;
        *next_id += 1;
        i
    };
    let tx = |id: u32, signer: u8, actions: Vec<ActOp>| Op::Tx(TxOp { id, signer, nonce: NonceSel::Next, actions, nodes: 0xff, dup: false, replay_of: None });
    let block = |id: u32, rng: &mut Rng| {
        Op::Block(BlockOp {
            id,
            dt_ms: rng.range(1, 999) as u32,
            max_tx_bytes: 1_048_576,
            rounds: vec![RoundOp { proposer: rng.below(8) as u8, prepare: true, process: 0xff, byz: None }],
            crash: None,
            late: 0,
            votes: gen_votes(rng, cfg, profile),
            verify_on: rng.below(8) as u8,
        })
    };
    let from_bridge = rng.chance(1, 2);
    out.push(tx(id(), bridge, vec![ActOp::InitBridge { rollup: rng.below(u64::from(N_ROLLUPS)) as u8, asset: a, fee_asset, sudo: None, withdrawer: Some(funder) }]));
    gw.bridges.insert(bridge, (a, bridge, funder));
    out.push(tx(id(), funder, vec![ActOp::Transfer { to: bridge, asset: b, amt: Amt::PerMille(200), fee_asset }]));
    out.push(block(id(), rng));
    let event = rng.range(80, 100) as u8;
    out.push(tx(
        id(),
        funder,
        vec![ActOp::Ics20Withdrawal {
            asset: b,
            amt: Amt::PerMille(400),
            channel: rng.below(2) as u8,
            fee_asset,
            bridge: if from_bridge { Some(bridge) } else { None },
            event,
            ret: Some(bridge),
            rollup_memo: true,
        }],
    ));
    out.push(block(id(), rng));
    if gw.relayers.is_empty() {
        let who = rng.below(u64::from(na)) as u8;
        out.push(tx(id(), gw.ibc_sudo, vec![ActOp::RelayerChange { add: true, who }]));
        gw.relayers.push(who);
        out.push(block(id(), rng));
    }
    let relayer = *rng.pick(&gw.relayers);
    let kind = if rng.chance(1, 2) { IbcKind::Ack { of: 0, success: false } } else { IbcKind::Timeout { of: 0 } };
    out.push(Op::Ibc(IbcOp { id: id(), relayer, nonce: NonceSel::Next, kind, nodes: 0xff, pre: vec![] }));
    out.push(block(id(), rng));
    out
}

fn gen_ibc(rng: &mut Rng, cfg: &Config, gw: &GenWorld, id: u32) -> IbcOp {
    let na = u64::from(cfg.n_accounts);
    let relayer = if !gw.relayers.is_empty() && rng.chance(9, 10) { *rng.pick(&gw.relayers) } else { rng.below(na) as u8 };
    let kind = match rng.weighted(&[55, 25, 20]) {
        0 => IbcKind::Recv {
            channel: rng.below(2) as u8,
            denom: match rng.weighted(&[30, 50, 10, 10]) {
                0 => RecvDenom::Foreign(rng.below(2) as u8),
                1 => RecvDenom::Returning(rng.below(u64::from(N_ASSETS)) as u8),
                2 => RecvDenom::ReturningWrongChannel(rng.below(u64::from(N_ASSETS)) as u8),
                _ => RecvDenom::Garbage,
            },
            amt: match rng.weighted(&[30, 35, 15, 10, 10]) {
                0 => RecvAmt::Abs(rng.range(0, 100_000) as u128),
                1 => RecvAmt::EscrowPerMille(rng.range(1, 1000) as u16),
                2 => RecvAmt::EscrowPlus(rng.range(1, 3) as u8),
                3 => RecvAmt::Max,
                _ => RecvAmt::NotANumber,
            },
            to: match rng.weighted(&[80, 10, 10]) {
                0 => RecvTo::Account(if !gw.bridges.is_empty() && rng.chance(1, 2) { gw.some_bridge(rng, cfg.n_accounts) } else { rng.below(na + 1) as u8 }),
                1 => RecvTo::Compat(rng.below(na) as u8),
                _ => RecvTo::Garbage,
            },
            memo: match rng.weighted(&[40, 45, 15]) {
                0 => MemoKind::Empty,
                1 => MemoKind::Deposit(*rng.pick(&[0u16, 1, 20, 256, 257])),
                _ => MemoKind::BadJson,
            },
            seq: rng.below(12) as u8,
            expired: rng.chance(1, 15),
        },
        1 => IbcKind::Ack { of: rng.below(16) as u8, success: rng.chance(1, 2) },
        _ => IbcKind::Timeout { of: rng.below(16) as u8 },
    };
    let pre = if rng.chance(1, 4) {
        vec![ActOp::Transfer { to: rng.below(na + 1) as u8, asset: 0, amt: Amt::PerMille(rng.range(1, 50) as u16), fee_asset: gw.fee_assets.first().copied().unwrap_or(0) }]
    } else {
        vec![]
    };
    IbcOp {
        id,
        relayer,
        nonce: NonceSel::Next,
        kind,
        nodes: 0xff,
        pre,
    }
}

fn gen_votes(rng: &mut Rng, cfg: &Config, profile: &str) -> Vec<VoteOp> {
    let mut votes = Vec::new();
    let honest_bias: u32 = if profile == "oracle" { 55 } else { 80 };
    for _ in 0..8 {
        let flag = rng.weighted(&[honest_bias, 8, 12]) as u8;
        let ext = if flag != 0 {
            ExtKind::Empty
        } else if cfg.faults.byz_ve && rng.chance(1, 6) {
            match rng.weighted(&[3, 2, 2, 3]) {
                0 => ExtKind::BadLen(*rng.pick(&[0u8, 1, 15, 17, 33, 34])),
                1 => ExtKind::TooMany,
                2 => ExtKind::Garbage,
                _ => ExtKind::Empty,
            }
        } else {
            let n = rng.range(0, 3);
            let mut prices = Vec::new();
            for _ in 0..n {
                let id = rng.below(4);
                let p = match rng.weighted(&[60, 10, 10, 10, 10]) {
                    0 => rng.range(1, 1_000_000) as i128,
                    1 => 0,
                    2 => i128::MAX,
                    3 => -(rng.range(1, 1000) as i128),
                    _ => i128::MAX - rng.range(0, 3) as i128,
                };
                if !prices.iter().any(|(i, _)| *i == id) {
                    prices.push((id, p));
                }
            }
            ExtKind::Prices(prices)
        };
        votes.push(VoteOp { flag, ext });
    }
    votes
}

fn gen_byz(rng: &mut Rng, profile: &str) -> ByzOp {
    let ext_w: u32 = if profile == "oracle" { 70 } else { 25 };
    if rng.below(100) < u64::from(ext_w) {
        let k = rng.below(6) as u8;
        ByzOp::Ext(match rng.below(15) {
            14 => ExtMut::ChangeAddress(k),
            0 => ExtMut::CorruptSig(k),
            1 => ExtMut::DropSig(k),
            2 => ExtMut::SwapExtensions,
            3 => ExtMut::DupVote(k),
            4 => ExtMut::ChangePower(k),
            5 => ExtMut::ChangeRound,
            6 => ExtMut::BelowThreshold,
            7 => ExtMut::WrongMapping,
            8 => ExtMut::ExtOnNil(k),
            9 => ExtMut::ResignWrongHeight(k),
            10 => ExtMut::ResignWrongChain(k),
            11 => ExtMut::ResignOtherKey(k),
            12 => ExtMut::DropVote(k),
            _ => ExtMut::ReorderVotes,
        })
    } else {
        let k = rng.below(8) as u8;
        match rng.below(10) {
            0 => ByzOp::CorruptCommitment(rng.below(2) as u8),
            1 => ByzOp::DropTx(k),
            2 => ByzOp::DupTx(k),
            3 => ByzOp::CorruptTxByte(k, rng.below(400) as u16),
            4 => ByzOp::InsertOverdraft,
            5 => ByzOp::SwapGroups,
            6 => ByzOp::Oversize,
            7 => ByzOp::DropDataItem(rng.below(4) as u8),
            8 => ByzOp::SwapDataItems,
            _ => ByzOp::CorruptCommitment(rng.below(2) as u8),
        }
    }
}

pub(crate) fn generate(profile: &str, tier: &str, seed: u64) -> Scenario {
    let mut rng = Rng::new(mix(seed, 0xE1));
    let w = weights(profile);
    let thorough = tier == "thorough";
    let n_nodes = rng.range(2, 4) as u8;
    let n_accounts = rng.range(4, 8) as u8;
    // total supply reaches 2^128 only in the `extreme` profile
    let extreme = profile == "extreme";
    let mut balances = Vec::new();
    for _ in 0..n_accounts {
        balances.push(match rng.weighted(&[10, 50, 30, if extreme { 30 } else { 2 }]) {
            0 => 0,
            1 => rng.range(1_000_000, 1_000_000_000) as u128,
            2 => rng.range_u128(1u128 << 64, 1u128 << 100),
            _ => {
                if extreme { u128::MAX - rng.range(0, 1000) as u128 } else { 1u128 << 120 }
            }
        });
    }
    let mut extra = Vec::new();
    for a in 0..n_accounts {
        for asset in 1..N_ASSETS {
            if rng.chance(1, 2) {
                extra.push((a, asset, rng.range(1_000_000, 10_000_000_000) as u128));
            }
        }
    }
    let sudo = rng.below(u64::from(n_accounts)) as u8;
    let ibc_sudo = rng.below(u64::from(n_accounts)) as u8;
    let relayers: Vec<u8> = (0..rng.range(if profile == "ibc" { 1 } else { 0 }, 2)).map(|_| rng.below(u64::from(n_accounts)) as u8).collect();
    let mut fee_assets = vec![0u8];
    if rng.chance(1, 2) {
        fee_assets.push(rng.range(1, u64::from(N_ASSETS) - 1) as u8);
    }
    let nv = rng.range(1, 4) as usize;
    let mut validators = Vec::new();
    for i in 0..nv {
        let power = match rng.weighted(&[50, 30, 20]) {
            0 => rng.range(1, 10) as u32,
            1 => rng.range(1, 3) as u32,
            _ => rng.range(10, 1000) as u32,
        };
        validators.push((i as u8, power));
    }
    let aspen = if rng.chance(1, 10) { None } else { Some(rng.range(1, 4)) };
    let blackburn = match aspen {
        Some(a) if rng.chance(4, 5) => Some(a + rng.range(1, 3)),
        _ => None,
    };
    let all_faults = profile == "paths" || profile == "mixed";
    let faults = Faults {
        failed_rounds: rng.chance(if all_faults { 3 } else { 1 }, 4),
        crashes: rng.chance(if all_faults { 2 } else { 1 }, 4),
        lagging: rng.chance(if all_faults { 2 } else { 1 }, 4),
        byz_proposer: rng.chance(if profile == "proposal" || profile == "oracle" { 3 } else { 1 }, 4),
        byz_ve: rng.chance(if profile == "oracle" { 2 } else { 1 }, 4),
        gossip_loss: rng.chance(1, 2),
    };
    let cfg = Config {
        seed,
        n_nodes,
        n_accounts,
        balances,
        extra,
        sudo,
        ibc_sudo,
        relayers,
        fee_assets,
        fee_variant: rng.below(4) as u8,
        validators,
        aspen,
        blackburn,
        parked_max: *rng.pick(&[2usize, 10, 100]),
        faults,
    };

    let heights = if thorough { rng.range(8, 30) } else { rng.range(6, 16) };
    let mut ops = Vec::new();
    let mut next_id = 0u32;
    let mut tx_ids: Vec<u32> = Vec::new();
    let mut gw = GenWorld::new(&cfg);
    // recipes fork the generator's PRNG so that adding one does not shift the rest of the scenario
    if matches!(profile, "ledger" | "ibc" | "mixed") {
        let mut r = rng.fork(0x7265_6675_6e64);
        if r.chance(1, 3) {
            // first, so that its packet is the first one this chain sends (`of: 0`)
            let recipe = gen_bridge_refund_recipe(&mut r, &cfg, &mut gw, &mut next_id, profile);
            ops.extend(recipe);
        }
    }
    if matches!(profile, "ledger" | "atomic" | "paths" | "proposal" | "mixed") {
        let mut r = rng.fork(0x6768_6f73_74);
        if r.chance(1, 4) {
            let recipe = gen_ghost_deposit_recipe(&mut r, &cfg, &mut gw, &mut next_id, profile);
            for op in &recipe {
                if let Op::Tx(t) = op {
                    tx_ids.push(t.id);
                }
            }
            ops.extend(recipe);
        }
    }
    if matches!(profile, "ledger" | "ibc" | "mixed" | "atomic") && rng.chance(2, 5) {
        let recipe = gen_event_reuse_recipe(&mut rng, &cfg, &mut gw, &mut next_id, profile);
        for op in &recipe {
            if let Op::Tx(t) = op {
                tx_ids.push(t.id);
            }
        }
        ops.extend(recipe);
    }
    if matches!(profile, "validators" | "proposal" | "mixed" | "authority") && rng.chance(1, 3) {
        let recipe = gen_stale_mempool_recipe(&mut rng, &cfg, &mut gw, &mut next_id, profile);
        ops.extend(recipe);
    }
    for _h in 0..heights {
        // early on, make sure some bridge accounts exist
        let n_txs = match rng.weighted(&[10, 40, 35, 15]) {
            0 => 0,
            1 => rng.range(1, 3),
            2 => rng.range(3, 6),
            _ => rng.range(6, if profile == "proposal" { 14 } else { 9 }),
        };
        for _ in 0..n_txs {
            let id = next_id;
            next_id += 1;
            let tx = gen_tx(&mut rng, &w, &cfg, &mut gw, id, &tx_ids);
            if tx.replay_of.is_none() {
                tx_ids.push(id);
            }
            ops.push(Op::Tx(tx));
        }
        let n_ibc = if profile == "ibc" { rng.weighted(&[20, 40, 25, 15]) } else if rng.chance(1, 10) { 1 } else { 0 };
        for _ in 0..n_ibc {
            let id = next_id;
            next_id += 1;
            ops.push(Op::Ibc(gen_ibc(&mut rng, &cfg, &gw, id)));
        }
        let id = next_id;
        next_id += 1;
        let mut rounds = Vec::new();
        if cfg.faults.failed_rounds || cfg.faults.byz_proposer {
            let n_failed = rng.weighted(&[55, 30, 10, 5]);
            for _ in 0..n_failed {
                let byz = if cfg.faults.byz_proposer && rng.chance(1, 2) { Some(gen_byz(&mut rng, profile)) } else { None };
                if byz.is_none() && !cfg.faults.failed_rounds {
                    continue;
                }
                rounds.push(RoundOp {
                    proposer: rng.below(8) as u8,
                    prepare: rng.chance(4, 5),
                    process: rng.range(0, 255) as u8,
                    byz,
                });
            }
        }
        // an abandoned honest round right at an upgrade activation height (the block of that
        // height is then executed more than once by the same application instance)
        let height_guess = ops.iter().filter(|o| matches!(o, Op::Block(_))).count() as u64 + 1;
        if (cfg.aspen == Some(height_guess) || cfg.blackburn == Some(height_guess)) && rounds.is_empty() && rng.chance(1, 2) {
            rounds.push(RoundOp { proposer: rng.below(8) as u8, prepare: true, process: 0xff, byz: None });
        }
        // after a Byzantine round every node validates the next proposal (state left behind by a
        // proposal rejected after partial execution must not leak into it)
        let after_byz = rounds.last().is_some_and(|r| r.byz.is_some());
        rounds.push(RoundOp {
            proposer: rng.below(8) as u8,
            prepare: rounds.is_empty() || rng.chance(3, 4),
            process: if after_byz || rng.chance(1, 2) { 0xff } else { rng.range(0, 255) as u8 },
            byz: None,
        });
        let crash = if cfg.faults.crashes && rng.chance(1, 5) {
            Some(CrashOp {
                node: rng.below(8) as u8,
                point: rng.below(5) as u8,
                down: rng.weighted(&[60, 25, 15]) as u8,
            })
        } else {
            None
        };
        ops.push(Op::Block(BlockOp {
            id,
            dt_ms: rng.range(1, 999) as u32,
            max_tx_bytes: match rng.weighted(&[10, 10, 20, 60]) {
                0 => rng.range(300, 2000) as u32,
                1 => rng.range(2000, 60_000) as u32,
                2 => rng.range(60_000, 600_000) as u32,
                _ => 1_048_576,
            },
            rounds,
            crash,
            late: if cfg.faults.lagging && rng.chance(1, 4) { rng.range(1, 255) as u8 } else { 0 },
            votes: gen_votes(&mut rng, &cfg, profile),
            verify_on: rng.below(8) as u8,
        }));
    }
    Scenario {
        profile: profile.to_string(),
        cfg,
        ops,
    }
}

// ------------------------------------------------------------------------------------------------
// minimiser support
// ------------------------------------------------------------------------------------------------

pub(crate) fn simplify(sc: &Scenario) -> Vec<Scenario> {
    let mut out = Vec::new();
    // fewer nodes
    if sc.cfg.n_nodes > 2 {
        let mut s = sc.clone();
        s.cfg.n_nodes -= 1;
        out.push(s);
    }
    // turn off fault classes
    for i in 0..sc.ops.len() {
        match &sc.ops[i] {
            Op::Block(b) => {
                if b.rounds.len() > 1 {
                    let mut s = sc.clone();
                    if let Op::Block(b2) = &mut s.ops[i] {
                        let last = b2.rounds.pop().unwrap();
                        b2.rounds.clear();
                        b2.rounds.push(RoundOp { prepare: true, ..last });
                    }
                    out.push(s);
                    for r in 0..b.rounds.len() - 1 {
                        let mut s = sc.clone();
                        if let Op::Block(b2) = &mut s.ops[i] {
                            b2.rounds.remove(r);
                        }
                        out.push(s);
                    }
                }
                if b.crash.is_some() {
                    let mut s = sc.clone();
                    if let Op::Block(b2) = &mut s.ops[i] {
                        b2.crash = None;
                    }
                    out.push(s);
                }
                if b.late != 0 {
                    let mut s = sc.clone();
                    if let Op::Block(b2) = &mut s.ops[i] {
                        b2.late = 0;
                    }
                    out.push(s);
                }
                if b.votes.iter().any(|v| v.flag != 0 || !matches!(v.ext, ExtKind::Empty)) {
                    let mut s = sc.clone();
                    if let Op::Block(b2) = &mut s.ops[i] {
                        for v in &mut b2.votes {
                            v.flag = 0;
                            v.ext = ExtKind::Empty;
                        }
                    }
                    out.push(s);
                }
                if b.max_tx_bytes != 1_048_576 {
                    let mut s = sc.clone();
                    if let Op::Block(b2) = &mut s.ops[i] {
                        b2.max_tx_bytes = 1_048_576;
                    }
                    out.push(s);
                }
            }
            Op::Ibc(_) => {}
            Op::Tx(t) => {
                if t.actions.len() > 1 {
                    for k in 0..t.actions.len() {
                        let mut s = sc.clone();
                        if let Op::Tx(t2) = &mut s.ops[i] {
                            t2.actions.remove(k);
                        }
                        out.push(s);
                    }
                }
                if t.dup || t.nodes != 0xff {
                    let mut s = sc.clone();
                    if let Op::Tx(t2) = &mut s.ops[i] {
                        t2.dup = false;
                        t2.nodes = 0xff;
                    }
                    out.push(s);
                }
            }
        }
    }
    out
}

pub(crate) fn summarize(sc: &Scenario) -> serde_json::Value {
    let mut kinds = std::collections::BTreeMap::<String, u32>::new();
    let mut blocks = 0u32;
    let mut failed_rounds = 0u32;
    let mut byz = 0u32;
    let mut crashes = 0u32;
    for op in &sc.ops {
        match op {
            Op::Tx(t) => {
                for a in &t.actions {
                    let dbg = format!("{a:?}");
                    let name = dbg.split([' ', '{', '(']).next().unwrap_or("?").to_string();
                    *kinds.entry(name).or_default() += 1;
                }
                if t.replay_of.is_some() {
                    *kinds.entry("Replay".into()).or_default() += 1;
                }
            }
            Op::Ibc(i) => {
                let dbg = format!("{:?}", i.kind);
                let name = format!("Ibc{}", dbg.split([' ', '{', '(']).next().unwrap_or("?"));
                *kinds.entry(name).or_default() += 1;
            }
            Op::Block(b) => {
                blocks += 1;
                failed_rounds += (b.rounds.len() - 1) as u32;
                byz += b.rounds.iter().filter(|r| r.byz.is_some()).count() as u32;
                crashes += u32::from(b.crash.is_some());
            }
        }
    }
    let first_ops: Vec<String> = sc.ops.iter().take(6).map(|o| {
        let s = format!("{o:?}");
        s.chars().take(220).collect()
    }).collect();
    serde_json::json!({
        "profile": sc.profile,
        "nodes": sc.cfg.n_nodes, "accounts": sc.cfg.n_accounts, "validators": sc.cfg.validators,
        "aspen": sc.cfg.aspen, "blackburn": sc.cfg.blackburn, "fee_variant": sc.cfg.fee_variant,
        "faults_enabled": sc.cfg.faults,
        "blocks": blocks, "failed_rounds": failed_rounds, "byzantine_rounds": byz, "crashes": crashes,
        "actions": kinds, "first_ops": first_ops,
    })
}
