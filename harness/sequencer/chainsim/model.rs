//! Reference ledger for E1: a small executable model of what a *successful* transaction must do
//! to balances, nonces, authorities, the bridge registry, withdrawal ids, the validator set and IBC
//! escrow. It is applied only to transactions that the real code reports as successful in a decided
//! block; if the model finds that such a transaction could not legitimately have succeeded
//! (unauthorised signer, wrong nonce, overdraft, reused withdrawal id …) that is a violation, and
//! after each block every modelled quantity must equal the real state.
//!
//! The model is written from the properties' statements and the chain's documented rules, not by
//! calling into the code under test; arithmetic is exact (u128 with explicit overflow detection).

use std::collections::{
    BTreeMap,
    BTreeSet,
};

use astria_core::{
    primitive::v1::asset::Denom,
    protocol::transaction::v1::{
        action::{
            FeeAssetChange,
            FeeChange,
            IbcRelayerChange,
        },
        Action,
        Transaction,
    },
    sequencerblock::v1::block::Deposit,
    Protobuf as _,
};

use super::world::{
    asset_id,
    Addr,
    AssetId,
};

#[derive(Clone, Debug, PartialEq, Eq)]
pub(crate) struct Bridge {
    pub(crate) rollup: [u8; 32],
    pub(crate) asset: AssetId,
    pub(crate) sudo: Option<Addr>,
    pub(crate) withdrawer: Option<Addr>,
    pub(crate) disabled: bool,
}

#[derive(Clone, Debug)]
pub(crate) struct Finding {
    pub(crate) property: &'static str,
    pub(crate) oracle: &'static str,
    pub(crate) signature: String,
    pub(crate) message: String,
}

fn finding(property: &'static str, oracle: &'static str, sig: &str, msg: String) -> Finding {
    Finding {
        property,
        oracle,
        signature: sig.to_string(),
        message: msg,
    }
}

/// A fee the model expects for one action of a successful transaction.
#[derive(Clone, Debug, PartialEq, Eq)]
pub(crate) struct ExpectedFee {
    pub(crate) action_full_name: String,
    pub(crate) asset: AssetId,
    pub(crate) amount: u128,
    pub(crate) position: u64,
}

#[derive(Clone, Default)]
pub(crate) struct Model {
    pub(crate) balances: BTreeMap<(Addr, AssetId), u128>,
    pub(crate) nonces: BTreeMap<Addr, u32>,
    pub(crate) sudo: Addr,
    pub(crate) ibc_sudo: Addr,
    pub(crate) relayers: BTreeSet<Addr>,
    pub(crate) fee_assets: BTreeSet<AssetId>,
    /// Pascal-case action name → (base, multiplier); `None` = action disabled.
    pub(crate) fees: BTreeMap<String, Option<(u128, u128)>>,
    pub(crate) bridges: BTreeMap<Addr, Bridge>,
    pub(crate) used_withdrawals: BTreeSet<(Addr, String)>,
    /// (power, verification key bytes) by validator address
    pub(crate) validators: BTreeMap<Addr, (u32, [u8; 32])>,
    /// escrow by (channel, asset)
    pub(crate) escrow: BTreeMap<(String, AssetId), u128>,
    pub(crate) executed: BTreeSet<[u8; 32]>,
    pub(crate) blackburn_active: bool,
    pub(crate) aspen_active: bool,
    // per block
    pub(crate) block_fees: BTreeMap<AssetId, u128>,
    pub(crate) block_deposits: Vec<Deposit>,
    /// net amount minted(+)/burned(-) by IBC per asset in the current block (as i256-ish pair)
    pub(crate) block_minted: BTreeMap<AssetId, u128>,
    pub(crate) block_burned: BTreeMap<AssetId, u128>,
    /// validator updates of the current block, by address, last write wins (what CometBFT must get)
    pub(crate) block_validator_updates: BTreeMap<Addr, (u32, [u8; 32])>,
    /// set if the block contained an action the model does not cover (comparison is then relaxed
    /// for the affected category only)
    pub(crate) unmodelled: BTreeSet<&'static str>,
    /// per block: (tx id, action index, packet sequence, predicted success) of received packets
    pub(crate) recv_predictions: Vec<([u8; 32], u64, u64, bool)>,
    pub(crate) withdrawals_honoured: u64,
    /// workload probes raised while applying successful transactions (drained by the runner)
    pub(crate) probes: Vec<&'static str>,
    /// ibc-prefixed id -> trace-prefixed denomination known to the chain
    pub(crate) known_traces: BTreeMap<AssetId, String>,
}

pub(crate) struct TxView<'a> {
    pub(crate) tx: &'a Transaction,
    pub(crate) id: [u8; 32],
}

impl Model {
    pub(crate) fn bal(&self, a: &Addr, asset: &AssetId) -> u128 {
        self.balances.get(&(*a, *asset)).copied().unwrap_or(0)
    }

    fn credit(&mut self, a: &Addr, asset: &AssetId, amt: u128) -> Result<(), String> {
        let cur = self.bal(a, asset);
        let new = cur
            .checked_add(amt)
            .ok_or_else(|| format!("credit overflows u128 ({cur} + {amt})"))?;
        self.balances.insert((*a, *asset), new);
        Ok(())
    }

    fn debit(&mut self, a: &Addr, asset: &AssetId, amt: u128) -> Result<(), String> {
        let cur = self.bal(a, asset);
        let new = cur
            .checked_sub(amt)
            .ok_or_else(|| format!("debit exceeds balance ({cur} - {amt})"))?;
        self.balances.insert((*a, *asset), new);
        Ok(())
    }

    pub(crate) fn begin_block(&mut self) {
        self.block_fees.clear();
        self.block_deposits.clear();
        self.block_minted.clear();
        self.block_burned.clear();
        self.block_validator_updates.clear();
        self.unmodelled.clear();
        self.recv_predictions.clear();
    }

    /// Credits the block's fees to the sudo address as of the end of the block.
    pub(crate) fn end_block(&mut self, out: &mut Vec<Finding>) {
        let fees: Vec<(AssetId, u128)> = self.block_fees.iter().map(|(a, v)| (*a, *v)).collect();
        let sudo = self.sudo;
        for (asset, amt) in fees {
            if let Err(e) = self.credit(&sudo, &asset, amt) {
                out.push(finding(
                    "C01",
                    "fee-recipient-credit",
                    "fee-recipient-overflow",
                    format!("crediting block fees to the fee recipient: {e}"),
                ));
            }
        }
    }

    fn fee_for(&self, name: &str, variable: u128) -> Result<Option<u128>, String> {
        match self.fees.get(name) {
            Some(Some((base, mult))) => {
                let var = variable
                    .checked_mul(*mult)
                    .ok_or_else(|| format!("fee {variable} x {mult} exceeds u128"))?;
                let total = base
                    .checked_add(var)
                    .ok_or_else(|| format!("fee {base} + {var} exceeds u128"))?;
                Ok(Some(total))
            }
            Some(None) | None => Ok(None),
        }
    }

    /// Applies one transaction that the real chain reported as successful. Returns the fees the
    /// model expects the chain to have charged, in action order.
    pub(crate) fn apply_successful_tx(
        &mut self,
        view: &TxView<'_>,
        out: &mut Vec<Finding>,
    ) -> Vec<ExpectedFee> {
        let tx = view.tx;
        let signer: Addr = *tx.address_bytes();
        let mut fees = Vec::new();

        // at most once
        if !self.executed.insert(view.id) {
            out.push(finding(
                "C03",
                "tx-executed-twice",
                "same-tx-id-succeeded-twice",
                format!("transaction {} took effect a second time", hex(&view.id)),
            ));
        }
        // nonce
        let cur = self.nonces.get(&signer).copied().unwrap_or(0);
        if tx.nonce() != cur {
            out.push(finding(
                "C03",
                "nonce-order",
                "succeeded-with-nonce-not-current",
                format!(
                    "tx {} of {} succeeded with nonce {} but the account nonce was {cur}",
                    hex(&view.id),
                    hex(&signer),
                    tx.nonce()
                ),
            ));
        }
        self.nonces.insert(signer, cur.wrapping_add(1));

        for (index, action) in tx.actions().iter().enumerate() {
            let pos = index as u64;
            self.apply_action(action, &signer, view, pos, &mut fees, out);
        }
        fees
    }

    fn charge(
        &mut self,
        name: &'static str,
        full_name: String,
        fee_asset: Option<&Denom>,
        variable: u128,
        signer: &Addr,
        pos: u64,
        fees: &mut Vec<ExpectedFee>,
        out: &mut Vec<Finding>,
    ) {
        if !matches!(self.fees.get(name), Some(Some(_))) {
            out.push(finding(
                "C01",
                "disabled-action-succeeded",
                &format!("{name}-succeeded-while-disabled"),
                format!("{name} succeeded although it has no fee entry (disabled)"),
            ));
            return;
        }
        let Some(fee_asset) = fee_asset else {
            return;
        };
        let fee = match self.fee_for(name, variable) {
            Ok(Some(f)) => f,
            Ok(None) => return,
            Err(e) => {
                out.push(finding(
                    "C01",
                    "fee-not-exact",
                    &format!("{name}-fee-exceeds-u128-but-succeeded"),
                    format!("{name} succeeded although its exact fee is not representable: {e}"),
                ));
                return;
            }
        };
        let aid = asset_id(fee_asset);
        if !self.fee_assets.contains(&aid) {
            out.push(finding(
                "C01",
                "fee-asset-not-allowed",
                &format!("{name}-paid-in-disallowed-asset"),
                format!("{name} succeeded paying fees in non-allowed asset {fee_asset}"),
            ));
        }
        if let Err(e) = self.debit(signer, &aid, fee) {
            out.push(finding(
                "C01",
                "fee-overdraft",
                &format!("{name}-fee-overdraft"),
                format!("{name}: signer {} cannot pay fee {fee}: {e}", hex(signer)),
            ));
        }
        let cur = self.block_fees.entry(aid).or_default();
        match cur.checked_add(fee) {
            Some(v) => *cur = v,
            None => out.push(finding(
                "C01",
                "block-fees-overflow",
                "block-fees-overflow-but-succeeded",
                "sum of block fees exceeds u128 but transaction succeeded".to_string(),
            )),
        }
        fees.push(ExpectedFee {
            action_full_name: full_name,
            asset: aid,
            amount: fee,
            position: pos,
        });
    }

    fn move_funds(
        &mut self,
        what: &'static str,
        from: &Addr,
        to: &Addr,
        asset: &AssetId,
        amount: u128,
        out: &mut Vec<Finding>,
    ) {
        if let Err(e) = self.debit(from, asset, amount) {
            out.push(finding(
                "C01",
                "overdraft",
                &format!("{what}-overdraft"),
                format!("{what}: {} -> {}: {e}", hex(from), hex(to)),
            ));
            return;
        }
        if let Err(e) = self.credit(to, asset, amount) {
            out.push(finding(
                "C01",
                "credit-overflow",
                &format!("{what}-credit-overflow"),
                format!("{what}: {} -> {}: {e}", hex(from), hex(to)),
            ));
        }
    }

    fn require_sudo(&self, what: &'static str, signer: &Addr, out: &mut Vec<Finding>) {
        if *signer != self.sudo {
            out.push(finding(
                "C02",
                "unauthorised-privileged-action",
                &format!("{what}-by-non-sudo"),
                format!(
                    "{what} succeeded signed by {} but sudo is {}",
                    hex(signer),
                    hex(&self.sudo)
                ),
            ));
        }
    }

    fn use_withdrawal(
        &mut self,
        what: &'static str,
        bridge: &Addr,
        event_id: &str,
        out: &mut Vec<Finding>,
    ) {
        self.withdrawals_honoured += 1;
        if !self.used_withdrawals.insert((*bridge, event_id.to_string())) {
            out.push(finding(
                "C04",
                "withdrawal-id-reused",
                &format!("{what}-reused-withdrawal-event-id"),
                format!(
                    "{what} for bridge {} honoured withdrawal event id `{event_id}` a second time",
                    hex(bridge)
                ),
            ));
        }
    }

    fn require_withdrawer(
        &self,
        what: &'static str,
        bridge: &Addr,
        signer: &Addr,
        out: &mut Vec<Finding>,
    ) -> bool {
        match self.bridges.get(bridge) {
            None => {
                out.push(finding(
                    "C02",
                    "bridge-op-on-non-bridge",
                    &format!("{what}-on-non-bridge"),
                    format!("{what} succeeded on {} which is not a bridge account", hex(bridge)),
                ));
                false
            }
            Some(b) => {
                if b.withdrawer != Some(*signer) {
                    out.push(finding(
                        "C02",
                        "unauthorised-bridge-withdrawal",
                        &format!("{what}-by-non-withdrawer"),
                        format!(
                            "{what} from bridge {} succeeded signed by {} but withdrawer is {:?}",
                            hex(bridge),
                            hex(signer),
                            b.withdrawer.map(|w| hex(&w))
                        ),
                    ));
                }
                true
            }
        }
    }

    #[allow(clippy::too_many_lines)]
    fn apply_action(
        &mut self,
        action: &Action,
        signer: &Addr,
        view: &TxView<'_>,
        pos: u64,
        fees: &mut Vec<ExpectedFee>,
        out: &mut Vec<Finding>,
    ) {
        use astria_core::protocol::transaction::v1::action as act;
        match action {
            Action::RollupDataSubmission(a) => {
                self.charge(
                    "RollupDataSubmission",
                    <act::RollupDataSubmission as astria_core::Protobuf>::full_name(),
                    Some(&a.fee_asset),
                    a.data.len() as u128,
                    signer,
                    pos,
                    fees,
                    out,
                );
            }
            Action::Transfer(a) => {
                self.charge(
                    "Transfer",
                    <act::Transfer as astria_core::Protobuf>::full_name(),
                    Some(&a.fee_asset),
                    0,
                    signer,
                    pos,
                    fees,
                    out,
                );
                if self.bridges.contains_key(signer) {
                    out.push(finding(
                        "C02",
                        "bridge-funds-moved-by-plain-action",
                        "Transfer-out-of-bridge-account",
                        format!("Transfer signed by bridge account {} succeeded", hex(signer)),
                    ));
                }
                self.move_funds("Transfer", signer, &a.to.bytes(), &asset_id(&a.asset), a.amount, out);
            }
            Action::ValidatorUpdate(a) => {
                self.charge(
                    "ValidatorUpdate",
                    <act::ValidatorUpdate as astria_core::Protobuf>::full_name(),
                    None,
                    0,
                    signer,
                    pos,
                    fees,
                    out,
                );
                self.require_sudo("ValidatorUpdate", signer, out);
                let addr = *a.verification_key.address_bytes();
                let vk = a.verification_key.to_bytes();
                self.block_validator_updates.insert(addr, (a.power, vk));
                if self.aspen_active {
                    if a.power == 0 {
                        self.validators.remove(&addr);
                    } else {
                        self.validators.insert(addr, (a.power, vk));
                    }
                }
                // pre-Aspen the set changes at end of block; see `end_block_validators`
            }
            Action::SudoAddressChange(a) => {
                self.charge(
                    "SudoAddressChange",
                    <act::SudoAddressChange as astria_core::Protobuf>::full_name(),
                    None,
                    0,
                    signer,
                    pos,
                    fees,
                    out,
                );
                self.require_sudo("SudoAddressChange", signer, out);
                self.sudo = a.new_address.bytes();
            }
            Action::IbcSudoChange(a) => {
                self.charge(
                    "IbcSudoChange",
                    <act::IbcSudoChange as astria_core::Protobuf>::full_name(),
                    None,
                    0,
                    signer,
                    pos,
                    fees,
                    out,
                );
                self.require_sudo("IbcSudoChange", signer, out);
                self.ibc_sudo = a.new_address.bytes();
            }
            Action::IbcRelayerChange(a) => {
                self.charge(
                    "IbcRelayerChange",
                    <act::IbcRelayerChange as astria_core::Protobuf>::full_name(),
                    None,
                    0,
                    signer,
                    pos,
                    fees,
                    out,
                );
                if *signer != self.ibc_sudo {
                    out.push(finding(
                        "C02",
                        "unauthorised-privileged-action",
                        "IbcRelayerChange-by-non-ibc-sudo",
                        format!(
                            "IbcRelayerChange succeeded signed by {} but ibc sudo is {}",
                            hex(signer),
                            hex(&self.ibc_sudo)
                        ),
                    ));
                }
                match a {
                    IbcRelayerChange::Addition(addr) => {
                        self.relayers.insert(addr.bytes());
                    }
                    IbcRelayerChange::Removal(addr) => {
                        self.relayers.remove(&addr.bytes());
                    }
                }
            }
            Action::FeeAssetChange(a) => {
                self.charge(
                    "FeeAssetChange",
                    <act::FeeAssetChange as astria_core::Protobuf>::full_name(),
                    None,
                    0,
                    signer,
                    pos,
                    fees,
                    out,
                );
                self.require_sudo("FeeAssetChange", signer, out);
                match a {
                    FeeAssetChange::Addition(d) => {
                        self.fee_assets.insert(asset_id(d));
                    }
                    FeeAssetChange::Removal(d) => {
                        self.fee_assets.remove(&asset_id(d));
                        if self.fee_assets.is_empty() {
                            out.push(finding(
                                "C02",
                                "fee-assets-emptied",
                                "last-fee-asset-removed",
                                "the last allowed fee asset was removed".to_string(),
                            ));
                        }
                    }
                }
            }
            Action::FeeChange(a) => {
                self.charge(
                    "FeeChange",
                    <act::FeeChange as astria_core::Protobuf>::full_name(),
                    None,
                    0,
                    signer,
                    pos,
                    fees,
                    out,
                );
                self.require_sudo("FeeChange", signer, out);
                let (name, base, mult) = fee_change_parts(a);
                self.fees.insert(name.to_string(), Some((base, mult)));
            }
            Action::InitBridgeAccount(a) => {
                self.charge(
                    "InitBridgeAccount",
                    <act::InitBridgeAccount as astria_core::Protobuf>::full_name(),
                    Some(&a.fee_asset),
                    0,
                    signer,
                    pos,
                    fees,
                    out,
                );
                if self.bridges.contains_key(signer) {
                    out.push(finding(
                        "C02",
                        "bridge-reinitialised",
                        "InitBridgeAccount-on-existing-bridge",
                        format!("bridge account {} was initialised twice", hex(signer)),
                    ));
                }
                self.bridges.insert(
                    *signer,
                    Bridge {
                        rollup: *a.rollup_id.as_bytes(),
                        asset: asset_id(&a.asset),
                        sudo: Some(a.sudo_address.map_or(*signer, |x| x.bytes())),
                        withdrawer: Some(a.withdrawer_address.map_or(*signer, |x| x.bytes())),
                        disabled: false,
                    },
                );
            }
            Action::BridgeLock(a) => {
                let variable = (a.asset.display_len() + a.destination_chain_address.len()) as u128 + 16;
                self.charge(
                    "BridgeLock",
                    <act::BridgeLock as astria_core::Protobuf>::full_name(),
                    Some(&a.fee_asset),
                    variable,
                    signer,
                    pos,
                    fees,
                    out,
                );
                let to = a.to.bytes();
                let aid = asset_id(&a.asset);
                if self.bridges.contains_key(signer) {
                    out.push(finding(
                        "C02",
                        "bridge-funds-moved-by-plain-action",
                        "BridgeLock-out-of-bridge-account",
                        format!("BridgeLock signed by bridge account {} succeeded", hex(signer)),
                    ));
                }
                match self.bridges.get(&to).cloned() {
                    None => out.push(finding(
                        "C04",
                        "deposit-to-non-bridge",
                        "BridgeLock-to-non-bridge",
                        format!("BridgeLock to {} which is not a bridge succeeded", hex(&to)),
                    )),
                    Some(b) => {
                        if b.asset != aid {
                            out.push(finding(
                                "C04",
                                "deposit-wrong-asset",
                                "BridgeLock-asset-mismatch",
                                format!("BridgeLock of a non-bridge asset to {} succeeded", hex(&to)),
                            ));
                        }
                        if b.disabled {
                            out.push(finding(
                                "C02",
                                "deposit-to-disabled-bridge",
                                "BridgeLock-to-disabled-bridge",
                                format!("BridgeLock to disabled bridge {} succeeded", hex(&to)),
                            ));
                        }
                        self.block_deposits.push(Deposit {
                            bridge_address: a.to,
                            rollup_id: astria_core::primitive::v1::RollupId::new(b.rollup),
                            amount: a.amount,
                            asset: a.asset.clone(),
                            destination_chain_address: a.destination_chain_address.clone(),
                            source_transaction_id:
                                astria_core::primitive::v1::TransactionId::new(view.id),
                            source_action_index: pos,
                        });
                    }
                }
                self.move_funds("BridgeLock", signer, &to, &aid, a.amount, out);
            }
            Action::BridgeUnlock(a) => {
                self.charge(
                    "BridgeUnlock",
                    <act::BridgeUnlock as astria_core::Protobuf>::full_name(),
                    Some(&a.fee_asset),
                    0,
                    signer,
                    pos,
                    fees,
                    out,
                );
                let bridge = a.bridge_address.bytes();
                if self.require_withdrawer("BridgeUnlock", &bridge, signer, out) {
                    let asset = self.bridges[&bridge].asset;
                    self.use_withdrawal("BridgeUnlock", &bridge, &a.rollup_withdrawal_event_id, out);
                    self.move_funds("BridgeUnlock", &bridge, &a.to.bytes(), &asset, a.amount, out);
                }
            }
            Action::BridgeTransfer(a) => {
                self.charge(
                    "BridgeTransfer",
                    <act::BridgeTransfer as astria_core::Protobuf>::full_name(),
                    Some(&a.fee_asset),
                    0,
                    signer,
                    pos,
                    fees,
                    out,
                );
                let bridge = a.bridge_address.bytes();
                let to = a.to.bytes();
                if self.require_withdrawer("BridgeTransfer", &bridge, signer, out) {
                    let asset = self.bridges[&bridge].asset;
                    self.use_withdrawal(
                        "BridgeTransfer",
                        &bridge,
                        &a.rollup_withdrawal_event_id,
                        out,
                    );
                    match self.bridges.get(&to).cloned() {
                        None => out.push(finding(
                            "C04",
                            "deposit-to-non-bridge",
                            "BridgeTransfer-to-non-bridge",
                            format!("BridgeTransfer to non-bridge {} succeeded", hex(&to)),
                        )),
                        Some(dst) => {
                            if dst.asset != asset {
                                out.push(finding(
                                    "C04",
                                    "deposit-wrong-asset",
                                    "BridgeTransfer-asset-mismatch",
                                    "BridgeTransfer between bridges of different assets succeeded"
                                        .to_string(),
                                ));
                            }
                            if dst.disabled {
                                out.push(finding(
                                    "C02",
                                    "deposit-to-disabled-bridge",
                                    "BridgeTransfer-to-disabled-bridge",
                                    format!("BridgeTransfer to disabled bridge {} succeeded", hex(&to)),
                                ));
                            }
                            // The deposit's asset is checked separately (trace-prefixed form of
                            // the bridge asset); the model records what it can derive.
                            self.block_deposits.push(Deposit {
                                bridge_address: a.to,
                                rollup_id: astria_core::primitive::v1::RollupId::new(dst.rollup),
                                amount: a.amount,
                                asset: self
                                    .known_traces
                                    .get(&asset)
                                    .and_then(|t| t.parse::<Denom>().ok())
                                    .unwrap_or_else(|| Denom::from(super::world::ibc_prefixed(&asset))),
                                destination_chain_address: a.destination_chain_address.clone(),
                                source_transaction_id:
                                    astria_core::primitive::v1::TransactionId::new(view.id),
                                source_action_index: pos,
                            });
                        }
                    }
                    self.move_funds("BridgeTransfer", &bridge, &to, &asset, a.amount, out);
                }
            }
            Action::BridgeSudoChange(a) => {
                self.charge(
                    "BridgeSudoChange",
                    <act::BridgeSudoChange as astria_core::Protobuf>::full_name(),
                    Some(&a.fee_asset),
                    0,
                    signer,
                    pos,
                    fees,
                    out,
                );
                let bridge = a.bridge_address.bytes();
                match self.bridges.get_mut(&bridge) {
                    None => out.push(finding(
                        "C02",
                        "bridge-op-on-non-bridge",
                        "BridgeSudoChange-on-non-bridge",
                        format!("BridgeSudoChange on non-bridge {} succeeded", hex(&bridge)),
                    )),
                    Some(b) => {
                        if b.sudo != Some(*signer) {
                            out.push(finding(
                                "C02",
                                "unauthorised-privileged-action",
                                "BridgeSudoChange-by-non-bridge-sudo",
                                format!(
                                    "BridgeSudoChange of {} succeeded signed by {} but bridge sudo is \
                                     {:?}",
                                    hex(&bridge),
                                    hex(signer),
                                    b.sudo.map(|s| hex(&s))
                                ),
                            ));
                        }
                        if let Some(s) = a.new_sudo_address {
                            b.sudo = Some(s.bytes());
                        }
                        if let Some(w) = a.new_withdrawer_address {
                            b.withdrawer = Some(w.bytes());
                        }
                        if self.blackburn_active {
                            b.disabled = a.disable_deposits;
                        }
                    }
                }
            }
            Action::Ics20Withdrawal(a) => {
                self.charge(
                    "Ics20Withdrawal",
                    <act::Ics20Withdrawal as astria_core::Protobuf>::full_name(),
                    Some(&a.fee_asset),
                    0,
                    signer,
                    pos,
                    fees,
                    out,
                );
                let from = match &a.bridge_address {
                    Some(b) => {
                        let bridge = b.bytes();
                        if self.require_withdrawer("Ics20Withdrawal", &bridge, signer, out) {
                            if let Ok(memo) = serde_json::from_str::<
                                astria_core::protocol::memos::v1::Ics20WithdrawalFromRollup,
                            >(&a.memo)
                            {
                                self.use_withdrawal(
                                    "Ics20Withdrawal",
                                    &bridge,
                                    &memo.rollup_withdrawal_event_id,
                                    out,
                                );
                            }
                        }
                        bridge
                    }
                    None => {
                        if self.bridges.contains_key(signer) {
                            out.push(finding(
                                "C02",
                                "bridge-funds-moved-by-plain-action",
                                "Ics20Withdrawal-out-of-bridge-account",
                                format!(
                                    "Ics20Withdrawal signed by bridge account {} without bridge \
                                     address succeeded",
                                    hex(signer)
                                ),
                            ));
                        }
                        *signer
                    }
                };
                let aid = asset_id(&a.denom);
                self.probes.push(match (a.bridge_address.is_some(), ics20_is_source(&a.denom, a.source_channel.as_str())) {
                    (true, true) => "ics20.withdrawal.from-bridge.source",
                    (true, false) => "ics20.withdrawal.from-bridge.sink",
                    (false, true) => "ics20.withdrawal.plain.source",
                    (false, false) => "ics20.withdrawal.plain.sink",
                });
                if let Err(e) = self.debit(&from, &aid, a.amount) {
                    out.push(finding(
                        "C01",
                        "overdraft",
                        "Ics20Withdrawal-overdraft",
                        format!("Ics20Withdrawal from {}: {e}", hex(&from)),
                    ));
                }
                if ics20_is_source(&a.denom, a.source_channel.as_str()) {
                    let e = self
                        .escrow
                        .entry((a.source_channel.to_string(), aid))
                        .or_default();
                    match e.checked_add(a.amount) {
                        Some(v) => *e = v,
                        None => out.push(finding(
                            "C18",
                            "escrow-overflow",
                            "escrow-overflow-but-succeeded",
                            "escrow overflowed but withdrawal succeeded".to_string(),
                        )),
                    }
                } else {
                    let b = self.block_burned.entry(aid).or_default();
                    *b = b.saturating_add(a.amount);
                }
            }
            Action::Ibc(relay) => {
                self.charge(
                    "IbcRelay",
                    "penumbra.core.component.ibc.v1.IbcRelay".to_string(),
                    None,
                    0,
                    signer,
                    pos,
                    fees,
                    out,
                );
                if !self.relayers.contains(signer) {
                    out.push(finding(
                        "C02",
                        "unauthorised-privileged-action",
                        "IbcRelay-by-non-relayer",
                        format!("IbcRelay succeeded signed by non-relayer {}", hex(signer)),
                    ));
                }
                match relay {
                    penumbra_ibc::IbcRelay::RecvPacket(msg) => {
                        let ok = self.ibc_recv(&msg.packet, view, pos);
                        self.recv_predictions.push((view.id, pos, msg.packet.sequence.0, ok));
                    }
                    penumbra_ibc::IbcRelay::Acknowledgement(msg) => {
                        let success = serde_json::from_slice::<serde_json::Value>(&msg.acknowledgement)
                            .ok()
                            .is_some_and(|v| v.get("result").is_some());
                        if !success {
                            self.ibc_refund(&msg.packet, view, pos, out);
                        }
                    }
                    penumbra_ibc::IbcRelay::Timeout(msg) => {
                        self.ibc_refund(&msg.packet, view, pos, out);
                    }
                    _ => {
                        self.unmodelled.insert("ibc");
                    }
                }
            }
            Action::RecoverIbcClient(_) => {
                self.require_sudo("RecoverIbcClient", signer, out);
                self.unmodelled.insert("ibc");
            }
            Action::CurrencyPairsChange(_) => {
                self.charge(
                    "CurrencyPairsChange",
                    <act::CurrencyPairsChange as astria_core::Protobuf>::full_name(),
                    None,
                    0,
                    signer,
                    pos,
                    fees,
                    out,
                );
                self.require_sudo("CurrencyPairsChange", signer, out);
            }
            Action::MarketsChange(_) => {
                self.charge(
                    "MarketsChange",
                    <act::MarketsChange as astria_core::Protobuf>::full_name(),
                    None,
                    0,
                    signer,
                    pos,
                    fees,
                    out,
                );
                self.require_sudo("MarketsChange", signer, out);
            }
        }
    }

    fn parse_seq_addr(input: &str) -> Option<Addr> {
        use astria_core::primitive::v1::{
            Address,
            Bech32,
            Bech32m,
        };
        if let Ok(a) = input.parse::<Address<Bech32m>>() {
            if a.prefix() == crate::test_utils::ASTRIA_PREFIX {
                return Some(a.bytes());
            }
        }
        if let Ok(a) = input.parse::<Address<Bech32>>() {
            if a.prefix() == crate::test_utils::ASTRIA_COMPAT_PREFIX {
                return Some(a.bytes());
            }
        }
        None
    }

    fn parse_trace(&self, input: &str) -> Option<String> {
        match input.parse::<Denom>().ok()? {
            Denom::TracePrefixed(t) => Some(t.to_string()),
            Denom::IbcPrefixed(i) => self.known_traces.get(i.as_bytes()).cloned(),
        }
    }

    /// ICS-20 receive. All-or-nothing: returns whether the packet must be acknowledged with
    /// success; on `false` nothing changes.
    fn ibc_recv(&mut self, packet: &ibc_types::core::channel::Packet, view: &TxView<'_>, pos: u64) -> bool {
        use penumbra_proto::penumbra::core::component::ibc::v1::FungibleTokenPacketData;
        let Ok(data) = serde_json::from_slice::<FungibleTokenPacketData>(&packet.data) else {
            return false;
        };
        let Ok(amount) = data.amount.parse::<u128>() else {
            return false;
        };
        let Some(recipient) = Self::parse_seq_addr(&data.receiver) else {
            return false;
        };
        let Some(trace) = self.parse_trace(&data.denom) else {
            return false;
        };
        let prefix = format!("{}/{}/", packet.port_on_a, packet.chan_on_a);
        let is_source = trace.starts_with(&prefix);
        let asset_str = if is_source {
            trace[prefix.len()..].to_string()
        } else {
            format!("{}/{}/{}", packet.port_on_b, packet.chan_on_b, trace)
        };
        let Ok(asset) = asset_str.parse::<Denom>() else {
            return false;
        };
        let aid = asset_id(&asset);
        if self.blackburn_active && !self.fee_assets.contains(&aid) {
            return false;
        }
        let mut deposit = None;
        if let Some(b) = self.bridges.get(&recipient) {
            if b.disabled {
                return false;
            }
            let Ok(memo) = serde_json::from_str::<astria_core::protocol::memos::v1::Ics20TransferDeposit>(&data.memo) else {
                return false;
            };
            if memo.rollup_deposit_address.is_empty() || memo.rollup_deposit_address.len() > 256 {
                return false;
            }
            if b.asset != aid {
                return false;
            }
            deposit = Some(Deposit {
                bridge_address: crate::test_utils::astria_address(&recipient),
                rollup_id: astria_core::primitive::v1::RollupId::new(b.rollup),
                amount,
                asset: asset.clone(),
                destination_chain_address: memo.rollup_deposit_address,
                source_transaction_id: astria_core::primitive::v1::TransactionId::new(view.id),
                source_action_index: pos,
            });
        }
        let chan = packet.chan_on_b.to_string();
        if is_source {
            let e = self.escrow.get(&(chan.clone(), aid)).copied().unwrap_or(0);
            if e < amount {
                return false;
            }
        }
        let cur = self.bal(&recipient, &aid);
        let Some(new_bal) = cur.checked_add(amount) else {
            return false;
        };
        // commit
        if is_source {
            *self.escrow.entry((chan, aid)).or_default() -= amount;
        } else {
            let m = self.block_minted.entry(aid).or_default();
            *m = m.saturating_add(amount);
            self.known_traces.insert(aid, asset_str);
        }
        self.balances.insert((recipient, aid), new_bal);
        if let Some(d) = deposit {
            self.block_deposits.push(d);
        }
        true
    }

    /// Refund of a packet this chain sent (error acknowledgement or timeout) in a transaction that
    /// succeeded.
    fn ibc_refund(&mut self, packet: &ibc_types::core::channel::Packet, view: &TxView<'_>, pos: u64, out: &mut Vec<Finding>) {
        use penumbra_proto::penumbra::core::component::ibc::v1::FungibleTokenPacketData;
        let parsed = (|| {
            let data = serde_json::from_slice::<FungibleTokenPacketData>(&packet.data).ok()?;
            let amount = data.amount.parse::<u128>().ok()?;
            let receiver = Self::parse_seq_addr(&data.sender)?;
            let trace = self.parse_trace(&data.denom)?;
            Some((data, amount, receiver, trace))
        })();
        let Some((data, amount, receiver, trace)) = parsed else {
            out.push(finding("C18", "refund-of-unparseable-packet", "refund-unparseable", "a refund succeeded for a packet whose data cannot be parsed".into()));
            return;
        };
        let Ok(asset) = trace.parse::<Denom>() else { return };
        let aid = asset_id(&asset);
        self.probes.push("ibc.refund.applied");
        if let Ok(memo) = serde_json::from_str::<astria_core::protocol::memos::v1::Ics20WithdrawalFromRollup>(&data.memo) {
            match self.bridges.get(&receiver) {
                Some(b) if b.asset == aid => {
                    self.probes.push("ibc.refund.applied.to-bridge-with-deposit");
                    self.block_deposits.push(Deposit {
                        bridge_address: crate::test_utils::astria_address(&receiver),
                        rollup_id: astria_core::primitive::v1::RollupId::new(b.rollup),
                        amount,
                        asset: asset.clone(),
                        destination_chain_address: memo.rollup_return_address,
                        source_transaction_id: astria_core::primitive::v1::TransactionId::new(view.id),
                        source_action_index: pos,
                    });
                }
                _ => out.push(finding("C04", "refund-deposit-to-non-bridge", "refund-to-rollup-without-bridge", format!("a rollup withdrawal was refunded to {} which is not a bridge account of that asset", hex(&receiver)))),
            }
        }
        let prefix = format!("{}/{}/", packet.port_on_a, packet.chan_on_a);
        if !trace.starts_with(&prefix) {
            let chan = packet.chan_on_a.to_string();
            let e = self.escrow.entry((chan.clone(), aid)).or_default();
            if *e < amount {
                out.push(finding("C18", "refund-exceeds-escrow", "refund-exceeds-escrow", format!("refund of {amount} over {chan} succeeded with only {} escrowed", *e)));
                *e = 0;
            } else {
                *e -= amount;
            }
        } else {
            let m = self.block_minted.entry(aid).or_default();
            *m = m.saturating_add(amount);
        }
        if let Err(e) = self.credit(&receiver, &aid, amount) {
            out.push(finding("C01", "credit-overflow", "ibc-refund-credit-overflow", format!("refund to {}: {e}", hex(&receiver))));
        }
    }

    /// Pre-Aspen the stored validator set changes at the end of the block by applying the block's
    /// (last-write-wins) updates.
    pub(crate) fn end_block_validators(&mut self) {
        if !self.aspen_active {
            for (addr, (power, vk)) in self.block_validator_updates.clone() {
                if power == 0 {
                    self.validators.remove(&addr);
                } else {
                    self.validators.insert(addr, (power, vk));
                }
            }
        }
    }
}

/// ICS-20: the sender chain is the source unless the denom's first hop is (port, channel) of the
/// channel it is sent over.
pub(crate) fn ics20_is_source(denom: &Denom, channel: &str) -> bool {
    let s = denom.to_string();
    match denom {
        Denom::TracePrefixed(_) => !s.starts_with(&format!("transfer/{channel}/")),
        Denom::IbcPrefixed(_) => false,
    }
}

pub(crate) fn fee_change_parts(a: &FeeChange) -> (&'static str, u128, u128) {
    match a {
        FeeChange::Transfer(f) => ("Transfer", f.base(), f.multiplier()),
        FeeChange::RollupDataSubmission(f) => ("RollupDataSubmission", f.base(), f.multiplier()),
        FeeChange::Ics20Withdrawal(f) => ("Ics20Withdrawal", f.base(), f.multiplier()),
        FeeChange::InitBridgeAccount(f) => ("InitBridgeAccount", f.base(), f.multiplier()),
        FeeChange::BridgeLock(f) => ("BridgeLock", f.base(), f.multiplier()),
        FeeChange::BridgeUnlock(f) => ("BridgeUnlock", f.base(), f.multiplier()),
        FeeChange::BridgeSudoChange(f) => ("BridgeSudoChange", f.base(), f.multiplier()),
        FeeChange::IbcRelay(f) => ("IbcRelay", f.base(), f.multiplier()),
        FeeChange::ValidatorUpdate(f) => ("ValidatorUpdate", f.base(), f.multiplier()),
        FeeChange::FeeAssetChange(f) => ("FeeAssetChange", f.base(), f.multiplier()),
        FeeChange::FeeChange(f) => ("FeeChange", f.base(), f.multiplier()),
        FeeChange::IbcRelayerChange(f) => ("IbcRelayerChange", f.base(), f.multiplier()),
        FeeChange::SudoAddressChange(f) => ("SudoAddressChange", f.base(), f.multiplier()),
        FeeChange::IbcSudoChange(f) => ("IbcSudoChange", f.base(), f.multiplier()),
        FeeChange::BridgeTransfer(f) => ("BridgeTransfer", f.base(), f.multiplier()),
        FeeChange::RecoverIbcClient(f) => ("RecoverIbcClient", f.base(), f.multiplier()),
        FeeChange::CurrencyPairsChange(f) => ("CurrencyPairsChange", f.base(), f.multiplier()),
        FeeChange::MarketsChange(f) => ("MarketsChange", f.base(), f.multiplier()),
    }
}

pub(crate) fn hex(b: &[u8]) -> String {
    super::super::common::short_hex(b)
}
