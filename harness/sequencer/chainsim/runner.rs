//! Executes a `Scenario` against N real sequencer nodes under the model CometBFT and evaluates the
//! oracles of C01–C06, C14, C15 (see DESIGN.md section 5).

use std::{
    collections::{
        BTreeMap,
        BTreeSet,
    },
    panic::AssertUnwindSafe,
};

use astria_core::{
    generated::astria::protocol::transaction::v1 as raw_tx,
    primitive::v1::asset::Denom,
    protocol::{
        fees::v1::FeeComponents,
        transaction::v1::{
            action::{
                self as act,
                FeeAssetChange,
                FeeChange,
                IbcRelayerChange,
                ValidatorUpdate,
            },
            Action,
            Transaction,
            TransactionBody,
        },
    },
    sequencerblock::v1::block::ExpandedBlockData,
    Protobuf as _,
};
use bytes::Bytes;
use futures::FutureExt as _;
use prost::Message as _;
use sha2::Digest as _;
use tendermint::{
    abci::{
        self,
        types::{
            BlockSignatureInfo,
            CommitInfo,
            ExtendedCommitInfo,
            ExtendedVoteInfo,
        },
    },
    account,
    block::{
        BlockIdFlag,
        Round,
    },
    Hash,
};

use super::{
    super::common::{
        catch,
        take_last_panic,
        Outcome,
        Rng,
        Stats,
        Trace,
        Violations,
    },
    model::{
        self,
        Bridge,
        Model,
        TxView,
    },
    ops::*,
    world::{
        self,
        asset_id,
        denom,
        Addr,
        AssetId,
        BlockHeader,
        Keys,
        Node,
        CHAIN_ID,
    },
    Scenario,
};
use crate::{
    authority::StateReadExt as _,
    bridge::StateReadExt as _,
    fees::StateReadExt as _,
    ibc::StateReadExt as _,
};

pub(crate) fn run(sc: &Scenario) -> Outcome {
    let rt = tokio::runtime::Builder::new_current_thread()
        .enable_all()
        .start_paused(true)
        .build()
        .expect("runtime");
    rt.block_on(async move {
        let mut sim = Sim::new(sc).await;
        sim.run().await;
        sim.finish()
    })
}

/// The observable ledger of a committed snapshot, parsed from the raw verifiable key space.
#[derive(Clone, Default, PartialEq, Eq)]
pub(crate) struct Ledger {
    pub(crate) balances: BTreeMap<(Addr, AssetId), u128>,
    pub(crate) nonces: BTreeMap<Addr, u32>,
    pub(crate) escrow: BTreeMap<(String, AssetId), u128>,
}

fn last_number(dbg: &str) -> Option<u128> {
    // e.g. `Accounts(Value(Balance(Balance(123))))`
    let end = dbg.rfind(|c: char| c.is_ascii_digit())?;
    let start = dbg[..=end].rfind(|c: char| !c.is_ascii_digit()).map_or(0, |i| i + 1);
    dbg[start..=end].parse().ok()
}

fn parse_ledger(dump: &BTreeMap<String, Vec<u8>>) -> Ledger {
    use base64::Engine as _;
    let mut l = Ledger::default();
    for (k, v) in dump {
        if let Some(rest) = k.strip_prefix("accounts/") {
            let Some((b64, tail)) = rest.split_once('/') else { continue };
            let Ok(addr) = base64::engine::general_purpose::URL_SAFE.decode(b64) else { continue };
            let Ok(addr) = <[u8; 20]>::try_from(addr.as_slice()) else { continue };
            let val = crate::storage::StoredValue::deserialize(v).map(|s| format!("{s:?}")).unwrap_or_default();
            if tail == "nonce" {
                if let Some(n) = last_number(&val) {
                    l.nonces.insert(addr, n as u32);
                }
            } else if tail.starts_with("balance/") && tail.len() >= 64 {
                let hexpart = &tail[tail.len() - 64..];
                if let (Ok(asset), Some(n)) = (hex::decode(hexpart), last_number(&val)) {
                    if let Ok(asset) = <[u8; 32]>::try_from(asset.as_slice()) {
                        l.balances.insert((addr, asset), n);
                    }
                }
            }
        } else if let Some(rest) = k.strip_prefix("ibc/channel-") {
            // ibc/channel-N/balance/ibc/<hex>
            let Some((chan, tail)) = rest.split_once('/') else { continue };
            if tail.starts_with("balance/") && tail.len() >= 64 {
                let hexpart = &tail[tail.len() - 64..];
                let val = crate::storage::StoredValue::deserialize(v).map(|s| format!("{s:?}")).unwrap_or_default();
                if let (Ok(asset), Some(n)) = (hex::decode(hexpart), last_number(&val)) {
                    if let Ok(asset) = <[u8; 32]>::try_from(asset.as_slice()) {
                        l.escrow.insert((format!("channel-{chan}"), asset), n);
                    }
                }
            }
        }
    }
    l
}

#[derive(Clone)]
struct Proposal {
    /// identity of this proposal within the run (assigned when it is prepared). The byte content
    /// of a prepared block can vary between runs (the application iterates a HashSet when it
    /// assembles the id->pair mapping), so schedule decisions are keyed on this, never on bytes.
    uid: u64,
    hd: BlockHeader,
    hash: Hash,
    txs: Vec<Bytes>,
    /// node that prepared it
    by: usize,
}

struct Decided {
    hd: BlockHeader,
    hash: Hash,
    txs: Vec<Bytes>,
    last_commit: CommitInfo,
    resp_dbg: String,
    root: Vec<u8>,
}

type ValSet = BTreeMap<Addr, (u64, [u8; 32])>;

struct Sim<'a> {
    sc: &'a Scenario,
    cfg: Config,
    keys: Keys,
    nodes: Vec<Node>,
    model: Model,
    trace: Trace,
    stats: Stats,
    viol: Violations,
    step: u64,
    height: u64,
    history: Vec<Decided>,
    /// CometBFT's fully updated validator set (NextValidators)
    cmt_next: ValSet,
    /// the set that votes at height h (updates of block H take effect at H+2)
    cmt_sets: BTreeMap<u64, ValSet>,
    cmt_halted: bool,
    /// extended commit of the last decided height (input of the next PrepareProposal)
    ext_commit: ExtendedCommitInfo,
    tx_bytes_by_op: BTreeMap<u32, Bytes>,
    /// ledger of the last committed block (the honest clients' view)
    ledger: Ledger,
    prev_totals: BTreeMap<AssetId, (u128, u128)>,
    stop: bool,
    paths_seen: BTreeSet<String>,
    /// packets this chain has sent (reconstructed from `send_packet` events of decided blocks)
    sent_packets: Vec<ibc_types::core::channel::Packet>,
    /// multi-action transactions accepted by some CheckTx and not (yet) executed successfully
    pending_bundles: BTreeSet<[u8; 32]>,
    cur_block_op: u32,
    /// per node: hashes of the proposals of the current height it accepted in ProcessProposal
    validated: Vec<BTreeSet<u64>>,
    next_uid: u64,
    /// full verifiable key space after the previous decided block
    prev_dump: BTreeMap<String, Vec<u8>>,
}

fn vote_flag(f: u8) -> BlockSignatureInfo {
    BlockSignatureInfo::Flag(match f {
        0 => BlockIdFlag::Commit,
        1 => BlockIdFlag::Nil,
        _ => BlockIdFlag::Absent,
    })
}

async fn guarded<T, E: std::fmt::Display>(
    fut: impl std::future::Future<Output = Result<T, E>>,
) -> Result<T, (bool, String)> {
    match AssertUnwindSafe(fut).catch_unwind().await {
        Ok(Ok(v)) => Ok(v),
        Ok(Err(e)) => Err((false, format!("{e:#}"))),
        Err(_) => Err((true, take_last_panic().unwrap_or_else(|| "panic".into()))),
    }
}

fn pair_name(i: u8) -> &'static str {
    ["BTC/USD", "ETH/USD", "TIA/USD", "SOL/USD"][i as usize % 4]
}

fn fee_change(which: u8, base: u128, mult: u128) -> FeeChange {
    macro_rules! fc {
        ($v:ident) => {
            FeeChange::$v(FeeComponents::new(base, mult))
        };
    }
    match which % 18 {
        0 => fc!(RollupDataSubmission),
        1 => fc!(Transfer),
        2 => fc!(Ics20Withdrawal),
        3 => fc!(InitBridgeAccount),
        4 => fc!(BridgeLock),
        5 => fc!(BridgeUnlock),
        6 => fc!(BridgeTransfer),
        7 => fc!(BridgeSudoChange),
        8 => fc!(IbcRelay),
        9 => fc!(ValidatorUpdate),
        10 => fc!(FeeAssetChange),
        11 => fc!(FeeChange),
        12 => fc!(IbcRelayerChange),
        13 => fc!(SudoAddressChange),
        14 => fc!(IbcSudoChange),
        15 => fc!(RecoverIbcClient),
        16 => fc!(CurrencyPairsChange),
        _ => fc!(MarketsChange),
    }
}

impl<'a> Sim<'a> {
    async fn new(sc: &'a Scenario) -> Sim<'a> {
        let cfg = sc.cfg.clone();
        let keys = Keys::new(cfg.seed, cfg.n_accounts as usize, N_VKEYS as usize);
        let mut nodes = Vec::new();
        for i in 0..cfg.n_nodes {
            nodes.push(Node::new(i, &cfg, &keys).await);
        }
        let mut trace = Trace::new();
        trace.ev(&format!("genesis nodes={} accounts={} validators={:?} aspen={:?} blackburn={:?}", cfg.n_nodes, cfg.n_accounts, cfg.validators, cfg.aspen, cfg.blackburn));
        let dump = world::dump_state(&nodes[0].storage).await;
        let ledger = parse_ledger(&dump);
        let mut model = Model::default();
        model.balances = ledger.balances.clone();
        model.nonces = ledger.nonces.clone();
        model.sudo = keys.addr(cfg.sudo);
        model.ibc_sudo = keys.addr(cfg.ibc_sudo);
        model.relayers = cfg.relayers.iter().map(|r| keys.addr(*r)).collect();
        model.fee_assets = cfg.fee_assets.iter().map(|a| asset_id(&denom(*a))).collect();
        model.fees = world::fee_table(cfg.fee_variant).into_iter().map(|(k, v)| (k.to_string(), v)).collect();
        // FeeChange itself can never be disabled at genesis
        model.fees.entry("FeeChange".into()).and_modify(|v| {
            if v.is_none() {
                *v = Some((0, 0));
            }
        });
        for d in world::asset_denoms() {
            model.known_traces.insert(asset_id(&d), d.to_string());
        }
        // escrow present at genesis (none) is read from the chain
        model.escrow = ledger.escrow.clone();
        let mut genesis_set = ValSet::new();
        for v in world::genesis_validators(&cfg, &keys) {
            let addr = *v.verification_key.address_bytes();
            genesis_set.insert(addr, (u64::from(v.power), v.verification_key.to_bytes()));
            model.validators.insert(addr, (v.power, v.verification_key.to_bytes()));
        }
        let mut cmt_sets = BTreeMap::new();
        cmt_sets.insert(1, genesis_set.clone());
        cmt_sets.insert(2, genesis_set.clone());
        let mut sim = Sim {
            sc,
            cfg,
            keys,
            nodes,
            model,
            trace,
            stats: Stats::default(),
            viol: Violations::default(),
            step: 0,
            height: 0,
            history: Vec::new(),
            cmt_next: genesis_set,
            cmt_sets,
            cmt_halted: false,
            ext_commit: ExtendedCommitInfo { round: Round::from(0u8), votes: vec![] },
            tx_bytes_by_op: BTreeMap::new(),
            ledger: ledger.clone(),
            prev_totals: BTreeMap::new(),
            stop: false,
            paths_seen: BTreeSet::new(),
            sent_packets: Vec::new(),
            pending_bundles: BTreeSet::new(),
            cur_block_op: 0,
            validated: Vec::new(),
            next_uid: 0,
            prev_dump: dump.clone(),
        };
        super::ibc_stub::enable(true);
        sim.prev_totals = sim.totals(&ledger);
        // all nodes must agree at genesis
        let root0 = sim.nodes[0].storage.latest_snapshot().root_hash().await.map(|r| r.0.to_vec()).unwrap_or_default();
        for i in 1..sim.nodes.len() {
            let r = sim.nodes[i].storage.latest_snapshot().root_hash().await.map(|r| r.0.to_vec()).unwrap_or_default();
            if r != root0 {
                sim.viol.push("C05", "genesis-root-differs", "genesis", 0, format!("node {i} genesis root differs from node 0"));
            }
        }
        sim
    }

    fn totals(&self, l: &Ledger) -> BTreeMap<AssetId, (u128, u128)> {
        // 256-bit sum as (high, low)
        let mut t: BTreeMap<AssetId, (u128, u128)> = BTreeMap::new();
        let mut add = |asset: &AssetId, v: u128| {
            let e = t.entry(*asset).or_insert((0, 0));
            let (lo, c) = e.1.overflowing_add(v);
            e.1 = lo;
            if c {
                e.0 += 1;
            }
        };
        for ((_, asset), v) in &l.balances {
            add(asset, *v);
        }
        for ((_, asset), v) in &l.escrow {
            add(asset, *v);
        }
        t
    }

    fn finish(mut self) -> Outcome {
        self.stats.probe_n("tx.bundle.failed-after-first-action", self.pending_bundles.len() as u64);
        self.stats.probe_n("withdrawal.honoured", self.model.withdrawals_honoured);
        self.mark_nontrivial();
        self.stats.steps = self.step;
        self.stats.sim_ms = self.height * 2000;
        self.stats.finish(&self.trace);
        Outcome {
            violations: self.viol.list,
            stats: self.stats,
            trace_lines: self.trace.lines,
        }
    }

    async fn run(&mut self) {
        let ops = self.sc.ops.clone();
        for op in &ops {
            if self.stop {
                break;
            }
            self.step += 1;
            match op {
                Op::Tx(t) => self.do_tx(t).await,
                Op::Ibc(i) => self.do_ibc(i).await,
                Op::Block(b) => self.do_block(b).await,
            }
        }
    }

    fn mark_nontrivial(&mut self) {
        let p = |s: &Stats, k: &str| s.probes.get(k).copied().unwrap_or(0);
        let f = |s: &Stats, k: &str| s.faults.get(k).copied().unwrap_or(0);
        let st = &self.stats;
        let faults: u64 = st.faults.values().sum();
        let mut marks = Vec::new();
        if p(st, "tx.success.fee-paying") > 0 && p(st, "tx.excluded-or-failed") > 0 && faults > 0 {
            marks.push("C01");
        }
        if p(st, "tx.unauthorised-attempt") > 0 && p(st, "authority.handover") > 0 {
            marks.push("C02");
        }
        if p(st, "tx.bundle.failed-after-first-action") > 0 || p(st, "tx.replay-attempt") > 0 {
            marks.push("C03");
        }
        if p(st, "served.block-with>=2-rollups") > 0 && p(st, "served.block-with-deposits") > 0 {
            marks.push("C07");
        }
        if (p(st, "ibc.recv.refused") > 0 && p(st, "ibc.recv.applied") > 0) || p(st, "ibc.packet-sent") > 0 {
            marks.push("C18");
        }
        if p(st, "deposit.emitted") > 0 && (p(st, "withdrawal.id-reuse-attempt") > 0 || p(st, "withdrawal.honoured") > 0) {
            marks.push("C04");
        }
        if p(st, "block.distinct-paths>=3") > 0 || (p(st, "block.distinct-paths>=2") > 0 && self.nodes.len() == 2) {
            marks.push("C05");
        }
        if p(st, "proposal.limit-hit") > 0 || f(st, "byz.proposal") > 0 {
            marks.push("C06");
        }
        if p(st, "validators.same-key-twice-in-block") > 0 || p(st, "validators.update-across-aspen") > 0 || p(st, "validators.update") > 1 {
            marks.push("C14");
        }
        if p(st, "ve.near-threshold") > 0 || f(st, "byz.ext-commit") > 0 || f(st, "ve.malformed") > 0 {
            marks.push("C15");
        }
        for m in marks {
            self.stats.mark_nontrivial(m);
        }
    }

    // --------------------------------------------------------------------------------------------
    // transactions
    // --------------------------------------------------------------------------------------------

    fn up_nodes(&self) -> Vec<usize> {
        (0..self.nodes.len()).filter(|i| self.nodes[*i].is_up()).collect()
    }

    fn resolve_amt(&self, amt: &Amt, payer: &Addr, asset: &AssetId) -> u128 {
        let bal = self.ledger.balances.get(&(*payer, *asset)).copied().unwrap_or(0);
        match amt {
            Amt::Abs(v) => *v,
            Amt::PerMille(p) => {
                let p = u128::from(*p);
                (bal / 1000) * p + (bal % 1000) * p / 1000
            }
            Amt::BalPlus(k) => bal.saturating_add(u128::from(*k)),
            Amt::Max => u128::MAX,
        }
    }

    /// Workload probes: what the generated transaction is an attempt at.
    fn probe_intent(&mut self, actions: &[Action], signer: &Addr) {
        for a in actions {
            let unauth = match a {
                Action::SudoAddressChange(_) | Action::IbcSudoChange(_) | Action::FeeChange(_) | Action::FeeAssetChange(_) | Action::ValidatorUpdate(_) | Action::CurrencyPairsChange(_) | Action::MarketsChange(_) => *signer != self.model.sudo,
                Action::IbcRelayerChange(_) => *signer != self.model.ibc_sudo,
                Action::Ibc(_) => !self.model.relayers.contains(signer),
                Action::BridgeUnlock(u) => self.model.bridges.get(&u.bridge_address.bytes()).is_some_and(|b| b.withdrawer != Some(*signer)),
                Action::BridgeTransfer(u) => self.model.bridges.get(&u.bridge_address.bytes()).is_some_and(|b| b.withdrawer != Some(*signer)),
                Action::BridgeSudoChange(u) => self.model.bridges.get(&u.bridge_address.bytes()).is_some_and(|b| b.sudo != Some(*signer)),
                Action::Transfer(_) | Action::BridgeLock(_) => self.model.bridges.contains_key(signer),
                Action::Ics20Withdrawal(w) => match &w.bridge_address {
                    Some(b) => self.model.bridges.get(&b.bytes()).is_some_and(|x| x.withdrawer != Some(*signer)),
                    None => self.model.bridges.contains_key(signer),
                },
                _ => false,
            };
            if unauth {
                self.stats.probe("tx.unauthorised-attempt");
            }
            let reuse = match a {
                Action::BridgeUnlock(u) => self.model.used_withdrawals.contains(&(u.bridge_address.bytes(), u.rollup_withdrawal_event_id.clone())),
                Action::BridgeTransfer(u) => self.model.used_withdrawals.contains(&(u.bridge_address.bytes(), u.rollup_withdrawal_event_id.clone())),
                Action::Ics20Withdrawal(w) => w.bridge_address.as_ref().is_some_and(|b| {
                    serde_json::from_str::<astria_core::protocol::memos::v1::Ics20WithdrawalFromRollup>(&w.memo)
                        .is_ok_and(|m| self.model.used_withdrawals.contains(&(b.bytes(), m.rollup_withdrawal_event_id)))
                }),
                _ => false,
            };
            if reuse {
                self.stats.probe("withdrawal.id-reuse-attempt");
            }
        }
    }

    fn build_action(&self, a: &ActOp, signer: &Addr) -> Action {
        let k = &self.keys;
        match a {
            ActOp::Transfer { to, asset, amt, fee_asset } => {
                let d = denom(*asset);
                Action::Transfer(act::Transfer {
                    to: k.address(*to),
                    amount: self.resolve_amt(amt, signer, &asset_id(&d)),
                    asset: d,
                    fee_asset: denom(*fee_asset),
                })
            }
            ActOp::Rollup { rollup, len, fee_asset } => {
                let mut rng = Rng::new(u64::from(*len) ^ 0xda7a);
                Action::RollupDataSubmission(act::RollupDataSubmission {
                    rollup_id: world::rollup_id(*rollup),
                    data: Bytes::from(rng.bytes(*len as usize)),
                    fee_asset: denom(*fee_asset),
                })
            }
            ActOp::InitBridge { rollup, asset, fee_asset, sudo, withdrawer } => Action::InitBridgeAccount(act::InitBridgeAccount {
                rollup_id: world::rollup_id(*rollup),
                asset: denom(*asset),
                fee_asset: denom(*fee_asset),
                sudo_address: sudo.map(|s| k.address(s)),
                withdrawer_address: withdrawer.map(|s| k.address(s)),
            }),
            ActOp::BridgeLock { to, asset, amt, fee_asset, dest_len } => {
                let d = denom(*asset);
                Action::BridgeLock(act::BridgeLock {
                    to: k.address(*to),
                    amount: self.resolve_amt(amt, signer, &asset_id(&d)),
                    asset: d,
                    fee_asset: denom(*fee_asset),
                    destination_chain_address: "d".repeat(*dest_len as usize),
                })
            }
            ActOp::BridgeUnlock { bridge, to, amt, fee_asset, event } => {
                let b = k.addr(*bridge);
                let asset = self.model.bridges.get(&b).map_or(asset_id(&denom(0)), |x| x.asset);
                Action::BridgeUnlock(act::BridgeUnlock {
                    to: k.address(*to),
                    amount: self.resolve_amt(amt, &b, &asset),
                    fee_asset: denom(*fee_asset),
                    bridge_address: k.address(*bridge),
                    memo: String::new(),
                    rollup_block_number: 1 + u64::from(*event),
                    rollup_withdrawal_event_id: format!("event-{event}"),
                })
            }
            ActOp::BridgeTransfer { bridge, to, amt, fee_asset, event } => {
                let b = k.addr(*bridge);
                let asset = self.model.bridges.get(&b).map_or(asset_id(&denom(0)), |x| x.asset);
                Action::BridgeTransfer(act::BridgeTransfer {
                    to: k.address(*to),
                    amount: self.resolve_amt(amt, &b, &asset),
                    fee_asset: denom(*fee_asset),
                    destination_chain_address: "rollup-dest".to_string(),
                    bridge_address: k.address(*bridge),
                    rollup_block_number: 1 + u64::from(*event),
                    rollup_withdrawal_event_id: format!("event-{event}"),
                })
            }
            ActOp::BridgeSudoChange { bridge, new_sudo, new_withdrawer, fee_asset, disable } => Action::BridgeSudoChange(act::BridgeSudoChange {
                bridge_address: k.address(*bridge),
                new_sudo_address: new_sudo.map(|s| k.address(s)),
                new_withdrawer_address: new_withdrawer.map(|s| k.address(s)),
                fee_asset: denom(*fee_asset),
                disable_deposits: *disable,
            }),
            ActOp::SudoChange { to } => Action::SudoAddressChange(act::SudoAddressChange { new_address: k.address(*to) }),
            ActOp::IbcSudoChange { to } => Action::IbcSudoChange(act::IbcSudoChange { new_address: k.address(*to) }),
            ActOp::RelayerChange { add, who } => Action::IbcRelayerChange(if *add {
                IbcRelayerChange::Addition(k.address(*who))
            } else {
                IbcRelayerChange::Removal(k.address(*who))
            }),
            ActOp::FeeAssetChange { add, asset } => Action::FeeAssetChange(if *add {
                FeeAssetChange::Addition(denom(*asset))
            } else {
                FeeAssetChange::Removal(denom(*asset))
            }),
            ActOp::FeeChange { which, base, mult } => Action::FeeChange(fee_change(*which, *base, *mult)),
            ActOp::ValidatorUpdate { vkey, power } => Action::ValidatorUpdate(ValidatorUpdate {
                power: *power,
                verification_key: k.vkey(*vkey).verification_key(),
                name: format!("val{vkey}").parse().unwrap(),
            }),
            ActOp::CurrencyPairs { add, pair } => {
                let set: indexmap::IndexSet<_> = [pair_name(*pair).parse().unwrap()].into_iter().collect();
                Action::CurrencyPairsChange(if *add {
                    act::CurrencyPairsChange::Addition(set)
                } else {
                    act::CurrencyPairsChange::Removal(set)
                })
            }
            ActOp::Markets { kind, pair, decimals } => {
                use astria_core::oracles::price_feed::market_map::v2::{
                    Market,
                    ProviderConfig,
                    Ticker,
                };
                let market = Market {
                    ticker: Ticker {
                        currency_pair: pair_name(*pair).parse().unwrap(),
                        decimals: *decimals,
                        min_provider_count: 1,
                        enabled: true,
                        metadata_json: String::new(),
                    },
                    provider_configs: vec![ProviderConfig {
                        name: "sim".to_string(),
                        off_chain_ticker: pair_name(*pair).to_lowercase(),
                        normalize_by_pair: None,
                        invert: false,
                        metadata_json: String::new(),
                    }],
                };
                Action::MarketsChange(match kind % 3 {
                    0 => act::MarketsChange::Creation(vec![market]),
                    1 => act::MarketsChange::Removal(vec![market]),
                    _ => act::MarketsChange::Update(vec![market]),
                })
            }
            ActOp::Ics20Withdrawal { asset, amt, channel, fee_asset, bridge, event, ret, rollup_memo } => {
                let d = denom(*asset);
                let payer = bridge.map_or(*signer, |b| k.addr(b));
                let memo = if bridge.is_some() || *rollup_memo {
                    serde_json::to_string(&astria_core::protocol::memos::v1::Ics20WithdrawalFromRollup {
                        rollup_block_number: 1 + u64::from(*event),
                        rollup_withdrawal_event_id: format!("event-{event}"),
                        rollup_return_address: "rollup-return".to_string(),
                        memo: String::new(),
                    })
                    .unwrap()
                } else {
                    String::new()
                };
                Action::Ics20Withdrawal(act::Ics20Withdrawal {
                    amount: self.resolve_amt(amt, &payer, &asset_id(&d)),
                    denom: d,
                    destination_chain_address: "cosmos1dest".to_string(),
                    return_address: astria_core::primitive::v1::Address::builder()
                        .array(ret.map_or(*signer, |r| k.addr(r)))
                        .prefix(crate::test_utils::ASTRIA_PREFIX)
                        .try_build()
                        .unwrap(),
                    timeout_height: ibc_types::core::client::Height::new(2, 1_000_000).unwrap(),
                    timeout_time: 4_000_000_000_000_000_000,
                    source_channel: format!("channel-{channel}").parse().unwrap(),
                    fee_asset: denom(*fee_asset),
                    memo,
                    bridge_address: bridge.map(|b| k.address(b)),
                    use_compat_address: false,
                })
            }
        }
    }

    fn ibc_packet_for(&mut self, kind: &IbcKind) -> Option<penumbra_ibc::IbcRelay> {
        use ibc_types::core::{
            channel::{
                msgs::{
                    MsgAcknowledgement,
                    MsgRecvPacket,
                    MsgTimeout,
                },
                packet::Sequence,
                ChannelId,
                Packet,
                PortId,
                TimeoutHeight,
            },
            client::Height,
            commitment::MerkleProof,
        };
        use penumbra_proto::penumbra::core::component::ibc::v1::FungibleTokenPacketData;
        let proof = MerkleProof { proofs: vec![ibc_proto::ics23::CommitmentProof { proof: None }] };
        let proof_height = Height::new(2, 5).unwrap();
        match kind {
            IbcKind::Recv { channel, denom: dn, amt, to, memo, seq, expired } => {
                let ch = u64::from(*channel % 2);
                let our_chan = ChannelId::new(ch);
                let their_chan: ChannelId = world::COUNTERPARTY_CHANNELS[ch as usize].parse().unwrap();
                let (denom_str, escrow_key) = match dn {
                    RecvDenom::Foreign(k) => (["uatom", "uosmo"][*k as usize % 2].to_string(), None),
                    RecvDenom::Returning(a) => {
                        let d = denom(*a);
                        (format!("transfer/{their_chan}/{d}"), Some((our_chan.to_string(), asset_id(&d))))
                    }
                    RecvDenom::ReturningWrongChannel(a) => {
                        let d = denom(*a);
                        (format!("transfer/channel-99/{d}"), None)
                    }
                    RecvDenom::Garbage => ("//not a denom//".to_string(), None),
                };
                let escrowed = escrow_key.and_then(|k| self.ledger.escrow.get(&k).copied()).unwrap_or(0);
                let amount = match amt {
                    RecvAmt::Abs(v) => v.to_string(),
                    RecvAmt::EscrowPerMille(p) => ((escrowed / 1000) * u128::from(*p) + (escrowed % 1000) * u128::from(*p) / 1000).to_string(),
                    RecvAmt::EscrowPlus(k) => escrowed.saturating_add(u128::from(*k)).to_string(),
                    RecvAmt::Max => u128::MAX.to_string(),
                    RecvAmt::NotANumber => "12x".to_string(),
                };
                if matches!(amt, RecvAmt::EscrowPlus(_)) {
                    self.stats.probe("ibc.recv.over-return");
                }
                let receiver = match to {
                    RecvTo::Account(a) => self.keys.address(*a).to_string(),
                    RecvTo::Compat(a) => self
                        .keys
                        .address(*a)
                        .to_prefix(crate::test_utils::ASTRIA_COMPAT_PREFIX)
                        .map(|x| x.to_format::<astria_core::primitive::v1::Bech32>().to_string())
                        .unwrap_or_default(),
                    RecvTo::Garbage => "not-an-address".to_string(),
                };
                let memo = match memo {
                    MemoKind::Empty => String::new(),
                    MemoKind::Deposit(len) => serde_json::to_string(&astria_core::protocol::memos::v1::Ics20TransferDeposit { rollup_deposit_address: "r".repeat(*len as usize) }).unwrap(),
                    MemoKind::BadJson => "{not json".to_string(),
                };
                let data = FungibleTokenPacketData { denom: denom_str, amount, sender: "cosmos1sender".to_string(), receiver, memo };
                let packet = Packet {
                    sequence: Sequence(1 + u64::from(*seq)),
                    port_on_a: PortId::transfer(),
                    chan_on_a: their_chan,
                    port_on_b: PortId::transfer(),
                    chan_on_b: our_chan,
                    data: serde_json::to_vec(&data).unwrap(),
                    timeout_height_on_b: TimeoutHeight::At(Height::new(0, if *expired { 1 } else { 1_000_000 }).unwrap()),
                    timeout_timestamp_on_b: ibc_types::timestamp::Timestamp::none(),
                };
                Some(penumbra_ibc::IbcRelay::RecvPacket(MsgRecvPacket { packet, proof_commitment_on_a: proof, proof_height_on_a: proof_height, signer: "relayer".into() }))
            }
            IbcKind::Ack { of, success } => {
                if self.sent_packets.is_empty() {
                    return None;
                }
                let packet = self.sent_packets[*of as usize % self.sent_packets.len()].clone();
                let ack = if *success { br#"{"result":"AQ=="}"#.to_vec() } else { br#"{"error":"counterparty refused"}"#.to_vec() };
                Some(penumbra_ibc::IbcRelay::Acknowledgement(MsgAcknowledgement { packet, acknowledgement: ack, proof_acked_on_b: proof, proof_height_on_b: proof_height, signer: "relayer".into() }))
            }
            IbcKind::Timeout { of } => {
                if self.sent_packets.is_empty() {
                    return None;
                }
                let packet = self.sent_packets[*of as usize % self.sent_packets.len()].clone();
                let next_seq_recv_on_b = packet.sequence;
                Some(penumbra_ibc::IbcRelay::Timeout(MsgTimeout { packet, next_seq_recv_on_b, proof_unreceived_on_b: proof, proof_height_on_b: proof_height, signer: "relayer".into() }))
            }
        }
    }

    async fn do_ibc(&mut self, i: &IbcOp) {
        let Some(relay) = self.ibc_packet_for(&i.kind) else {
            return;
        };
        self.stats.probe(match &i.kind {
            IbcKind::Recv { .. } => "ibc.recv.submitted",
            IbcKind::Ack { success: true, .. } => "ibc.ack-success.submitted",
            IbcKind::Ack { .. } => "ibc.ack-error.submitted",
            IbcKind::Timeout { .. } => "ibc.timeout.submitted",
        });
        let t = TxOp { id: i.id, signer: i.relayer, nonce: i.nonce.clone(), actions: vec![], nodes: i.nodes, dup: false, replay_of: None };
        let signer = self.keys.addr(i.relayer);
        let mut actions: Vec<Action> = i.pre.iter().map(|a| self.build_action(a, &signer)).collect();
        actions.push(Action::Ibc(relay));
        self.submit(&t, Some(actions)).await;
    }

    async fn do_tx(&mut self, t: &TxOp) {
        self.submit(t, None).await;
    }

    async fn submit(&mut self, t: &TxOp, prebuilt: Option<Vec<Action>>) {
        let up = self.up_nodes();
        if up.is_empty() {
            return;
        }
        let targets: Vec<usize> = up.iter().copied().filter(|i| t.nodes & (1 << (*i as u8 % 8)) != 0).collect();
        let targets = if targets.is_empty() { vec![up[0]] } else { targets };
        let bytes: Bytes = if let Some(orig) = t.replay_of {
            let Some(b) = self.tx_bytes_by_op.get(&orig).cloned() else {
                self.trace.ev(&format!("tx op={} replay-of={} (never built)", t.id, orig));
                return;
            };
            self.stats.probe("tx.replay-attempt");
            b
        } else {
            let signer_key = self.keys.key(t.signer).clone();
            let signer = signer_key.address_bytes();
            let first = targets[0];
            let pending = self.nodes[first].mempool.pending_nonce(&signer).await;
            let committed = self.ledger.nonces.get(&signer).copied().unwrap_or(0);
            let next = pending.unwrap_or(committed).max(committed);
            let nonce = match t.nonce {
                NonceSel::Next => next,
                NonceSel::Plus(k) => next.saturating_add(u32::from(k)),
                NonceSel::Minus(k) => next.saturating_sub(u32::from(k)),
            };
            let actions: Vec<Action> = match prebuilt {
                Some(a) => a,
                None => t.actions.iter().map(|a| self.build_action(a, &signer)).collect(),
            };
            if actions.is_empty() {
                return;
            }
            self.probe_intent(&actions, &signer);
            let n_actions = actions.len();
            let body = match TransactionBody::builder().actions(actions).chain_id(CHAIN_ID).nonce(nonce).try_build() {
                Ok(b) => b,
                Err(e) => {
                    self.trace.ev(&format!("tx op={} unbuildable: {e}", t.id));
                    self.stats.probe("tx.rejected-at-construction");
                    return;
                }
            };
            let tx = body.sign(&signer_key);
            let bytes: Bytes = tx.into_raw().encode_to_vec().into();
            self.tx_bytes_by_op.insert(t.id, bytes.clone());
            if n_actions >= 2 {
                self.pending_bundles.insert(sha2::Sha256::digest(&bytes).into());
            }
            bytes
        };
        let id = sha2::Sha256::digest(&bytes);
        let reps = if t.dup { 2 } else { 1 };
        for n in targets {
            for _ in 0..reps {
                let node = &self.nodes[n];
                let snap = node.storage.latest_snapshot();
                let fut = crate::service::mempool::check_tx(bytes.clone(), snap, &node.mempool, world::metrics());
                let out = AssertUnwindSafe(fut).catch_unwind().await;
                // the mempool breaks priority ties by arrival time (and otherwise by HashMap
                // iteration order, which the simulator cannot seed): give every arrival its own
                // virtual instant
                tokio::time::advance(std::time::Duration::from_millis(1)).await;
                match out {
                    Ok(o) => {
                        let dbg = format!("{o:?}");
                        let kind = dbg.split(['(', ' ', '{']).next().unwrap_or("?").to_string();
                        self.trace.ev(&format!("checktx op={} tx={} node={n} -> {kind}", t.id, hex::encode(&id[..6])));
                        self.stats.probe(&format!("checktx.{kind}"));
                        if self.trace.keep && (kind == "AddedToPending" || kind == "InternalError") {
                            // diagnostics only: would this transaction execute on the committed state?
                            let snap = self.nodes[n].storage.latest_snapshot();
                            match crate::checked_transaction::CheckedTransaction::new(bytes.clone(), &snap).await {
                                Ok(ctx) => {
                                    let mut delta = cnidarium::StateDelta::new(snap);
                                    use crate::app::StateWriteExt as _;
                                    let _ = delta.put_block_timestamp(world::block_time(self.height + 1, 0));
                                    if let Err(e) = ctx.execute(&mut delta).await {
                                        self.trace.lines.push(format!("    dry-run: {:#}", astria_eyre::eyre::Report::new(e)).chars().take(500).collect());
                                    }
                                }
                                Err(e) => self.trace.lines.push(format!("    dry-run construct: {e:#}")),
                            }
                            if kind == "InternalError" {
                                self.trace.lines.push(format!("    reason: {}", dbg.chars().take(400).collect::<String>()));
                            }
                        }
                        if kind.starts_with("Failed") {
                            self.stats.probe("tx.excluded-or-failed");
                            if self.trace.keep {
                                // diagnostics only (not part of the event-log hash)
                                self.trace.lines.push(format!("    reason: {}", dbg.chars().take(400).collect::<String>()));
                            }
                        }
                    }
                    Err(_) => {
                        let msg = take_last_panic().unwrap_or_default();
                        self.viol.push("C05", "checktx-panic", "checktx-panic", self.step, format!("CheckTx panicked on node {n}: {msg}"));
                        self.nodes[n].dead = true;
                    }
                }
            }
        }
    }

    // --------------------------------------------------------------------------------------------
    // consensus
    // --------------------------------------------------------------------------------------------

    fn proposer_address(&self, h: u64, k: u8) -> account::Id {
        let set = self.voting_set(h);
        let addrs: Vec<&Addr> = set.keys().collect();
        if addrs.is_empty() {
            account::Id::new([0u8; 20])
        } else {
            account::Id::new(*addrs[k as usize % addrs.len()])
        }
    }

    fn voting_set(&self, h: u64) -> ValSet {
        // the latest set defined at or below h
        self.cmt_sets.range(..=h).next_back().map(|(_, s)| s.clone()).unwrap_or_default()
    }

    async fn ve_enabled_at(&self, h: u64) -> bool {
        // CometBFT: precommits of height h carry extensions iff h >= vote_extensions_enable_height
        // (and that height is non-zero). The application stores the consensus params it returned.
        let Some(n) = self.up_nodes().first().copied() else { return false };
        use crate::app::StateReadExt as _;
        let snap = self.nodes[n].storage.latest_snapshot();
        match snap.get_consensus_params().await {
            Ok(Some(p)) => p.abci.vote_extensions_enable_height.map_or(false, |eh| eh.value() != 0 && h >= eh.value()),
            _ => false,
        }
    }

    async fn restart_and_sync(&mut self, n: usize) {
        let cfg = self.cfg.clone();
        self.nodes[n].restart(&cfg).await;
        self.nodes[n].path.push('R');
        self.stats.fault("node.restart");
        self.trace.ev(&format!("restart node={n} committed={}", self.nodes[n].committed));
        self.catch_up(n).await;
    }

    /// Block sync / handshake replay: FinalizeBlock + Commit for every decided block the node has
    /// not committed yet.
    async fn catch_up(&mut self, n: usize) {
        while self.nodes[n].is_up() && self.nodes[n].committed < self.height {
            let hh = self.nodes[n].committed + 1;
            let d = &self.history[(hh - 1) as usize];
            let req = world::finalize_request(&d.hd, d.hash, d.txs.clone(), d.last_commit.clone());
            let (expect_dbg, expect_root) = (d.resp_dbg.clone(), d.root.clone());
            let node = &mut self.nodes[n];
            let storage = node.storage.clone();
            let res = guarded(node.app.as_mut().unwrap().finalize_block(req, storage.clone())).await;
            self.stats.probe("path.sync-finalize-only");
            match res {
                Ok(resp) => {
                    let dbg = format!("{resp:?}");
                    if dbg != expect_dbg {
                        self.viol.push("C05", "finalize-response-differs", "sync-vs-live", self.step, format!("height {hh}: node {n} (syncing) computed a different FinalizeBlock response: {}", first_diff(&expect_dbg, &dbg)));
                    }
                    let node = &mut self.nodes[n];
                    if let Err((_, e)) = guarded(node.app.as_mut().unwrap().commit(storage)).await {
                        self.viol.push("C05", "commit-failed", "sync-commit", self.step, format!("height {hh}: node {n} commit failed: {e}"));
                        self.nodes[n].dead = true;
                        return;
                    }
                    let root = self.nodes[n].storage.latest_snapshot().root_hash().await.map(|r| r.0.to_vec()).unwrap_or_default();
                    if root != expect_root {
                        self.viol.push("C05", "state-root-differs", "sync-vs-live", self.step, format!("height {hh}: node {n} (syncing) committed a different state root"));
                    }
                    self.nodes[n].committed = hh;
                    self.trace.ev(&format!("sync node={n} height={hh}"));
                }
                Err((panicked, e)) => {
                    self.viol.push("C05", "finalize-failed-on-sync-path", &format!("{}:{}", if panicked { "panic" } else { "error" }, err_class(&e)), self.step, format!("height {hh}: FinalizeBlock on syncing node {n} failed although other nodes finalized it: {e}"));
                    self.nodes[n].dead = true;
                    return;
                }
            }
        }
    }

    fn injected_count(&self, txs: &[Bytes], h: u64, ve: bool) -> Option<(usize, ExpandedBlockData)> {
        let uses_items = self.cfg.aspen.is_some_and(|a| h >= a);
        let parsed = if uses_items {
            ExpandedBlockData::new_from_typed_data(txs, ve)
        } else {
            ExpandedBlockData::new_from_untyped_data(txs)
        };
        parsed.ok().map(|p| (p.injected_transaction_count(), p))
    }

    /// vote_extensions_enabled(h) as the application defines it for block h (extended commit info
    /// item present in the block data)
    async fn block_has_ext_item(&self, h: u64) -> bool {
        h >= 1 && self.ve_enabled_at(h - 1).await && {
            // app: block_height > enable_height  <=> (h-1) >= enable_height
            true
        }
    }

    async fn do_block(&mut self, b: &BlockOp) {
        if self.cmt_halted {
            return;
        }
        let h = self.height + 1;
        self.cur_block_op = b.id;
        let n_nodes = self.nodes.len();
        self.validated = vec![BTreeSet::new(); n_nodes];
        for n in self.nodes.iter_mut() {
            n.path.clear();
        }
        // nodes whose downtime is over come back and sync
        for n in 0..n_nodes {
            if !self.nodes[n].dead && self.nodes[n].app.is_none() && self.nodes[n].down_until.is_some_and(|d| d <= h) {
                self.restart_and_sync(n).await;
            }
        }
        let crash = b.crash.as_ref().map(|c| (c.node as usize % n_nodes, c.point, c.down));
        let alive_count = |s: &Sim| s.up_nodes().len();
        let mut do_crash = |s: &mut Sim, point: u8| -> Option<usize> {
            if let Some((n, p, down)) = crash {
                if p == point && s.nodes[n].is_up() && alive_count(s) >= 2 {
                    s.nodes[n].crash();
                    s.stats.fault(&format!("node.crash.point{point}"));
                    s.trace.ev(&format!("crash node={n} point={point} down={down}"));
                    if down > 0 {
                        s.nodes[n].down_until = Some(h + 1 + u64::from(down));
                    }
                    return Some(n);
                }
            }
            None
        };
        if let Some(n) = do_crash(self, 0) {
            if self.nodes[n].down_until.is_none() {
                self.restart_and_sync(n).await;
            }
        }
        let up = self.up_nodes();
        if up.is_empty() {
            self.stop = true;
            return;
        }
        for n in &up {
            // a node that is up must be in sync before a new height starts
            if self.nodes[*n].committed < self.height {
                self.catch_up(*n).await;
            }
        }
        let up = self.up_nodes();
        let mut participants: Vec<usize> = up.iter().copied().filter(|i| b.late & (1 << (*i as u8 % 8)) == 0).collect();
        if participants.is_empty() {
            participants = up.clone();
        }
        let late: Vec<usize> = up.iter().copied().filter(|i| !participants.contains(i)).collect();
        if !late.is_empty() {
            self.stats.fault("node.lagging");
        }
        let has_ext_item = self.block_has_ext_item(h).await;
        let time = world::block_time(h, b.dt_ms);
        let last_commit = world::commit_info_of(&self.ext_commit);

        let mut latest_honest: Option<Proposal> = None;
        let mut decided: Option<Proposal> = None;
        let n_rounds = b.rounds.len();
        for (ri, round) in b.rounds.iter().enumerate() {
            let deciding = ri + 1 == n_rounds;
            let live: Vec<usize> = participants.iter().copied().filter(|i| self.nodes[*i].is_up()).collect();
            if live.is_empty() {
                break;
            }
            let p = live[round.proposer as usize % live.len()];
            let need_prepare = round.prepare || latest_honest.is_none() || round.byz.is_some();
            let proposal = if need_prepare {
                let hd = BlockHeader {
                    height: h,
                    time,
                    proposer: self.proposer_address(h, round.proposer.wrapping_add(ri as u8)),
                    next_validators_hash: Hash::Sha256([7u8; 32]),
                };
                let req = world::prepare_request(&hd, i64::from(b.max_tx_bytes), Some(self.ext_commit.clone()));
                let node = &mut self.nodes[p];
                let storage = node.storage.clone();
                let res = guarded(node.app.as_mut().unwrap().prepare_proposal(req, storage)).await;
                self.nodes[p].path.push('P');
                match res {
                    Ok(resp) => {
                        let hash = world::block_hash(h, time, &hd.proposer, &resp.txs);
                        self.trace.ev(&format!("prepare h={h} r={ri} node={p} txs={} bytes={}", resp.txs.len(), resp.txs.iter().map(Bytes::len).sum::<usize>()));
                        self.next_uid += 1;
                        let prop = Proposal { uid: self.next_uid, hd, hash, txs: resp.txs, by: p };
                        self.check_prepared(&prop, b.max_tx_bytes, has_ext_item);
                        prop
                    }
                    Err((panicked, e)) => {
                        self.viol.push("C06", "prepare-proposal-failed", &format!("{}:{}", if panicked { "panic" } else { "error" }, err_class(&e)), self.step, format!("h={h} r={ri}: PrepareProposal failed on node {p}: {e}"));
                        if panicked {
                            self.nodes[p].dead = true;
                        }
                        continue;
                    }
                }
            } else {
                self.stats.probe("round.valid-block-reproposal");
                latest_honest.clone().unwrap()
            };
            if let Some(bz) = &round.byz {
                // a Byzantine proposer: mutate the honest proposal; it must be rejected
                self.byzantine_round(h, ri, &proposal, bz, round.process, &live, has_ext_item, &last_commit).await;
                // the honest base is not a proposal anybody saw
                continue;
            }
            // honest proposal: ProcessProposal on the chosen subset. A block is only ever decided
            // after more than 2/3 of the voting power accepted it in ProcessProposal; the simulated
            // nodes stand for that majority, so in the deciding round at least one of them must
            // have validated the block (now, or in an earlier round if it is a re-proposal).
            let mut all_ok = true;
            let mut process_mask = round.process;
            if deciding && !live.iter().any(|n| process_mask & (1 << (*n as u8 % 8)) != 0 || self.validated[*n].contains(&proposal.uid)) {
                process_mask |= 1 << (live[round.process as usize % live.len()] as u8 % 8);
            }
            for n in &live {
                let reprocess_skipped = self.validated[*n].contains(&proposal.uid);
                if process_mask & (1 << (*n as u8 % 8)) == 0 {
                    continue;
                }
                if reprocess_skipped && round.process & 0x80 == 0 {
                    // a node that already validated this block may skip ProcessProposal on re-proposal
                    continue;
                }
                let req = world::process_request(&proposal.hd, proposal.hash, proposal.txs.clone(), Some(last_commit.clone()));
                let node = &mut self.nodes[*n];
                let storage = node.storage.clone();
                let res = guarded(node.app.as_mut().unwrap().process_proposal(req, storage)).await;
                match res {
                    Ok(()) => {
                        self.validated[*n].insert(proposal.uid);
                        self.nodes[*n].path.push(if deciding { 'p' } else { 'x' });
                        self.trace.ev(&format!("process h={h} r={ri} node={n} accept"));
                    }
                    Err((panicked, e)) => {
                        all_ok = false;
                        self.viol.push("C06", "honest-proposal-rejected", &format!("{}:{}", if panicked { "panic" } else { "rejected" }, err_class(&e)), self.step, format!("h={h} r={ri}: node {n} rejected the proposal prepared by honest node {}: {e}", proposal.by));
                        self.trace.ev(&format!("process h={h} r={ri} node={n} REJECT"));
                        if panicked {
                            self.nodes[*n].dead = true;
                        }
                    }
                }
            }
            // a proposal some honest node rejected can neither be decided nor re-proposed later
            // (all honest nodes decide alike on the same state, so it never gathers 2/3)
            latest_honest = if all_ok { Some(proposal.clone()) } else { None };
            if ri == 0 {
                if let Some(n) = do_crash(self, 1) {
                    if self.nodes[n].down_until.is_none() {
                        // back before the next round; it has no block to replay
                        let cfg = self.cfg.clone();
                        self.nodes[n].restart(&cfg).await;
                        self.nodes[n].path.push('R');
                        self.stats.fault("node.restart");
                    }
                }
            }
            if deciding && all_ok {
                decided = Some(proposal);
            } else if !deciding {
                self.stats.fault("round.failed");
                // nodes that processed it keep whatever state that left behind
                for n in &live {
                    let node = &mut self.nodes[*n];
                    if node.path.ends_with('p') {
                        node.path.pop();
                        node.path.push('x');
                    }
                }
            }
        }
        let Some(prop) = decided else {
            // no decision at this height (proposal failed); try the next Block op as a new attempt
            self.trace.ev(&format!("height {h} undecided"));
            return;
        };
        if let Some(n) = do_crash(self, 2) {
            if self.nodes[n].down_until.is_none() {
                let cfg = self.cfg.clone();
                self.nodes[n].restart(&cfg).await;
                self.nodes[n].path.push('R');
                self.stats.fault("node.restart");
            }
        }
        // decision: FinalizeBlock + Commit on every live participant
        self.height = h;
        let mut canonical: Option<(String, abci::response::FinalizeBlock, usize)> = None;
        let live: Vec<usize> = participants.iter().copied().filter(|i| self.nodes[*i].is_up()).collect();
        let mut finalized: Vec<usize> = Vec::new();
        for n in &live {
            let req = world::finalize_request(&prop.hd, prop.hash, prop.txs.clone(), last_commit.clone());
            let node = &mut self.nodes[*n];
            let storage = node.storage.clone();
            let res = guarded(node.app.as_mut().unwrap().finalize_block(req, storage)).await;
            self.nodes[*n].path.push('F');
            match res {
                Ok(resp) => {
                    let dbg = format!("{resp:?}");
                    match &canonical {
                        None => canonical = Some((dbg, resp, *n)),
                        Some((c, cr, cn)) => {
                            if *c != dbg {
                                let sig = resp_diff_class(cr, &resp);
                                self.viol.push("C05", "finalize-response-differs", sig, self.step, format!("h={h}: node {n} (path {}) and node {cn} (path {}) computed different FinalizeBlock responses: {}", self.nodes[*n].path, self.nodes[*cn].path, first_diff(c, &dbg)));
                            }
                        }
                    }
                    finalized.push(*n);
                }
                Err((panicked, e)) => {
                    let sig = format!("{}:{}", if panicked { "panic" } else { "error" }, err_class(&e));
                    if e.contains("vote extension") {
                        // the block's extended commit was accepted in the proposal phase but cannot be applied
                        self.viol.push("C15", "accepted-extended-commit-cannot-be-applied", &sig, self.step, format!("h={h}: FinalizeBlock failed on node {n} while applying the prices of an extended commit that ProcessProposal accepted: {e}"));
                    }
                    self.viol.push("C05", "finalize-failed", &sig, self.step, format!("h={h}: FinalizeBlock failed on node {n} (path {}): {e}", self.nodes[*n].path));
                    self.trace.ev(&format!("finalize h={h} node={n} FAILED"));
                    self.nodes[*n].dead = true;
                }
            }
        }
        let Some((canon_dbg, canon_resp, _)) = canonical else {
            self.trace.ev(&format!("height {h}: no node could finalize"));
            self.stop = true;
            return;
        };
        // fault: the consensus engine of one node restarts alone between FinalizeBlock and Commit. The
        // application survives with its uncommitted work; the engine's handshake finds the app one
        // height behind its block store and replays the block: FinalizeBlock again, then Commit.
        if let Some((n, 4, _)) = crash {
            if finalized.contains(&n) && self.nodes[n].is_up() {
                self.stats.fault("consensus-engine.restart.between-finalize-and-commit");
                self.trace.ev(&format!("engine-restart node={n} h={h}: FinalizeBlock redelivered"));
                let req = world::finalize_request(&prop.hd, prop.hash, prop.txs.clone(), last_commit.clone());
                let node = &mut self.nodes[n];
                let storage = node.storage.clone();
                let res = guarded(node.app.as_mut().unwrap().finalize_block(req, storage)).await;
                self.nodes[n].path.push('F');
                match res {
                    Ok(resp) => {
                        let dbg = format!("{resp:?}");
                        if dbg != canon_dbg {
                            self.viol.push("C05", "finalize-response-differs", "redelivered-finalize-block", self.step, format!("h={h}: node {n} answered the redelivered FinalizeBlock differently: {}", first_diff(&canon_dbg, &dbg)));
                        }
                    }
                    Err((panicked, e)) => {
                        let sig = format!("redelivered:{}:{}", if panicked { "panic" } else { "error" }, err_class(&e));
                        self.viol.push("C05", "finalize-failed", &sig, self.step, format!("h={h}: node {n} (path {}) failed on FinalizeBlock redelivered after a restart of its consensus engine: {e}", self.nodes[n].path));
                        self.trace.ev(&format!("finalize h={h} node={n} FAILED on redelivery"));
                        self.nodes[n].dead = true;
                    }
                }
            }
        }
        let crashed_before_commit = do_crash(self, 3);
        let mut roots: Vec<(usize, Vec<u8>)> = Vec::new();
        for n in &finalized {
            if !self.nodes[*n].is_up() {
                continue;
            }
            let node = &mut self.nodes[*n];
            let storage = node.storage.clone();
            match guarded(node.app.as_mut().unwrap().commit(storage)).await {
                Ok(_) => {
                    self.nodes[*n].committed = h;
                    let root = self.nodes[*n].storage.latest_snapshot().root_hash().await.map(|r| r.0.to_vec()).unwrap_or_default();
                    roots.push((*n, root));
                }
                Err((_, e)) => {
                    self.viol.push("C05", "commit-failed", "commit", self.step, format!("h={h}: Commit failed on node {n}: {e}"));
                    self.nodes[*n].dead = true;
                }
            }
        }
        let Some((n0, root0)) = roots.first().cloned() else {
            self.stop = true;
            return;
        };
        for (n, r) in &roots[1..] {
            if *r != root0 {
                self.viol.push("C05", "state-root-differs", "live-vs-live", self.step, format!("h={h}: nodes {n0} (path {}) and {n} (path {}) committed different state roots", self.nodes[n0].path, self.nodes[*n].path));
            }
        }
        if canon_resp.app_hash.as_bytes() != root0.as_slice() {
            self.viol.push("C05", "app-hash-not-committed-root", "app-hash", self.step, format!("h={h}: FinalizeBlock.app_hash differs from the committed root"));
        }
        self.history.push(Decided {
            hd: prop.hd.clone(),
            hash: prop.hash,
            txs: prop.txs.clone(),
            last_commit: last_commit.clone(),
            resp_dbg: canon_dbg,
            root: root0.clone(),
        });
        self.trace.ev(&format!("decided h={h} txs={} root={}", prop.txs.len(), hex::encode(&root0[..6])));

        // the node that crashed between FinalizeBlock and Commit replays the block on restart
        if let Some(n) = crashed_before_commit {
            self.stats.probe("crash.between-finalize-and-commit");
            if self.nodes[n].down_until.is_none() {
                self.restart_and_sync(n).await;
            }
        }
        // lagging nodes sync now (finalize-only path)
        for n in late {
            if self.nodes[n].is_up() {
                self.nodes[n].path.push('S');
                self.catch_up(n).await;
            }
        }
        // distinct call paths that led to the same decided block
        let mut classes = BTreeSet::new();
        for n in 0..n_nodes {
            if self.nodes[n].committed == h {
                classes.insert(path_class(&self.nodes[n].path));
            }
        }
        if classes.len() >= 2 {
            self.stats.probe("block.distinct-paths>=2");
        }
        if classes.len() >= 3 {
            self.stats.probe("block.distinct-paths>=3");
        }
        for c in &classes {
            self.stats.probe(&format!("path.{c}"));
        }
        let path_sig = classes.iter().cloned().collect::<Vec<_>>().join(",");

        // ---- oracles over the decided block --------------------------------------------------
        let kinds = self.check_block(h, &prop, &canon_resp, has_ext_item, n0).await;
        self.trace.abs(&format!("h={h} paths=[{path_sig}] kinds=[{kinds}]"));

        // the block every node stores (non-verifiable storage, not covered by the app hash) must be
        // the same whatever path the node took
        {
            use crate::grpc::StateReadExt as _;
            let mut first: Option<(usize, Vec<u8>)> = None;
            for n in 0..n_nodes {
                if self.nodes[n].committed != h || !self.nodes[n].is_up() {
                    continue;
                }
                let snap = self.nodes[n].storage.latest_snapshot();
                let enc = match snap.get_sequencer_block_by_height(h).await {
                    Ok(b) => b.into_raw().encode_to_vec(),
                    Err(e) => {
                        self.viol.push("C07", "stored-block-unreadable", "by-height", self.step, format!("h={h}: node {n} cannot read back the block it committed: {e:#}"));
                        continue;
                    }
                };
                match &first {
                    None => first = Some((n, enc)),
                    Some((n1, e1)) => {
                        if *e1 != enc {
                            self.viol.push("C05", "stored-block-differs", "sequencer-block", self.step, format!("h={h}: nodes {n1} (path {}) and {n} (path {}) store different SequencerBlocks for the same decided block", self.nodes[*n1].path, self.nodes[n].path));
                        }
                    }
                }
            }
        }

        // ---- votes of this height -> extended commit for the next -----------------------------
        self.make_ext_commit(h, (n_rounds - 1) as u8, b).await;
    }

    fn check_prepared(&mut self, prop: &Proposal, max_tx_bytes: u32, has_ext_item: bool) {
        let total: usize = prop.txs.iter().map(Bytes::len).sum();
        if total > max_tx_bytes as usize {
            self.viol.push("C06", "proposal-exceeds-max-tx-bytes", "prepare", self.step, format!("h={}: prepared proposal has {total} bytes > max_tx_bytes {max_tx_bytes}", prop.hd.height));
        }
        if total + 300 > max_tx_bytes as usize {
            self.stats.probe("proposal.limit-hit");
        }
        let Some((injected, parsed)) = self.injected_count(&prop.txs, prop.hd.height, has_ext_item) else {
            self.viol.push("C06", "prepared-proposal-unparseable", "prepare", self.step, format!("h={}: the block data produced by PrepareProposal does not parse", prop.hd.height));
            return;
        };
        let _ = injected;
        // group order and sequenced-data limit
        let mut seq_bytes = 0usize;
        let mut last_group = None;
        for raw in &parsed.user_submitted_transactions {
            let Ok(tx) = decode_tx(raw) else {
                self.viol.push("C06", "prepared-proposal-has-undecodable-tx", "prepare", self.step, "a transaction in a prepared proposal does not decode".into());
                continue;
            };
            for a in tx.actions() {
                if let Action::RollupDataSubmission(r) = a {
                    seq_bytes += r.data.len();
                }
            }
            let g = tx.group();
            if let Some(lg) = last_group {
                if g > lg {
                    self.viol.push("C06", "proposal-group-order", "prepare", self.step, format!("h={}: transaction of group {g} follows group {lg}", prop.hd.height));
                }
            }
            last_group = Some(g);
        }
        if seq_bytes > 256_000 {
            self.viol.push("C06", "proposal-exceeds-sequenced-data-limit", "prepare", self.step, format!("h={}: {seq_bytes} bytes of sequenced data", prop.hd.height));
        }
        if seq_bytes > 200_000 {
            self.stats.probe("proposal.limit-hit");
        }
    }

    /// Evaluates everything that can be said about one decided block. Returns a summary of action
    /// kinds for the abstract-state signature.
    async fn check_block(&mut self, h: u64, prop: &Proposal, resp: &abci::response::FinalizeBlock, has_ext_item: bool, witness: usize) -> String {
        let mut findings: Vec<model::Finding> = Vec::new();
        let mut kinds = BTreeSet::new();
        let step = self.step;
        let Some((injected, parsed)) = self.injected_count(&prop.txs, h, has_ext_item) else {
            self.viol.push("C06", "decided-block-unparseable", "decided", step, format!("h={h}: decided block data does not parse"));
            return String::new();
        };
        if resp.tx_results.len() != prop.txs.len() {
            self.viol.push("C05", "tx-results-count", "finalize", step, format!("h={h}: {} tx results for {} block entries", resp.tx_results.len(), prop.txs.len()));
            return String::new();
        }
        // upgrades take effect at the start of the block they activate in
        if self.cfg.aspen == Some(h) {
            self.model.aspen_active = true;
        }
        if self.cfg.blackburn == Some(h) {
            self.model.blackburn_active = true;
        }
        let sudo_before = self.model.sudo;
        self.model.begin_block();
        let mut vkeys_touched: BTreeMap<Addr, u32> = BTreeMap::new();
        let mut signers: BTreeSet<Addr> = BTreeSet::new();
        let mut ok_kinds: BTreeSet<&'static str> = BTreeSet::new();
        for (i, raw) in parsed.user_submitted_transactions.iter().enumerate() {
            let result = &resp.tx_results[injected + i];
            let Ok(tx) = decode_tx(raw) else {
                self.viol.push("C06", "decided-block-has-undecodable-tx", "decided", step, format!("h={h}: entry {i} does not decode as a transaction"));
                continue;
            };
            let id: [u8; 32] = sha2::Sha256::digest(raw).into();
            for a in tx.actions() {
                kinds.insert(action_kind(a));
                if let Action::ValidatorUpdate(v) = a {
                    *vkeys_touched.entry(*v.verification_key.address_bytes()).or_default() += 1;
                }
            }
            if result.code.is_ok() {
                signers.insert(*tx.address_bytes());
                for a in tx.actions() {
                    ok_kinds.insert(action_kind(a));
                }
                let view = TxView { tx: &tx, id };
                let before = findings.len();
                let expected_fees = self.model.apply_successful_tx(&view, &mut findings);
                let _ = before;
                self.check_fee_events(h, i, &expected_fees, result);
                self.observe_ibc_events(h, &id, result);
                if !expected_fees.is_empty() {
                    self.stats.probe("tx.success.fee-paying");
                }
                self.stats.probe("tx.success");
                self.pending_bundles.remove(&id);
            } else {
                // included with a non-fatal failure: no effect at all (nonce unchanged)
                self.stats.probe("tx.included-failed");
                if !result.events.is_empty() {
                    self.viol.push("C03", "failed-tx-emitted-events", "included-failed", step, format!("h={h}: failed transaction {} carries {} events", hex::encode(&id[..6]), result.events.len()));
                }
            }
        }
        self.model.end_block(&mut findings);
        self.model.end_block_validators();
        for pr in std::mem::take(&mut self.model.probes) {
            self.stats.probe(pr);
        }
        if self.model.sudo != sudo_before {
            self.stats.probe("authority.handover");
        }
        if vkeys_touched.values().any(|c| *c >= 2) {
            self.stats.probe("validators.same-key-twice-in-block");
        }
        if !vkeys_touched.is_empty() {
            self.stats.probe_n("validators.update", vkeys_touched.len() as u64);
            if self.cfg.aspen.is_some_and(|a| h + 1 >= a && h <= a + 1) {
                self.stats.probe("validators.update-across-aspen");
            }
        }
        for f in findings {
            self.viol.push(f.property, f.oracle, &f.signature, step, format!("h={h}: {}", f.message));
        }

        // ---- real state vs model -----------------------------------------------------------
        let dump = world::dump_state(&self.nodes[witness].storage).await;
        let real = parse_ledger(&dump);
        self.check_write_set(h, &dump, &ok_kinds, &signers, parsed.extended_commit_info_with_proof.as_ref().is_some_and(|e| !e.extended_commit_info().extended_commit_info.votes.is_empty()));
        self.prev_dump = dump.clone();
        self.compare_ledger(h, &real);
        self.check_conservation(h, &real);
        self.compare_privileged(h, witness).await;
        self.check_deposits(h, prop, witness, resp).await;
        self.check_validator_updates(h, resp, witness).await;
        self.check_prices(h, &parsed, resp);
        self.check_served(h, &parsed, resp, injected, witness, self.cur_block_op).await;
        self.ledger = real;
        // the model follows the real chain after a reported divergence so that one defect is
        // reported once, not at every later block
        self.model.balances = self.ledger.balances.clone();
        self.model.nonces = self.ledger.nonces.clone();
        kinds.into_iter().collect::<Vec<_>>().join(",")
    }

    /// C07 (producer third): what the node stores and serves for a decided block - full block,
    /// block filtered to arbitrary subsets of rollups, and the form split for Celestia - must be,
    /// per rollup, exactly the payloads of its data submissions in block order followed by its
    /// deposits in execution order, with proofs that verify; single-element tamperings of the served
    /// data must fail verification in the client-side decoders.
    async fn check_served(&mut self, h: u64, parsed: &ExpandedBlockData, resp: &abci::response::FinalizeBlock, injected: usize, witness: usize, op_id: u32) {
        use std::sync::Arc;

        use astria_core::{
            generated::astria::sequencerblock::v1::{
                sequencer_service_server::SequencerService as _,
                GetFilteredSequencerBlockRequest,
                GetSequencerBlockRequest,
            },
            primitive::v1::RollupId,
            sequencerblock::v1::{
                block::{
                    FilteredSequencerBlock,
                    RollupData,
                },
                SequencerBlock,
                SubmittedMetadata,
                SubmittedRollupData,
            },
        };
        let step = self.step;
        // ---- expectation, from the block's successful transactions and the reference deposits --
        let mut expected: BTreeMap<[u8; 32], Vec<Vec<u8>>> = BTreeMap::new();
        for (i, raw) in parsed.user_submitted_transactions.iter().enumerate() {
            if !resp.tx_results[injected + i].code.is_ok() {
                continue;
            }
            let Ok(tx) = decode_tx(raw) else { continue };
            for a in tx.actions() {
                if let Action::RollupDataSubmission(r) = a {
                    expected
                        .entry(*r.rollup_id.as_bytes())
                        .or_default()
                        .push(RollupData::SequencedData(r.data.clone()).into_raw().encode_to_vec());
                }
            }
        }
        for d in &self.model.block_deposits {
            expected
                .entry(*d.rollup_id.as_bytes())
                .or_default()
                .push(RollupData::Deposit(Box::new(d.clone())).into_raw().encode_to_vec());
        }
        if self.model.unmodelled.contains("ibc") {
            return;
        }
        let n_rollups = expected.len();
        if n_rollups >= 2 {
            self.stats.probe("served.block-with>=2-rollups");
        }
        if !self.model.block_deposits.is_empty() && n_rollups >= 1 {
            self.stats.probe("served.block-with-deposits");
        }
        let node = &self.nodes[witness];
        let server = Arc::new(crate::grpc::sequencer::SequencerServer::new(
            node.storage.clone(),
            node.mempool.clone(),
            astria_core::upgrades::test_utils::UpgradesBuilder::new().set_aspen(self.cfg.aspen).set_blackburn(self.cfg.blackburn).build(),
        ));
        let lists_of = |txs: &indexmap::IndexMap<RollupId, astria_core::sequencerblock::v1::block::RollupTransactions>| -> BTreeMap<[u8; 32], Vec<Vec<u8>>> {
            txs.iter().map(|(id, rt)| (*id.as_bytes(), rt.transactions().iter().map(|b| b.to_vec()).collect())).collect()
        };
        let describe = |m: &BTreeMap<[u8; 32], Vec<Vec<u8>>>| -> String { m.iter().map(|(k, v)| format!("{}:{}items/{}B", hex::encode(&k[..2]), v.len(), v.iter().map(Vec::len).sum::<usize>())).collect::<Vec<_>>().join(",") };

        // ---- (i) the full block as served --------------------------------------------------------
        let full_raw = match server.clone().get_sequencer_block(tonic::Request::new(GetSequencerBlockRequest { height: h })).await {
            Ok(r) => r.into_inner(),
            Err(e) => {
                self.viol.push("C07", "served-block-unavailable", "get_sequencer_block", step, format!("h={h}: GetSequencerBlock failed for a committed block: {e}"));
                return;
            }
        };
        let full = match SequencerBlock::try_from_raw(full_raw.clone()) {
            Ok(b) => b,
            Err(e) => {
                self.viol.push("C07", "served-block-does-not-verify", "full", step, format!("h={h}: the served SequencerBlock does not pass client-side verification: {e}"));
                return;
            }
        };
        // every accompanying proof must verify against the commitment in the header
        for (id, rt) in full.rollup_transactions() {
            let ok = rt
                .proof()
                .audit()
                .with_root(*full.header().rollup_transactions_root())
                .with_leaf_builder()
                .write(id.as_ref())
                .write(&merkle::Tree::from_leaves(rt.transactions()).root())
                .finish_leaf()
                .perform();
            if !ok {
                self.viol.push("C07", "served-proof-does-not-verify", "full-per-rollup-proof", step, format!("h={h}: the proof served for rollup {} does not verify against the header's rollup transactions root", hex::encode(&id.as_bytes()[..2])));
            }
        }
        let got = lists_of(full.rollup_transactions());
        if got != expected {
            self.viol.push("C07", "rollup-data-differs-from-block", "full", step, format!("h={h}: served per-rollup data [{}] differs from submissions-then-deposits of the block [{}]", describe(&got), describe(&expected)));
        }
        // ---- (ii) filtered to subsets -------------------------------------------------------------
        let mut rng = Rng::new(self.cfg.seed ^ 0xC07).fork(u64::from(op_id));
        let all_ids: Vec<[u8; 32]> = (0..N_ROLLUPS + 1).map(|i| *world::rollup_id(i).as_bytes()).collect();
        for _ in 0..3 {
            let mut subset: Vec<[u8; 32]> = all_ids.iter().copied().filter(|_| rng.chance(1, 2)).collect();
            if rng.chance(1, 4) {
                if let Some(first) = subset.first().copied() {
                    subset.push(first); // duplicate id in the request
                }
            }
            let req = GetFilteredSequencerBlockRequest { height: h, rollup_ids: subset.iter().map(|id| RollupId::new(*id).into_raw()).collect() };
            let raw = match server.clone().get_filtered_sequencer_block(tonic::Request::new(req)).await {
                Ok(r) => r.into_inner(),
                Err(e) => {
                    self.viol.push("C07", "served-block-unavailable", "get_filtered_sequencer_block", step, format!("h={h}: GetFilteredSequencerBlock failed: {e}"));
                    continue;
                }
            };
            match FilteredSequencerBlock::try_from_raw(raw.clone()) {
                Err(e) => self.viol.push("C07", "served-block-does-not-verify", "filtered", step, format!("h={h}: filtered block for {} ids does not verify: {e}", subset.len())),
                Ok(fb) => {
                    let got = lists_of(fb.rollup_transactions());
                    let want: BTreeMap<[u8; 32], Vec<Vec<u8>>> = expected.iter().filter(|(k, _)| subset.contains(*k)).map(|(k, v)| (*k, v.clone())).collect();
                    if got != want {
                        self.viol.push("C07", "rollup-data-differs-from-block", "filtered", step, format!("h={h}: filtered block has [{}], expected [{}]", describe(&got), describe(&want)));
                    }
                    let ids: BTreeSet<[u8; 32]> = fb.all_rollup_ids().iter().map(|i| *i.as_bytes()).collect();
                    let want_ids: BTreeSet<[u8; 32]> = expected.keys().copied().collect();
                    if ids != want_ids {
                        self.viol.push("C07", "rollup-id-list-differs", "filtered", step, format!("h={h}: all_rollup_ids has {} ids, the block has data for {}", ids.len(), want_ids.len()));
                    }
                }
            }
            // tampering with the filtered form must be detected (skipped when the request named an
            // id twice: the response then carries two entries of which the decoder keeps the last)
            let entry_ids: BTreeSet<Vec<u8>> = raw.rollup_transactions.iter().filter_map(|r| r.rollup_id.as_ref().map(|i| i.inner.to_vec())).collect();
            if !raw.rollup_transactions.is_empty() && entry_ids.len() == raw.rollup_transactions.len() {
                let mut t = raw.clone();
                let k = rng.below_usize(t.rollup_transactions.len());
                let class = match rng.below(5) {
                    4 if t.rollup_transactions.len() >= 2 => {
                        let k2 = (k + 1) % t.rollup_transactions.len();
                        let p = t.rollup_transactions[k].proof.clone();
                        t.rollup_transactions[k].proof = t.rollup_transactions[k2].proof.clone();
                        t.rollup_transactions[k2].proof = p;
                        if t == raw { "noop" } else { "swap-proofs" }
                    }
                    0 if !t.rollup_transactions[k].transactions.is_empty() => {
                        let j = rng.below_usize(t.rollup_transactions[k].transactions.len());
                        let mut b = t.rollup_transactions[k].transactions[j].to_vec();
                        if b.is_empty() { b.push(1) } else { let l = b.len() - 1; b[l] ^= 1 }
                        t.rollup_transactions[k].transactions[j] = b.into();
                        "alter"
                    }
                    1 if !t.rollup_transactions[k].transactions.is_empty() => {
                        t.rollup_transactions[k].transactions.pop();
                        "truncate"
                    }
                    2 => {
                        t.rollup_transactions[k].transactions.push(Bytes::from_static(b"\x0a\x01x"));
                        "extend"
                    }
                    _ => {
                        let other = RollupId::new([0xee; 32]);
                        t.rollup_transactions[k].rollup_id = Some(other.into_raw());
                        "reattribute"
                    }
                };
                self.stats.fault(&format!("served.tamper.filtered.{class}"));
                if class != "noop" && FilteredSequencerBlock::try_from_raw(t).is_ok() {
                    self.viol.push("C07", "tampered-data-verifies", &format!("filtered-{class}"), step, format!("h={h}: a filtered block whose rollup data was tampered with ({class}) still passes client-side verification"));
                }
            }
        }
        // ---- tampering with the full form -----------------------------------------------------------
        if !full_raw.rollup_transactions.is_empty() {
            let mut t = full_raw.clone();
            let k = rng.below_usize(t.rollup_transactions.len());
            let class = match rng.below(5) {
                0 if t.rollup_transactions[k].transactions.len() >= 2 && t.rollup_transactions[k].transactions[0] != t.rollup_transactions[k].transactions[1] => {
                    t.rollup_transactions[k].transactions.swap(0, 1);
                    "reorder"
                }
                1 if !t.rollup_transactions[k].transactions.is_empty() => {
                    t.rollup_transactions[k].transactions.remove(0);
                    "truncate"
                }
                2 => {
                    t.rollup_transactions[k].transactions.push(Bytes::from_static(b"\x0a\x01x"));
                    "extend"
                }
                3 => {
                    let mut hh = t.block_hash.to_vec();
                    hh[0] ^= 1;
                    t.block_hash = hh.into();
                    "other-block-hash"
                }
                _ => {
                    t.rollup_transactions.remove(k);
                    "drop-rollup"
                }
            };
            if class != "noop" {
                self.stats.fault(&format!("served.tamper.full.{class}"));
                // attributing the block to another hash is not detectable from the block alone (the
                // hash is checked against the commit by the receiver, see C09)
                if class != "other-block-hash" && SequencerBlock::try_from_raw(t).is_ok() {
                    self.viol.push("C07", "tampered-data-verifies", &format!("full-{class}"), step, format!("h={h}: a full block whose rollup data was tampered with ({class}) still passes client-side verification"));
                }
            }
        }
        // ---- (iii) split for Celestia ------------------------------------------------------------------
        let (meta, blobs) = full.split_for_celestia();
        let meta_raw = meta.into_raw();
        match SubmittedMetadata::try_from_raw(meta_raw) {
            Err(e) => self.viol.push("C07", "celestia-form-does-not-verify", "metadata", step, format!("h={h}: SubmittedMetadata produced by split_for_celestia does not verify: {e}")),
            Ok(m) => {
                let ids: BTreeSet<[u8; 32]> = m.rollup_ids().map(|i| *i.as_bytes()).collect();
                let want_ids: BTreeSet<[u8; 32]> = expected.keys().copied().collect();
                if ids != want_ids {
                    self.viol.push("C07", "rollup-id-list-differs", "celestia-metadata", step, format!("h={h}: metadata lists {} rollup ids, the block has data for {}", ids.len(), want_ids.len()));
                }
            }
        }
        let mut got: BTreeMap<[u8; 32], Vec<Vec<u8>>> = BTreeMap::new();
        for b in blobs {
            match SubmittedRollupData::try_from_raw(b.into_raw()) {
                Err(e) => self.viol.push("C07", "celestia-form-does-not-verify", "rollup-data", step, format!("h={h}: SubmittedRollupData does not decode: {e}")),
                Ok(b) => {
                    got.insert(*b.rollup_id().as_bytes(), b.transactions().iter().map(|t| t.to_vec()).collect());
                }
            }
        }
        if got != expected {
            self.viol.push("C07", "rollup-data-differs-from-block", "celestia-split", step, format!("h={h}: split_for_celestia yields [{}], expected [{}]", describe(&got), describe(&expected)));
        }
        self.stats.probe("served.checked");
    }

    /// C02/C03: every verifiable key that changed in this block must be licensed by a successful
    /// action of the block (or by block machinery: height/time, upgrades, oracle prices).
    fn check_write_set(&mut self, h: u64, dump: &BTreeMap<String, Vec<u8>>, ok: &BTreeSet<&'static str>, signers: &BTreeSet<Addr>, prices_applied: bool) {
        use base64::Engine as _;
        let upgrade_height = self.cfg.aspen == Some(h) || self.cfg.blackburn == Some(h);
        let has = |k: &str| ok.contains(k);
        let any_bridge_op = has("InitBridge") || has("BridgeSudoChange") || has("BridgeUnlock") || has("BridgeTransfer") || has("Ics20Withdrawal") || has("BridgeLock") || has("Ibc");
        let ibc_op = has("Ics20Withdrawal") || has("Ibc");
        let keys: BTreeSet<&String> = dump.keys().chain(self.prev_dump.keys()).collect();
        let mut bad: Vec<String> = Vec::new();
        for k in keys {
            if dump.get(k) == self.prev_dump.get(k) {
                continue;
            }
            let licensed = if k == "app/block_height" || k == "app/block_timestamp" || k.starts_with("penumbra_consensus_states/") {
                // block machinery (the IBC component records this chain's own consensus state per height)
                true
            } else if k.starts_with("app/") || k.starts_with("upgrades/") {
                upgrade_height
            } else if let Some(rest) = k.strip_prefix("accounts/") {
                if rest.ends_with("/nonce") {
                    // only the signer of a successful transaction
                    rest.split('/').next().and_then(|b| base64::engine::general_purpose::URL_SAFE.decode(b).ok()).and_then(|a| <[u8; 20]>::try_from(a.as_slice()).ok()).is_some_and(|a| signers.contains(&a))
                } else {
                    true // balances: compared with the reference ledger
                }
            } else if k == "authority/sudo" {
                has("SudoChange")
            } else if k.starts_with("authority/") {
                has("ValidatorUpdate") || upgrade_height
            } else if k == "ibc/sudo" {
                has("IbcSudoChange")
            } else if k.starts_with("ibc/relayer/") {
                has("RelayerChange")
            } else if k.starts_with("ibc/") || k.starts_with("ibc-data/") {
                ibc_op
            } else if k.starts_with("fees/allowed_asset/") {
                has("FeeAssetChange")
            } else if k.starts_with("fees/") {
                has("FeeChange")
            } else if k.starts_with("bridge/") {
                any_bridge_op || !signers.is_empty()
            } else if k.starts_with("assets/") {
                has("Ibc")
            } else if k.starts_with("price_feed/") {
                has("CurrencyPairs") || has("Markets") || prices_applied || upgrade_height
            } else {
                false
            };
            if !licensed {
                bad.push(k.clone());
            }
        }
        if !bad.is_empty() {
            let class = bad[0].split('/').take(2).collect::<Vec<_>>().join("/");
            self.viol.push("C02", "state-change-without-authorising-action", &class, self.step, format!("h={h}: keys changed without a successful action that may change them: {:?} (successful action kinds: {ok:?})", &bad[..bad.len().min(6)]));
        }
    }

    fn observe_ibc_events(&mut self, h: u64, tx_id: &[u8; 32], result: &abci::types::ExecTxResult) {
        use ibc_types::core::channel::events::packet::{
            SendPacket,
            WriteAcknowledgement,
        };
        let mut acks: Vec<(u64, bool)> = Vec::new();
        for ev in &result.events {
            if ev.kind == SendPacket::TYPE_STR {
                let attr = |k: &str| ev.attributes.iter().find(|a| a.key_str().ok() == Some(k)).and_then(|a| a.value_str().ok().map(str::to_string));
                let packet = (|| {
                    use ibc_types::core::channel::{
                        packet::Sequence,
                        TimeoutHeight,
                    };
                    let th = attr("packet_timeout_height")?;
                    let timeout_height_on_b = if th == "0-0" {
                        TimeoutHeight::Never
                    } else {
                        let (r, hh) = th.split_once('-')?;
                        TimeoutHeight::At(ibc_types::core::client::Height::new(r.parse().ok()?, hh.parse().ok()?).ok()?)
                    };
                    Some(ibc_types::core::channel::Packet {
                        sequence: Sequence(attr("packet_sequence")?.parse().ok()?),
                        port_on_a: attr("packet_src_port")?.parse().ok()?,
                        chan_on_a: attr("packet_src_channel")?.parse().ok()?,
                        port_on_b: attr("packet_dst_port")?.parse().ok()?,
                        chan_on_b: attr("packet_dst_channel")?.parse().ok()?,
                        data: hex::decode(attr("packet_data_hex")?).ok()?,
                        timeout_height_on_b,
                        timeout_timestamp_on_b: ibc_types::timestamp::Timestamp::from_nanoseconds(attr("packet_timeout_timestamp")?.parse().ok()?).ok()?,
                    })
                })();
                match packet {
                    Some(p) => {
                        self.sent_packets.push(p);
                        self.stats.probe("ibc.packet-sent");
                    }
                    None => self.stats.probe("ibc.packet-sent.unparsed"),
                }
            } else if ev.kind == WriteAcknowledgement::TYPE_STR {
                let attr = |k: &str| ev.attributes.iter().find(|a| a.key_str().ok() == Some(k)).and_then(|a| a.value_str().ok().map(str::to_string));
                if let (Some(seq), Some(ack_hex)) = (attr("packet_sequence").and_then(|s| s.parse::<u64>().ok()), attr("packet_ack_hex")) {
                    let ack = hex::decode(ack_hex).unwrap_or_default();
                    let ok = serde_json::from_slice::<serde_json::Value>(&ack).ok().is_some_and(|v| v.get("result").is_some());
                    acks.push((seq, ok));
                }
            }
        }
        let preds: Vec<(u64, u64, bool)> = self.model.recv_predictions.iter().filter(|p| p.0 == *tx_id).map(|p| (p.1, p.2, p.3)).collect();
        for (pos, seq, predicted) in preds {
            let got = acks.iter().find(|a| a.0 == seq).map(|a| a.1);
            self.stats.probe(if predicted { "ibc.recv.applied" } else { "ibc.recv.refused" });
            match got {
                Some(g) if g == predicted => {}
                Some(g) => self.viol.push("C18", "acknowledgement-differs-from-reference", if predicted { "error-ack-for-applicable-packet" } else { "success-ack-for-inapplicable-packet" }, self.step, format!("h={h}: packet seq {seq} (action {pos}) was acknowledged with success={g} but the ICS-20 rules give success={predicted}")),
                None => self.viol.push("C18", "no-acknowledgement-written", "missing-ack", self.step, format!("h={h}: no acknowledgement written for received packet seq {seq}")),
            }
        }
    }

    fn check_fee_events(&mut self, h: u64, idx: usize, expected: &[model::ExpectedFee], result: &abci::types::ExecTxResult) {
        let mut got: Vec<(String, String, String, String)> = Vec::new();
        for ev in &result.events {
            if ev.kind == "tx.fees" {
                let attr = |k: &str| ev.attributes.iter().find(|a| a.key_str().ok() == Some(k)).and_then(|a| a.value_str().ok().map(str::to_string)).unwrap_or_default();
                got.push((attr("actionName"), attr("asset"), attr("feeAmount"), attr("positionInTransaction")));
            }
        }
        let want: Vec<(String, String, String, String)> = expected
            .iter()
            .map(|e| (e.action_full_name.clone(), world::ibc_prefixed(&e.asset).to_string(), e.amount.to_string(), e.position.to_string()))
            .collect();
        if got != want {
            self.viol.push("C01", "fee-events-differ-from-schedule", "tx.fees", self.step, format!("h={h} tx#{idx}: tx.fees events {got:?} but the fee schedule in force requires {want:?}"));
        }
    }

    fn compare_ledger(&mut self, h: u64, real: &Ledger) {
        let step = self.step;
        let keys: BTreeSet<(Addr, AssetId)> = real.balances.keys().chain(self.model.balances.keys()).copied().collect();
        for k in keys {
            let r = real.balances.get(&k).copied().unwrap_or(0);
            let m = self.model.balances.get(&k).copied().unwrap_or(0);
            if r != m {
                let who = self.keys.index_of(&k.0).map_or_else(|| "unknown-account".to_string(), |i| format!("account{i}"));
                let role = if k.0 == self.model.sudo { "fee-recipient" } else if self.model.bridges.contains_key(&k.0) { "bridge" } else { "plain" };
                if role == "bridge" && self.model.block_deposits.iter().any(|d| d.bridge_address.bytes() == k.0) {
                    // C04: the deposits published for this bridge in this block are not matched by its balance
                    self.viol.push("C04", "deposit-not-backed-by-equal-credit", "bridge-balance", step, format!("h={h}: bridge {who} has deposits in this block but its balance in asset {} is {r} where the credited amounts give {m}", hex::encode(&k.1[..4])));
                }
                self.viol.push("C01", "balance-differs-from-reference-ledger", role, step, format!("h={h}: {who} ({role}) asset {}: chain has {r}, reference ledger has {m} (diff {})", hex::encode(&k.1[..4]), if r > m { format!("+{}", r - m) } else { format!("-{}", m - r) }));
            }
        }
        let keys: BTreeSet<Addr> = real.nonces.keys().chain(self.model.nonces.keys()).copied().collect();
        for k in keys {
            let r = real.nonces.get(&k).copied().unwrap_or(0);
            let m = self.model.nonces.get(&k).copied().unwrap_or(0);
            if r != m {
                self.viol.push("C03", "nonce-differs-from-reference", "nonce", step, format!("h={h}: account {}: chain nonce {r}, expected {m} (= successful transactions so far)", hex::encode(&k[..4])));
            }
        }
        let keys: BTreeSet<(String, AssetId)> = real.escrow.keys().chain(self.model.escrow.keys()).cloned().collect();
        for k in keys {
            let r = real.escrow.get(&k).copied().unwrap_or(0);
            let m = self.model.escrow.get(&k).copied().unwrap_or(0);
            if r != m && !self.model.unmodelled.contains("ibc") {
                self.viol.push("C18", "escrow-differs-from-reference", "escrow", step, format!("h={h}: escrow {} asset {}: chain has {r}, reference has {m}", k.0, hex::encode(&k.1[..4])));
            }
        }
    }

    fn check_conservation(&mut self, h: u64, real: &Ledger) {
        let now = self.totals(real);
        let assets: BTreeSet<AssetId> = now.keys().chain(self.prev_totals.keys()).copied().collect();
        for a in assets {
            let before = self.prev_totals.get(&a).copied().unwrap_or((0, 0));
            let after = now.get(&a).copied().unwrap_or((0, 0));
            let minted = self.model.block_minted.get(&a).copied().unwrap_or(0);
            let burned = self.model.block_burned.get(&a).copied().unwrap_or(0);
            // expected = before + minted - burned in 256-bit arithmetic
            let (mut hi, mut lo) = before;
            let (l2, c) = lo.overflowing_add(minted);
            lo = l2;
            if c {
                hi += 1;
            }
            let (l3, bo) = lo.overflowing_sub(burned);
            lo = l3;
            if bo {
                hi = hi.wrapping_sub(1);
            }
            if (hi, lo) != after {
                self.viol.push("C01", "supply-not-conserved", "total-supply", self.step, format!("h={h}: asset {}: total of balances+escrow went from {before:?} to {after:?} with minted={minted} burned={burned}", hex::encode(&a[..4])));
            }
        }
        self.prev_totals = now;
    }

    async fn compare_privileged(&mut self, h: u64, witness: usize) {
        let snap = self.nodes[witness].storage.latest_snapshot();
        let step = self.step;
        let mut bad = |viol: &mut Violations, what: &str, msg: String| {
            viol.push("C02", "privileged-state-differs-from-reference", what, step, format!("h={h}: {msg}"));
        };
        match snap.get_sudo_address().await {
            Ok(s) if s == self.model.sudo => {}
            Ok(s) => bad(&mut self.viol, "sudo", format!("sudo address is {} but only transactions signed by the sudo holder changed it to {}", hex::encode(&s[..4]), hex::encode(&self.model.sudo[..4]))),
            Err(e) => bad(&mut self.viol, "sudo", format!("cannot read sudo address: {e:#}")),
        }
        match snap.get_ibc_sudo_address().await {
            Ok(s) if s == self.model.ibc_sudo => {}
            Ok(s) => bad(&mut self.viol, "ibc-sudo", format!("ibc sudo address is {} expected {}", hex::encode(&s[..4]), hex::encode(&self.model.ibc_sudo[..4]))),
            Err(e) => bad(&mut self.viol, "ibc-sudo", format!("cannot read ibc sudo address: {e:#}")),
        }
        for i in 0..=self.cfg.n_accounts {
            let a = self.keys.addr(i);
            let r = snap.is_ibc_relayer(&a).await.unwrap_or(false);
            if r != self.model.relayers.contains(&a) {
                bad(&mut self.viol, "ibc-relayer-set", format!("account{i}: is_ibc_relayer={r} but reference says {}", !r));
            }
            // bridge registry
            let rollup = snap.get_bridge_account_rollup_id(&a).await.ok().flatten();
            match (rollup, self.model.bridges.get(&a)) {
                (None, None) => {}
                (Some(r), Some(b)) => {
                    let asset = snap.get_bridge_account_ibc_asset(&a).await.ok().map(|x| *x.as_bytes());
                    let sudo = snap.get_bridge_account_sudo_address(&a).await.ok().flatten();
                    let wd = snap.get_bridge_account_withdrawer_address(&a).await.ok().flatten();
                    let disabled = snap.is_bridge_account_disabled(&a).await.unwrap_or(false);
                    let real = Bridge { rollup: *r.as_bytes(), asset: asset.unwrap_or([0; 32]), sudo, withdrawer: wd, disabled };
                    if real != *b {
                        bad(&mut self.viol, "bridge-account", format!("bridge account{i}: chain has {real:?}, reference has {b:?}"));
                    }
                }
                (r, m) => bad(&mut self.viol, "bridge-registry", format!("account{i}: bridge on chain={} in reference={}", r.is_some(), m.is_some())),
            }
        }
        for i in 0..N_ASSETS {
            let d = denom(i);
            let r = snap.is_allowed_fee_asset(&d).await.unwrap_or(false);
            if r != self.model.fee_assets.contains(&asset_id(&d)) {
                bad(&mut self.viol, "fee-assets", format!("asset {i}: allowed as fee asset on chain={r}, reference={}", !r));
            }
        }
        macro_rules! fee_of {
            ($t:ty, $name:expr) => {{
                let real = snap.get_fees::<$t>().await.ok().flatten().map(|f| (f.base(), f.multiplier()));
                let want = self.model.fees.get($name).copied().flatten();
                if real != want {
                    bad(&mut self.viol, "fee-schedule", format!("fees for {}: chain {real:?}, reference {want:?}", $name));
                }
            }};
        }
        fee_of!(act::RollupDataSubmission, "RollupDataSubmission");
        fee_of!(act::Transfer, "Transfer");
        fee_of!(act::Ics20Withdrawal, "Ics20Withdrawal");
        fee_of!(act::InitBridgeAccount, "InitBridgeAccount");
        fee_of!(act::BridgeLock, "BridgeLock");
        fee_of!(act::BridgeUnlock, "BridgeUnlock");
        fee_of!(act::BridgeTransfer, "BridgeTransfer");
        fee_of!(act::BridgeSudoChange, "BridgeSudoChange");
        fee_of!(penumbra_ibc::IbcRelay, "IbcRelay");
        fee_of!(act::ValidatorUpdate, "ValidatorUpdate");
        fee_of!(act::FeeAssetChange, "FeeAssetChange");
        fee_of!(act::FeeChange, "FeeChange");
        fee_of!(act::IbcRelayerChange, "IbcRelayerChange");
        fee_of!(act::SudoAddressChange, "SudoAddressChange");
        fee_of!(act::IbcSudoChange, "IbcSudoChange");
        fee_of!(act::RecoverIbcClient, "RecoverIbcClient");
        fee_of!(act::CurrencyPairsChange, "CurrencyPairsChange");
        fee_of!(act::MarketsChange, "MarketsChange");
    }

    async fn check_deposits(&mut self, h: u64, prop: &Proposal, witness: usize, resp: &abci::response::FinalizeBlock) {
        let snap = self.nodes[witness].storage.latest_snapshot();
        let Hash::Sha256(bh) = prop.hash else { return };
        let mut real: Vec<astria_core::sequencerblock::v1::block::Deposit> = Vec::new();
        for r in 0..N_ROLLUPS {
            if let Ok(ds) = snap.get_deposits(&bh, &world::rollup_id(r)).await {
                real.extend(ds);
            }
        }
        let canon = |d: &astria_core::sequencerblock::v1::block::Deposit| {
            format!(
                "{}|{}|{}|{}|{}|{}|{}",
                hex::encode(d.bridge_address.bytes()),
                hex::encode(d.rollup_id.as_bytes()),
                d.amount,
                hex::encode(d.asset.to_ibc_prefixed().as_bytes()),
                d.destination_chain_address,
                hex::encode(d.source_transaction_id.get()),
                d.source_action_index
            )
        };
        let mut got: Vec<String> = real.iter().map(canon).collect();
        let mut want: Vec<String> = self.model.block_deposits.iter().map(canon).collect();
        got.sort();
        want.sort();
        if !want.is_empty() {
            self.stats.probe_n("deposit.emitted", want.len() as u64);
        }
        if got != want && !self.model.unmodelled.contains("ibc") {
            let extra: Vec<&String> = got.iter().filter(|g| !want.contains(g)).collect();
            let missing: Vec<&String> = want.iter().filter(|w| !got.contains(w)).collect();
            let sig = if !extra.is_empty() { "deposit-without-backing-action" } else { "deposit-missing" };
            // C18: a received packet that was refused must register no deposit
            if !extra.is_empty() && self.model.recv_predictions.iter().any(|p| !p.3) {
                self.viol.push("C18", "refused-packet-left-deposit", "deposit-after-error-ack", self.step, format!("h={h}: a block whose received packet(s) could not be applied stores deposits nobody backed: {extra:?}"));
            }
            if !extra.is_empty() {
                // C03: every transaction of the block that took effect is in the reference model, so a
                // stored deposit it does not know was written by something that did not take effect
                self.viol.push("C03", "write-outlived-failed-transaction", "deposit-of-a-transaction-that-did-not-take-effect", self.step, format!("h={h}: the stored block carries deposits no successful action of the block produced: {extra:?}"));
            }
            self.viol.push("C04", "deposits-differ-from-reference", sig, self.step, format!("h={h}: stored deposits not backed by a successful lock/transfer: {extra:?}; credits without deposit: {missing:?}"));
        }
        // deposit events must correspond one-to-one as well
        let ev_count: usize = resp.tx_results.iter().map(|r| r.events.iter().filter(|e| e.kind == "tx.deposit").count()).sum();
        if ev_count > want.len() && self.model.recv_predictions.iter().any(|p| !p.3) {
            self.viol.push("C18", "refused-packet-left-deposit", "deposit-event-after-error-ack", self.step, format!("h={h}: {ev_count} tx.deposit events for {} backed deposits in a block with a refused packet", want.len()));
        }
        if ev_count != want.len() && !self.model.unmodelled.contains("ibc") {
            self.viol.push("C04", "deposit-events-differ", "tx.deposit-events", self.step, format!("h={h}: {ev_count} tx.deposit events for {} expected deposits", want.len()));
        }
    }

    async fn check_validator_updates(&mut self, h: u64, resp: &abci::response::FinalizeBlock, witness: usize) {
        let step = self.step;
        // what the application told CometBFT
        let mut batch: Vec<(Addr, u64, [u8; 32])> = Vec::new();
        for u in &resp.validator_updates {
            let pk = u.pub_key.to_bytes();
            let Ok(pk32) = <[u8; 32]>::try_from(pk.as_slice()) else { continue };
            let addr: Addr = account::Id::from(u.pub_key).as_bytes().try_into().unwrap();
            batch.push((addr, u.power.value(), pk32));
        }
        // CometBFT's rules for an update batch
        let mut seen = BTreeSet::new();
        let mut next = self.cmt_next.clone();
        let mut reject: Option<(String, String)> = None;
        for (addr, power, pk) in &batch {
            if !seen.insert(*addr) {
                reject = Some(("duplicate-key-in-batch".into(), format!("validator {} appears twice in one update batch", hex::encode(&addr[..4]))));
                break;
            }
            if *power == 0 {
                if next.remove(addr).is_none() {
                    reject = Some(("remove-unknown-validator".into(), format!("update removes validator {} which CometBFT does not have", hex::encode(&addr[..4]))));
                    break;
                }
            } else {
                next.insert(*addr, (*power, *pk));
            }
        }
        if reject.is_none() && next.is_empty() {
            reject = Some(("validator-set-emptied".into(), "applying the update batch leaves CometBFT with an empty validator set".into()));
        }
        if let Some((sig, msg)) = reject {
            let sig = format!("{sig}:{}", if self.model.aspen_active { "post-aspen" } else { "pre-aspen" });
            self.viol.push("C14", "cometbft-rejects-validator-updates", &sig, step, format!("h={h}: {msg} (batch {:?})", batch.iter().map(|(a, p, _)| (hex::encode(&a[..4]), *p)).collect::<Vec<_>>()));
            // CometBFT would halt here; the run ends
            self.cmt_halted = true;
            self.trace.ev(&format!("cometbft halts at h={h}"));
            return;
        }
        // what the reference model says the batch must have been
        let want: BTreeMap<Addr, u64> = self.model.block_validator_updates.iter().map(|(a, (p, _))| (*a, u64::from(*p))).collect();
        let got: BTreeMap<Addr, u64> = batch.iter().map(|(a, p, _)| (*a, *p)).collect();
        if want != got {
            self.viol.push("C14", "validator-updates-differ-from-actions", "batch-content", step, format!("h={h}: FinalizeBlock returned validator updates {got:?} but the successful ValidatorUpdate actions of the block amount to {want:?}"));
        }
        self.cmt_next = next;
        self.cmt_sets.insert(h + 2, self.cmt_next.clone());
        // mirror: CometBFT's set == the application's stored set
        let snap = self.nodes[witness].storage.latest_snapshot();
        let mut stored: BTreeMap<Addr, (u64, [u8; 32])> = BTreeMap::new();
        let mut count: Option<u64> = None;
        if self.model.aspen_active {
            use futures::TryStreamExt as _;
            let mut s = std::pin::pin!(snap.get_validators());
            while let Ok(Some(v)) = s.try_next().await {
                stored.insert(*v.verification_key.address_bytes(), (u64::from(v.power), v.verification_key.to_bytes()));
            }
            count = snap.get_validator_count().await.ok();
        } else if let Ok(set) = snap.pre_aspen_get_validator_set().await {
            for v in set.updates() {
                stored.insert(*v.verification_key.address_bytes(), (u64::from(v.power), v.verification_key.to_bytes()));
            }
        }
        if stored != self.cmt_next {
            let f = |m: &ValSet| m.iter().map(|(a, (p, _))| (hex::encode(&a[..4]), *p)).collect::<Vec<_>>();
            self.viol.push("C14", "validator-set-mirror-broken", "stored-vs-cometbft", step, format!("h={h}: application stores {:?} but CometBFT (genesis + all returned updates) has {:?}", f(&stored), f(&self.cmt_next)));
        }
        if let Some(c) = count {
            if c != stored.len() as u64 {
                self.viol.push("C14", "validator-count-wrong", "count", step, format!("h={h}: stored validator count {c} but {} validators are stored", stored.len()));
            }
        }
        let model_set: ValSet = self.model.validators.iter().map(|(a, (p, k))| (*a, (u64::from(*p), *k))).collect();
        if model_set != stored {
            self.viol.push("C14", "validator-set-differs-from-reference", "stored-vs-reference", step, format!("h={h}: stored validator set differs from the reference model"));
            // follow the chain
            self.model.validators = stored.iter().map(|(a, (p, k))| (*a, (*p as u32, *k))).collect();
        }
    }

    // --------------------------------------------------------------------------------------------
    // Byzantine proposer
    // --------------------------------------------------------------------------------------------

    #[allow(clippy::too_many_arguments)]
    async fn byzantine_round(&mut self, h: u64, ri: usize, honest: &Proposal, bz: &ByzOp, mask: u8, live: &[usize], has_ext_item: bool, last_commit: &CommitInfo) {
        let Some(mutated) = self.mutate(honest, bz, h, has_ext_item) else {
            self.stats.probe("byz.not-applicable");
            return;
        };
        let (txs, expect_valid, class) = mutated;
        let hash = world::block_hash(h, honest.hd.time, &honest.hd.proposer, &txs);
        self.stats.fault(if matches!(bz, ByzOp::Ext(_)) { "byz.ext-commit" } else { "byz.proposal" });
        let mut targets: Vec<usize> = live.iter().copied().filter(|n| mask & (1 << (*n as u8 % 8)) != 0 && *n != honest.by).collect();
        if targets.is_empty() {
            targets = live.iter().copied().filter(|n| *n != honest.by).take(1).collect();
        }
        if targets.is_empty() {
            // single live node: it prepared the base itself; showing it a different block is legal
            targets = vec![honest.by];
        }
        for n in targets {
            let req = world::process_request(&honest.hd, hash, txs.clone(), Some(last_commit.clone()));
            let node = &mut self.nodes[n];
            let storage = node.storage.clone();
            let res = guarded(node.app.as_mut().unwrap().process_proposal(req, storage)).await;
            self.nodes[n].path.push('x');
            let accepted = res.is_ok();
            self.trace.ev(&format!("byz h={h} r={ri} node={n} class={class} accepted={accepted}"));
            if let Err((true, e)) = &res {
                self.viol.push("C06", "process-proposal-panicked", &class, self.step, format!("h={h}: ProcessProposal panicked on a {class} proposal: {e}"));
                self.nodes[n].dead = true;
                continue;
            }
            let prop_id = if matches!(bz, ByzOp::Ext(_)) { "C15" } else { "C06" };
            if accepted && !expect_valid {
                self.viol.push(prop_id, "invalid-proposal-accepted", &class, self.step, format!("h={h}: node {n} accepted a proposal mutated by `{class}`"));
                if class == "duplicate-tx" {
                    // C03: a block in which one signed transaction takes effect twice was accepted
                    self.viol.push("C03", "replayed-transaction-accepted-in-block", "duplicate-in-proposal", self.step, format!("h={h}: node {n} executed and accepted a proposal containing the same transaction twice"));
                }
            }
            if !accepted && expect_valid {
                let msg = res.err().map(|e| e.1).unwrap_or_default();
                self.viol.push(prop_id, "valid-proposal-rejected", &class, self.step, format!("h={h}: node {n} rejected a proposal that is still valid after `{class}`: {msg}"));
            }
        }
    }

    /// Returns (mutated block data, whether it is still a valid proposal, mutation class).
    fn mutate(&mut self, honest: &Proposal, bz: &ByzOp, h: u64, has_ext_item: bool) -> Option<(Vec<Bytes>, bool, String)> {
        let (injected, parsed) = self.injected_count(&honest.txs, h, has_ext_item)?;
        let mut txs = honest.txs.clone();
        let n_user = txs.len() - injected;
        let class;
        match bz {
            ByzOp::CorruptCommitment(which) => {
                let i = (*which as usize) % 2;
                let mut b = txs[i].to_vec();
                let last = b.len() - 1;
                b[last] ^= 0x01;
                txs[i] = b.into();
                class = format!("corrupt-commitment-{i}");
            }
            ByzOp::DropTx(k) => {
                if n_user == 0 {
                    return None;
                }
                // only drops that change a commitment or open a nonce gap are certainly invalid
                let idx = (*k as usize) % n_user;
                let tx = decode_tx(&txs[injected + idx]).ok()?;
                let has_data = tx.actions().iter().any(|a| matches!(a, Action::RollupDataSubmission(_)));
                let signer = *tx.address_bytes();
                let later_same_signer = txs[injected + idx + 1..].iter().any(|r| decode_tx(r).map(|t| *t.address_bytes() == signer).unwrap_or(false));
                if !has_data && !later_same_signer {
                    return None;
                }
                // dropping a lock/transfer to a bridge also changes deposits; fine, still invalid
                txs.remove(injected + idx);
                class = "drop-tx".to_string();
            }
            ByzOp::DupTx(k) => {
                if n_user == 0 {
                    return None;
                }
                let idx = (*k as usize) % n_user;
                let t = txs[injected + idx].clone();
                // (an IbcRelay transaction that fails non-fatally leaves its nonce unused, so a
                // second copy of it fails the same way and the block stays acceptable)
                if decode_tx(&t).ok()?.actions().iter().any(|a| matches!(a, Action::Ibc(_))) {
                    return None;
                }
                txs.push(t);
                class = "duplicate-tx".to_string();
            }
            ByzOp::CorruptTxByte(k, off) => {
                if n_user == 0 {
                    return None;
                }
                let idx = (*k as usize) % n_user;
                let mut b = txs[injected + idx].to_vec();
                let o = (*off as usize) % b.len();
                b[o] ^= 0x20;
                txs[injected + idx] = b.into();
                class = "corrupt-tx-byte".to_string();
            }
            ByzOp::InsertOverdraft => {
                // a correctly signed transfer of more than the stranger account owns
                let key = self.keys.key(self.cfg.n_accounts).clone();
                // more than the whole supply of the native asset: no earlier transaction of the same
                // block can have funded it
                let owned = match self.prev_totals.get(&asset_id(&denom(0))) {
                    Some((0, lo)) => *lo,
                    _ => return None,
                };
                let body = TransactionBody::builder()
                    .actions(vec![Action::Transfer(act::Transfer {
                        to: self.keys.address(0),
                        amount: owned.checked_add(1)?,
                        asset: denom(0),
                        fee_asset: denom(self.cfg.fee_assets[0]),
                    })])
                    .chain_id(CHAIN_ID)
                    .nonce(0)
                    .try_build()
                    .ok()?;
                let tx = body.sign(&key);
                txs.push(tx.into_raw().encode_to_vec().into());
                class = "insert-unfunded-tx".to_string();
            }
            ByzOp::SwapGroups => {
                // find two adjacent user txs of different groups and swap them
                let mut found = None;
                for i in 0..n_user.saturating_sub(1) {
                    let a = decode_tx(&txs[injected + i]).ok()?;
                    let b = decode_tx(&txs[injected + i + 1]).ok()?;
                    if a.group() != b.group() {
                        found = Some(i);
                        break;
                    }
                }
                let i = found?;
                txs.swap(injected + i, injected + i + 1);
                class = "group-order".to_string();
            }
            ByzOp::Oversize => {
                // everything valid (signatures, nonces, funds, group order, recomputed
                // commitments) except that the block carries more than 256 000 bytes of sequenced data
                use astria_core::sequencerblock::v1::{
                    block::RollupData,
                    DataItem,
                };
                let mut signers_in_block = BTreeSet::new();
                for raw in &txs[injected..] {
                    let tx = decode_tx(raw).ok()?;
                    signers_in_block.insert(*tx.address_bytes());
                    if tx.actions().iter().any(|a| matches!(a, Action::BridgeLock(_) | Action::BridgeTransfer(_) | Action::Ibc(_))) {
                        return None; // deposits would enter the commitment
                    }
                }
                let fee_asset = (0..N_ASSETS).map(denom).find(|d| self.model.fee_assets.contains(&asset_id(d)))?;
                let (base, mult) = self.model.fees.get("RollupDataSubmission").copied().flatten()?;
                let per_tx = mult.checked_mul(60_000)?.checked_add(base)?;
                let need = per_tx.checked_mul(5)?;
                let who = (0..self.cfg.n_accounts).find(|i| {
                    let a = self.keys.addr(*i);
                    !signers_in_block.contains(&a) && !self.model.bridges.contains_key(&a) && self.model.bal(&a, &asset_id(&fee_asset)) >= need
                })?;
                let key = self.keys.key(who).clone();
                let nonce0 = self.ledger.nonces.get(&self.keys.addr(who)).copied().unwrap_or(0);
                let mut extra = Vec::new();
                let n_extra: u32 = std::env::var("VERIF_OVERSIZE_N").ok().and_then(|v| v.parse().ok()).unwrap_or(5);
                for k in 0..n_extra {
                    let body = TransactionBody::builder()
                        .actions(vec![Action::RollupDataSubmission(act::RollupDataSubmission {
                            rollup_id: world::rollup_id(0),
                            data: Bytes::from(vec![k as u8; 60_000]),
                            fee_asset: fee_asset.clone(),
                        })])
                        .chain_id(CHAIN_ID)
                        .nonce(nonce0 + k)
                        .try_build()
                        .ok()?;
                    extra.push(Bytes::from(body.sign(&key).into_raw().encode_to_vec()));
                }
                let mut user: Vec<Bytes> = extra;
                user.extend(txs[injected..].iter().cloned());
                // recompute both commitments over the new transaction list
                let mut by_rollup: indexmap::IndexMap<astria_core::primitive::v1::RollupId, Vec<Bytes>> = indexmap::IndexMap::new();
                for raw in &user {
                    let tx = decode_tx(raw).ok()?;
                    for a in tx.actions() {
                        if let Action::RollupDataSubmission(r) = a {
                            by_rollup.entry(r.rollup_id).or_default().push(RollupData::SequencedData(r.data.clone()).into_raw().encode_to_vec().into());
                        }
                    }
                }
                by_rollup.sort_unstable_keys();
                let ids_root = merkle::Tree::from_leaves(by_rollup.keys()).root();
                let datas_root = astria_core::primitive::v1::derive_merkle_tree_from_rollup_txs(&by_rollup).root();
                let uses_items = self.cfg.aspen.is_some_and(|a| h >= a);
                let (c0, c1): (Bytes, Bytes) = if uses_items {
                    (DataItem::RollupTransactionsRoot(datas_root).encode(), DataItem::RollupIdsRoot(ids_root).encode())
                } else {
                    (datas_root.to_vec().into(), ids_root.to_vec().into())
                };
                let mut out = vec![c0, c1];
                out.extend(txs[2..injected].iter().cloned());
                out.extend(user);
                txs = out;
                class = "oversize-sequenced-data".to_string();
            }
            ByzOp::DropDataItem(k) => {
                let i = (*k as usize) % injected;
                txs.remove(i);
                class = format!("drop-data-item-{i}-of-{injected}");
                // dropping item 2+ of a pre-Aspen block is impossible (there are only 2)
            }
            ByzOp::SwapDataItems => {
                txs.swap(0, 1);
                if txs[0] == txs[1] {
                    return None;
                }
                class = "swap-commitments".to_string();
            }
            ByzOp::Ext(m) => {
                return self.mutate_ext(honest, m, h, injected, &parsed);
            }
        }
        Some((txs, false, class))
    }

    fn sign_ext(&self, addr: &Addr, ext: &[u8], height: u64, round: i64, chain: &str, other_key: bool) -> Option<tendermint::Signature> {
        let key = if other_key {
            self.keys.vkeys.iter().find(|k| k.address_bytes() != *addr)?
        } else {
            self.keys.vkey_by_addr(addr)?
        };
        let canon = tendermint_proto::v0_38::types::CanonicalVoteExtension {
            extension: ext.to_vec(),
            height: height as i64,
            round,
            chain_id: chain.to_string(),
        };
        let s = key.sign(&canon.encode_length_delimited_to_vec());
        tendermint::Signature::try_from(s.to_bytes().as_slice()).ok()
    }

    /// Mutations of the extended-commit data item of an honest proposal whose extended commit is
    /// non-empty (and therefore was acceptable). Returns the mutated block data, whether the
    /// result is still acceptable by the rules of C15, and the mutation class.
    fn mutate_ext(&mut self, honest: &Proposal, m: &ExtMut, h: u64, injected: usize, parsed: &ExpandedBlockData) -> Option<(Vec<Bytes>, bool, String)> {
        use astria_core::sequencerblock::v1::DataItem;
        let with_proof = parsed.extended_commit_info_with_proof.as_ref()?;
        let mut mapping = with_proof.extended_commit_info().clone();
        if mapping.extended_commit_info.votes.is_empty() {
            return None;
        }
        let item_index = injected - 1;
        let round = i64::from(mapping.extended_commit_info.round.value());
        let commit_idx: Vec<usize> = mapping.extended_commit_info.votes.iter().enumerate().filter(|(_, v)| v.sig_info == vote_flag(0) && v.extension_signature.is_some()).map(|(i, _)| i).collect();
        let non_commit_idx: Vec<usize> = mapping.extended_commit_info.votes.iter().enumerate().filter(|(_, v)| v.sig_info != vote_flag(0)).map(|(i, _)| i).collect();
        let pick = |k: u8, v: &Vec<usize>| -> Option<usize> { if v.is_empty() { None } else { Some(v[k as usize % v.len()]) } };
        let mut valid = false;
        let class: &str;
        {
            let votes = &mut mapping.extended_commit_info.votes;
            match m {
                ExtMut::CorruptSig(k) => {
                    let i = pick(*k, &commit_idx)?;
                    let mut b = votes[i].extension_signature.as_ref()?.as_bytes().to_vec();
                    b[7] ^= 0x10;
                    votes[i].extension_signature = tendermint::Signature::try_from(b.as_slice()).ok();
                    class = "ext-corrupt-signature";
                }
                ExtMut::DropSig(k) => {
                    let i = pick(*k, &commit_idx)?;
                    votes[i].extension_signature = None;
                    class = "ext-missing-signature";
                }
                ExtMut::SwapExtensions => {
                    if commit_idx.len() < 2 {
                        return None;
                    }
                    let (a, b) = (commit_idx[0], commit_idx[1]);
                    if votes[a].vote_extension == votes[b].vote_extension {
                        return None;
                    }
                    let t = votes[a].vote_extension.clone();
                    votes[a].vote_extension = votes[b].vote_extension.clone();
                    votes[b].vote_extension = t;
                    class = "ext-swapped-between-validators";
                }
                ExtMut::DupVote(k) => {
                    let i = *k as usize % votes.len();
                    let v = votes[i].clone();
                    votes.push(v);
                    class = "ext-duplicate-vote";
                }
                ExtMut::ChangeAddress(k) => {
                    let absent: Vec<usize> = votes.iter().enumerate().filter(|(_, v)| v.sig_info == vote_flag(2)).map(|(i, _)| i).collect();
                    let i = if k % 2 == 1 && !absent.is_empty() { absent[*k as usize % absent.len()] } else { *k as usize % votes.len() };
                    votes[i].validator.address[3] ^= 0x55;
                    class = "ext-address-differs-from-last-commit";
                }
                ExtMut::ChangePower(k) => {
                    let absent: Vec<usize> = votes.iter().enumerate().filter(|(_, v)| v.sig_info == vote_flag(2)).map(|(i, _)| i).collect();
                    let i = if k % 2 == 1 && !absent.is_empty() { absent[*k as usize % absent.len()] } else { *k as usize % votes.len() };
                    let i = i % votes.len();
                    let p = votes[i].validator.power.value();
                    votes[i].validator.power = tendermint::vote::Power::try_from(p + 1).ok()?;
                    class = "ext-power-differs-from-last-commit";
                }
                ExtMut::ChangeRound => {
                    let r = mapping.extended_commit_info.round.value();
                    mapping.extended_commit_info.round = Round::try_from(r + 1).ok()?;
                    class = "ext-round-differs-from-last-commit";
                }
                ExtMut::BelowThreshold | ExtMut::ReorderVotes => {
                    // prune signers (as a proposer legitimately may) down to just above / to at or
                    // below two thirds of the listed power
                    let keep_quorum = matches!(m, ExtMut::ReorderVotes);
                    let total: u128 = votes.iter().map(|v| u128::from(v.validator.power.value())).sum();
                    let mut signed: u128 = commit_idx.iter().map(|i| u128::from(votes[*i].validator.power.value())).sum();
                    let mut pruned = 0;
                    // smallest powers first
                    let mut order = commit_idx.clone();
                    order.sort_by_key(|i| votes[*i].validator.power.value());
                    for i in order {
                        let p = u128::from(votes[i].validator.power.value());
                        let after = signed - p;
                        if keep_quorum {
                            if after * 3 > total * 2 {
                                signed = after;
                            } else {
                                continue;
                            }
                        } else {
                            if signed * 3 <= total * 2 {
                                break;
                            }
                            signed = after;
                        }
                        votes[i].sig_info = vote_flag(2);
                        votes[i].vote_extension = Bytes::new();
                        votes[i].extension_signature = None;
                        pruned += 1;
                    }
                    if pruned == 0 {
                        return None;
                    }
                    if keep_quorum {
                        if signed * 3 <= total * 2 {
                            return None;
                        }
                        valid = true;
                        class = "ext-pruned-but-still-above-two-thirds";
                        // dropping a vote's extension may orphan ids in the mapping; keep only
                        // mutations that do not change the set of ids
                        let ids = |vs: &[ExtendedVoteInfo]| -> BTreeSet<u64> {
                            let mut s = BTreeSet::new();
                            for v in vs {
                                if let Ok(r) = astria_core::generated::price_feed::abci::v2::OracleVoteExtension::decode(v.vote_extension.as_ref()) {
                                    s.extend(r.prices.keys().copied());
                                }
                            }
                            s
                        };
                        if ids(votes) != ids(&with_proof.extended_commit_info().extended_commit_info.votes) {
                            return None;
                        }
                    } else {
                        if signed * 3 > total * 2 {
                            return None;
                        }
                        class = "ext-signed-power-at-or-below-two-thirds";
                    }
                    if (signed * 3).abs_diff(total * 2) <= 3 {
                        self.stats.probe("ve.near-threshold");
                    }
                }
                ExtMut::WrongMapping => {
                    class = "ext-wrong-id-to-pair-mapping";
                    // handled below (needs the mapping, not the votes)
                }
                ExtMut::ExtOnNil(k) => {
                    let i = pick(*k, &non_commit_idx)?;
                    let addr = votes[i].validator.address;
                    let ext = encode_ext(&ExtKind::Prices(vec![(0, 1)]));
                    votes[i].extension_signature = self.sign_ext(&addr, &ext, h - 1, round, CHAIN_ID, false);
                    votes[i].vote_extension = ext.into();
                    class = "ext-on-non-commit-vote";
                }
                ExtMut::ResignWrongHeight(k) | ExtMut::ResignWrongChain(k) | ExtMut::ResignOtherKey(k) => {
                    let i = pick(*k, &commit_idx)?;
                    let addr = votes[i].validator.address;
                    let ext = votes[i].vote_extension.to_vec();
                    let (hh, chain, other, c) = match m {
                        ExtMut::ResignWrongHeight(_) => (h, CHAIN_ID, false, "ext-signed-for-other-height"),
                        ExtMut::ResignWrongChain(_) => (h - 1, "other-chain", false, "ext-signed-for-other-chain"),
                        _ => (h - 1, CHAIN_ID, true, "ext-signed-by-other-validator"),
                    };
                    votes[i].extension_signature = Some(self.sign_ext(&addr, &ext, hh, round, chain, other)?);
                    class = c;
                }
                ExtMut::DropVote(k) => {
                    let i = *k as usize % votes.len();
                    votes.remove(i);
                    if votes.is_empty() {
                        // an empty extended commit (same round) is always acceptable
                        valid = true;
                        class = "ext-all-votes-removed";
                    } else {
                        class = "ext-vote-removed";
                    }
                }
            }
        }
        if matches!(m, ExtMut::WrongMapping) {
            if let Some((_, info)) = mapping.id_to_currency_pair.iter_mut().next() {
                info.decimals = info.decimals.wrapping_add(1);
            } else {
                mapping.id_to_currency_pair.insert(
                    astria_core::oracles::price_feed::types::v2::CurrencyPairId::new(77),
                    astria_core::protocol::price_feed::v1::CurrencyPairInfo { currency_pair: "FOO/BAR".parse().ok()?, decimals: 3 },
                );
            }
        }
        let mut txs = honest.txs.clone();
        txs[item_index] = DataItem::ExtendedCommitInfo(mapping.into_raw().encode_to_vec().into()).encode();
        Some((txs, valid, class.to_string()))
    }

    /// C15: published prices come only from an extended commit carried by the block, and each lies
    /// between the smallest and largest price reported for that pair in that block.
    fn check_prices(&mut self, h: u64, parsed: &ExpandedBlockData, resp: &abci::response::FinalizeBlock) {
        let mut published: Vec<(String, i128)> = Vec::new();
        for ev in &resp.events {
            if ev.kind == "price_update" {
                let attr = |k: &str| ev.attributes.iter().find(|a| a.key_str().ok() == Some(k)).and_then(|a| a.value_str().ok().map(str::to_string)).unwrap_or_default();
                if let Ok(p) = attr("price").parse::<i128>() {
                    published.push((attr("currency_pair"), p));
                }
            }
        }
        let Some(with_proof) = parsed.extended_commit_info_with_proof.as_ref() else {
            if !published.is_empty() {
                self.viol.push("C15", "prices-updated-without-extended-commit", "no-ext-item", self.step, format!("h={h}: {} prices published by a block without extended commit info", published.len()));
            }
            return;
        };
        let mapping = with_proof.extended_commit_info();
        let votes = &mapping.extended_commit_info.votes;
        if votes.is_empty() && !published.is_empty() {
            self.viol.push("C15", "prices-updated-without-extended-commit", "empty-ext-commit", self.step, format!("h={h}: prices published although the extended commit is empty"));
            return;
        }
        // independent quorum check of what was decided (exact arithmetic)
        let total: u128 = votes.iter().map(|v| u128::from(v.validator.power.value())).sum();
        let signed: u128 = votes.iter().filter(|v| v.sig_info == vote_flag(0)).map(|v| u128::from(v.validator.power.value())).sum();
        if !published.is_empty() && signed * 3 <= total * 2 {
            self.viol.push("C15", "prices-updated-below-two-thirds", "decided-block", self.step, format!("h={h}: prices published with signed power {signed} of {total}"));
        }
        // every contributing extension must be validly signed by its validator (the app's stored key
        // = the reference model's validator set, see C14)
        for v in votes.iter().filter(|v| v.sig_info == vote_flag(0)) {
            let ok = match (&v.extension_signature, self.keys.vkey_by_addr(&v.validator.address)) {
                (Some(sig), Some(key)) => {
                    let canon = tendermint_proto::v0_38::types::CanonicalVoteExtension {
                        extension: v.vote_extension.to_vec(),
                        height: (h - 1) as i64,
                        round: i64::from(mapping.extended_commit_info.round.value()),
                        chain_id: CHAIN_ID.to_string(),
                    };
                    astria_core::crypto::Signature::try_from(sig.as_bytes()).ok().is_some_and(|s| key.verification_key().verify(&s, &canon.encode_length_delimited_to_vec()).is_ok())
                }
                _ => false,
            };
            if !ok {
                self.viol.push("C15", "decided-block-carries-invalid-extension-signature", "decided-block", self.step, format!("h={h}: a decided block carries an extension of validator {} without a valid signature", hex::encode(&v.validator.address[..4])));
            }
        }
        if !published.is_empty() {
            self.stats.probe_n("oracle.price-published", published.len() as u64);
        }
        for (pair, price) in published {
            let ids: Vec<u64> = mapping.id_to_currency_pair.iter().filter(|(_, info)| info.currency_pair.to_string() == pair).map(|(id, _)| id.get()).collect();
            let mut reported: Vec<i128> = Vec::new();
            for v in votes {
                if let Ok(r) = astria_core::generated::price_feed::abci::v2::OracleVoteExtension::decode(v.vote_extension.as_ref()) {
                    for (id, bytes) in r.prices {
                        if ids.contains(&id) {
                            if let Ok(b) = <[u8; 16]>::try_from(bytes.as_ref()) {
                                reported.push(i128::from_be_bytes(b));
                            }
                        }
                    }
                }
            }
            let (lo, hi) = (reported.iter().min().copied(), reported.iter().max().copied());
            match (lo, hi) {
                (Some(lo), Some(hi)) if lo <= price && price <= hi => {}
                _ => self.viol.push("C15", "published-price-outside-reported-range", "price-range", self.step, format!("h={h}: published price {price} for {pair} but validators reported {reported:?}")),
            }
        }
    }

    // --------------------------------------------------------------------------------------------
    // vote extensions
    // --------------------------------------------------------------------------------------------

    async fn make_ext_commit(&mut self, h: u64, round: u8, b: &BlockOp) {
        let enabled = self.ve_enabled_at(h).await;
        let set = self.voting_set(h);
        // CometBFT orders validators by voting power (descending), then address
        let mut order: Vec<(&Addr, &(u64, [u8; 32]))> = set.iter().collect();
        order.sort_by(|a, b| b.1 .0.cmp(&a.1 .0).then(a.0.cmp(b.0)));
        let mut votes = Vec::new();
        let total: u128 = order.iter().map(|(_, (p, _))| u128::from(*p)).sum();
        let mut signed: u128 = 0;
        let verify_node = {
            let up = self.up_nodes();
            if up.is_empty() { None } else { Some(up[b.verify_on as usize % up.len()]) }
        };
        for (i, (addr, (power, _))) in order.iter().enumerate() {
            let plan = b.votes.get(i).cloned().unwrap_or(VoteOp { flag: 0, ext: ExtKind::Prices(vec![(0, 100), (1, 200)]) });
            let mut flag = plan.flag;
            let mut ext: Vec<u8> = Vec::new();
            let mut sig = None;
            if enabled && flag == 0 {
                ext = encode_ext(&plan.ext);
                if !matches!(plan.ext, ExtKind::Empty | ExtKind::Prices(_)) {
                    self.stats.fault("ve.malformed");
                }
                // honest validators drop a precommit whose extension their application rejects
                if !ext.is_empty() {
                    if let Some(vn) = verify_node {
                        let req = abci::request::VerifyVoteExtension {
                            hash: self.history.last().map_or(Hash::None, |d| d.hash),
                            validator_address: account::Id::new(**addr),
                            height: tendermint::block::Height::try_from(h).unwrap(),
                            vote_extension: Bytes::from(ext.clone()),
                        };
                        let node = &mut self.nodes[vn];
                        let res = guarded(node.app.as_mut().unwrap().verify_vote_extension(req)).await;
                        match res {
                            Ok(abci::response::VerifyVoteExtension::Accept) => {}
                            Ok(_) => {
                                self.stats.probe("ve.rejected-by-verify");
                                flag = 2;
                                ext.clear();
                            }
                            Err((panicked, e)) => {
                                if panicked {
                                    self.viol.push("C15", "verify-vote-extension-panicked", "verify", self.step, format!("h={h}: VerifyVoteExtension panicked: {e}"));
                                    self.nodes[vn].dead = true;
                                }
                                flag = 2;
                                ext.clear();
                            }
                        }
                    }
                }
                if flag == 0 {
                    if let Some(key) = self.keys.vkey_by_addr(addr) {
                        let canon = tendermint_proto::v0_38::types::CanonicalVoteExtension {
                            extension: ext.clone(),
                            height: h as i64,
                            round: i64::from(round),
                            chain_id: CHAIN_ID.to_string(),
                        };
                        let msg = canon.encode_length_delimited_to_vec();
                        let s = key.sign(&msg);
                        sig = tendermint::Signature::try_from(s.to_bytes().as_slice()).ok();
                        signed += u128::from(*power);
                    } else {
                        flag = 2;
                        ext.clear();
                    }
                }
            }
            votes.push(ExtendedVoteInfo {
                validator: abci::types::Validator { address: **addr, power: tendermint::vote::Power::try_from(*power).unwrap_or_default() },
                sig_info: vote_flag(flag),
                vote_extension: Bytes::from(ext),
                extension_signature: sig,
            });
        }
        if enabled && total > 0 {
            let diff = (signed * 3).abs_diff(total * 2);
            if diff <= 3 {
                self.stats.probe("ve.near-threshold");
            }
            if signed * 3 > total * 2 {
                self.stats.probe("ve.quorum");
            } else {
                self.stats.probe("ve.no-quorum");
            }
        }
        self.trace.ev(&format!("votes h={h} enabled={enabled} signed={signed}/{total}"));
        self.ext_commit = ExtendedCommitInfo { round: Round::from(round), votes };
    }
}

fn encode_ext(kind: &ExtKind) -> Vec<u8> {
    use astria_core::generated::price_feed::abci::v2::OracleVoteExtension as RawExt;
    match kind {
        ExtKind::Empty => Vec::new(),
        ExtKind::Prices(ps) => {
            let prices = ps.iter().map(|(id, p)| (*id, Bytes::copy_from_slice(&p.to_be_bytes()))).collect();
            RawExt { prices }.encode_to_vec()
        }
        ExtKind::BadLen(len) => {
            let mut prices = std::collections::BTreeMap::new();
            prices.insert(0u64, Bytes::from(vec![1u8; *len as usize]));
            RawExt { prices: prices.into_iter().collect() }.encode_to_vec()
        }
        ExtKind::TooMany => {
            let prices = (0..40u64).map(|i| (i, Bytes::copy_from_slice(&(i as i128 + 1).to_be_bytes()))).collect();
            RawExt { prices }.encode_to_vec()
        }
        ExtKind::Garbage => vec![0xff, 0xff, 0xff, 0x07, 0x01],
    }
}

fn decode_tx(raw: &Bytes) -> Result<Transaction, String> {
    let r = raw_tx::Transaction::decode(raw.as_ref()).map_err(|e| e.to_string())?;
    Transaction::try_from_raw(r).map_err(|e| e.to_string())
}

fn action_kind(a: &Action) -> &'static str {
    match a {
        Action::RollupDataSubmission(_) => "Rollup",
        Action::Transfer(_) => "Transfer",
        Action::ValidatorUpdate(_) => "ValidatorUpdate",
        Action::SudoAddressChange(_) => "SudoChange",
        Action::Ibc(_) => "Ibc",
        Action::IbcSudoChange(_) => "IbcSudoChange",
        Action::Ics20Withdrawal(_) => "Ics20Withdrawal",
        Action::IbcRelayerChange(_) => "RelayerChange",
        Action::FeeAssetChange(_) => "FeeAssetChange",
        Action::InitBridgeAccount(_) => "InitBridge",
        Action::BridgeLock(_) => "BridgeLock",
        Action::BridgeUnlock(_) => "BridgeUnlock",
        Action::BridgeSudoChange(_) => "BridgeSudoChange",
        Action::BridgeTransfer(_) => "BridgeTransfer",
        Action::FeeChange(_) => "FeeChange",
        Action::RecoverIbcClient(_) => "RecoverIbcClient",
        Action::CurrencyPairsChange(_) => "CurrencyPairs",
        Action::MarketsChange(_) => "Markets",
    }
}

/// Stable class of an error chain: its root cause with values removed.
fn err_class(e: &str) -> String {
    let root = e.rsplit(": ").next().unwrap_or(e);
    let mut out = String::new();
    let mut in_tick = false;
    for c in root.chars() {
        if c == '`' {
            in_tick = !in_tick;
            continue;
        }
        if in_tick || c.is_ascii_digit() {
            continue;
        }
        out.push(if c.is_ascii_alphabetic() { c.to_ascii_lowercase() } else { '-' });
    }
    let mut s: String = out.split('-').filter(|w| !w.is_empty()).collect::<Vec<_>>().join("-");
    s.truncate(70);
    s
}

/// Which part of two FinalizeBlock responses differs first.
fn resp_diff_class(a: &abci::response::FinalizeBlock, b: &abci::response::FinalizeBlock) -> &'static str {
    if a.app_hash != b.app_hash {
        "app-hash"
    } else if a.tx_results != b.tx_results {
        "tx-results"
    } else if a.validator_updates != b.validator_updates {
        "validator-updates"
    } else if a.consensus_param_updates != b.consensus_param_updates {
        "consensus-params"
    } else {
        "block-events"
    }
}

/// Normalises a node's call path within one height to a class used in signatures.
fn path_class(p: &str) -> String {
    // P prepare, p processed the decided block, x processed/prepared something else, F finalize,
    // R restarted, S synced
    let mut s = String::new();
    let mut last = ' ';
    for c in p.chars() {
        if c != last {
            s.push(c);
        }
        last = c;
    }
    if s.is_empty() { "-".into() } else { s }
}

fn first_diff(a: &str, b: &str) -> String {
    let i = a.bytes().zip(b.bytes()).position(|(x, y)| x != y).unwrap_or(a.len().min(b.len()));
    let lo = i.saturating_sub(80);
    let clip = |s: &str| -> String {
        let s = s.as_bytes();
        let hi = (i + 160).min(s.len());
        String::from_utf8_lossy(&s[lo.min(s.len())..hi]).to_string()
    };
    format!("at byte {i}: `{}` vs `{}`", clip(a), clip(b))
}

#[allow(dead_code)]
fn _unused(_: &dyn Fn() -> Result<(), String>) {
    let _ = catch(|| ());
}
