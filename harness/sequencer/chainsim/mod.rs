//! E1 `chainsim`: N sequencer nodes (real `App`, real `Mempool`, real cnidarium storage) under a
//! model CometBFT that only issues ABCI++-legal call sequences, with a reference ledger as oracle.
//!
//! See /verif/DESIGN.md sections 4 (E1) and 5 (C01–C06, C14, C15, C18).

pub(crate) mod model;
pub(crate) mod ops;
pub(crate) mod runner;
pub(crate) mod world;
pub(crate) mod ibc_stub;

use serde::{
    Deserialize,
    Serialize,
};

use super::common::{
    Engine,
    Outcome,
};
pub(crate) use ops::{
    Config,
    Op,
};

#[derive(Serialize, Deserialize, Clone, Debug)]
pub(crate) struct Scenario {
    pub(crate) profile: String,
    pub(crate) cfg: Config,
    pub(crate) ops: Vec<Op>,
}

pub(crate) struct ChainSim;

impl Engine for ChainSim {
    type Scenario = Scenario;

    const NAME: &'static str = "chainsim";

    fn generate(profile: &str, tier: &str, seed: u64) -> Scenario {
        ops::generate(profile, tier, seed)
    }

    fn run(scenario: &Scenario) -> Outcome {
        runner::run(scenario)
    }

    fn len(scenario: &Scenario) -> usize {
        scenario.ops.len()
    }

    fn retain(scenario: &Scenario, keep: &[bool]) -> Scenario {
        let mut s = scenario.clone();
        s.ops = scenario
            .ops
            .iter()
            .zip(keep)
            .filter(|(_, k)| **k)
            .map(|(o, _)| o.clone())
            .collect();
        s
    }

    fn simplify(scenario: &Scenario) -> Vec<Scenario> {
        ops::simplify(scenario)
    }

    fn summarize(scenario: &Scenario) -> serde_json::Value {
        ops::summarize(scenario)
    }
}
