//! Stub of the IBC *core* (hook H3). The penumbra IBC core verifies ICS-23 membership proofs
//! against light-client consensus states of the counterparty chain, which cannot be produced
//! offline without simulating a second chain and its light client. When the simulator enables the
//! stub, a relayed `RecvPacket` / `Acknowledgement` / `Timeout` message is sequenced exactly as
//! the core does it (channel must be open, packet must be new / commitment must exist and match,
//! receipt and commitment bookkeeping, timeout checks) but the proof verification step is
//! skipped; the REAL ICS-20 application handler (`Ics20Transfer`, the code under test) is then
//! invoked through the same `AppHandlerCheck` / `AppHandlerExecute` entry points the core uses.

use std::cell::Cell;

use astria_eyre::eyre::{
    bail,
    eyre,
    Result,
};
use cnidarium::StateWrite;
use ibc_types::core::channel::{
    channel::State as ChannelState,
    Packet,
    PortId,
};
use penumbra_ibc::{
    component::{
        app_handler::{
            AppHandlerCheck as _,
            AppHandlerExecute as _,
        },
        ChannelStateReadExt as _,
        ChannelStateWriteExt as _,
        HostInterface as _,
    },
    IbcRelay,
};
use sha2::{
    Digest as _,
    Sha256,
};

use crate::ibc::{
    host_interface::AstriaHost,
    ics20_transfer::Ics20Transfer,
};

thread_local! {
    static ENABLED: Cell<bool> = const { Cell::new(false) };
}

pub(crate) fn enable(on: bool) {
    ENABLED.with(|e| e.set(on));
}

pub(crate) fn commit_packet(packet: &Packet) -> Vec<u8> {
    let mut commit = vec![];
    commit.extend_from_slice(&packet.timeout_timestamp_on_b.nanoseconds().to_be_bytes());
    commit.extend_from_slice(&packet.timeout_height_on_b.commitment_revision_number().to_be_bytes());
    commit.extend_from_slice(&packet.timeout_height_on_b.commitment_revision_height().to_be_bytes());
    commit.extend_from_slice(&Sha256::digest(&packet.data)[..]);
    Sha256::digest(&commit).to_vec()
}

fn any<E: std::fmt::Display>(e: E) -> astria_eyre::eyre::Report {
    eyre!("{e:#}")
}

/// Returns `None` when the stub is off or the message is not a packet message (the real core then
/// handles it).
pub(crate) async fn execute<S: StateWrite>(action: &IbcRelay, state: &mut S) -> Option<Result<()>> {
    if !ENABLED.with(Cell::get) {
        return None;
    }
    match action {
        IbcRelay::RecvPacket(msg) => Some(recv(msg, state).await),
        IbcRelay::Acknowledgement(msg) => Some(ack(msg, state).await),
        IbcRelay::Timeout(msg) => Some(timeout(msg, state).await),
        _ => None,
    }
}

async fn recv<S: StateWrite>(msg: &ibc_types::core::channel::msgs::MsgRecvPacket, mut state: &mut S) -> Result<()> {
    let packet = &msg.packet;
    let channel = state
        .get_channel(&packet.chan_on_b, &packet.port_on_b)
        .await
        .map_err(any)?
        .ok_or_else(|| eyre!("channel not found"))?;
    if !channel.state_matches(&ChannelState::Open) {
        bail!("channel is not open");
    }
    if packet.port_on_a != channel.counterparty().port_id {
        bail!("packet source port does not match channel");
    }
    if Some(&packet.chan_on_a) != channel.counterparty().channel_id() {
        bail!("packet source channel does not match channel");
    }
    let block_height = AstriaHost::get_block_height(&state).await.map_err(any)?;
    let height = ibc_types::core::client::Height::new(AstriaHost::get_revision_number(&state).await.map_err(any)?, block_height).map_err(any)?;
    if packet.timeout_height_on_b.has_expired(height) {
        bail!("packet has timed out");
    }
    if let Some(t) = packet.timeout_timestamp_on_b.into_tm_time() {
        let block_time = AstriaHost::get_block_timestamp(&state).await.map_err(any)?;
        if block_time >= t {
            bail!("packet has timed out (timestamp)");
        }
    }
    // (proof of the packet commitment on the counterparty: skipped, see module docs)
    if state.seen_packet(packet).await.map_err(any)? {
        bail!("packet has already been processed");
    }
    if packet.port_on_b != PortId::transfer() {
        bail!("invalid port id");
    }
    Ics20Transfer::recv_packet_check(&mut state, msg).await.map_err(any)?;
    state.put_packet_receipt(packet);
    Ics20Transfer::recv_packet_execute(&mut state, msg).await.map_err(any)?;
    Ok(())
}

async fn outgoing_checks<S: StateWrite>(packet: &Packet, state: &mut S) -> Result<()> {
    let channel = state
        .get_channel(&packet.chan_on_a, &packet.port_on_a)
        .await
        .map_err(any)?
        .ok_or_else(|| eyre!("channel not found"))?;
    if !channel.state_matches(&ChannelState::Open) {
        bail!("channel is not open");
    }
    if channel.counterparty().port_id() != &packet.port_on_b {
        bail!("packet destination port does not match channel");
    }
    if channel.counterparty().channel_id() != Some(&packet.chan_on_b) {
        bail!("packet destination channel does not match channel");
    }
    let commitment = state
        .get_packet_commitment(packet)
        .await
        .map_err(any)?
        .ok_or_else(|| eyre!("packet commitment not found"))?;
    if commitment != commit_packet(packet) {
        bail!("packet commitment does not match");
    }
    Ok(())
}

async fn ack<S: StateWrite>(msg: &ibc_types::core::channel::msgs::MsgAcknowledgement, mut state: &mut S) -> Result<()> {
    let packet = &msg.packet;
    outgoing_checks(packet, state).await?;
    // (proof of the acknowledgement on the counterparty: skipped)
    if packet.port_on_b != PortId::transfer() {
        bail!("invalid port id");
    }
    Ics20Transfer::acknowledge_packet_check(&mut state, msg).await.map_err(any)?;
    state.delete_packet_commitment(&packet.chan_on_a, &packet.port_on_a, packet.sequence.into());
    Ics20Transfer::acknowledge_packet_execute(&mut state, msg).await.map_err(any)?;
    Ok(())
}

async fn timeout<S: StateWrite>(msg: &ibc_types::core::channel::msgs::MsgTimeout, mut state: &mut S) -> Result<()> {
    let packet = &msg.packet;
    outgoing_checks(packet, state).await?;
    // (proof of non-receipt on the counterparty and "timeout has passed there": skipped; the model
    // counterparty only times out packets it never received)
    if packet.port_on_b != PortId::transfer() {
        bail!("invalid port id");
    }
    Ics20Transfer::timeout_packet_check(&mut state, msg).await.map_err(any)?;
    state.delete_packet_commitment(&packet.chan_on_a, &packet.port_on_a, packet.sequence.into());
    Ics20Transfer::timeout_packet_execute(&mut state, msg).await.map_err(any)?;
    Ok(())
}
