//! Stand-alone root for developing the `mempoolsim` engine (E2, property C13).
//!
//! The shared `/verif/harness/sequencer/mod.rs` mounts the engine as `mod mempoolsim;`; this file
//! mounts exactly the same engine module plus the kernel so that the engine can be built on its
//! own. The engine refers to the kernel as `crate::verif::common`.
#![allow(dead_code, unreachable_pub, clippy::all, clippy::pedantic)]

#[path = "/verif/harness/common/mod.rs"]
pub(crate) mod common;

#[path = "/verif/harness/sequencer/mempoolsim/mod.rs"]
pub(crate) mod mempoolsim;

#[test]
fn verif_main() {
    let Some(job) = common::read_job() else {
        return;
    }; // inert unless VERIF_JOB is set
    match job.engine.as_str() {
        "mempoolsim" => common::engine_main::<mempoolsim::MempoolSim>(&job),
        other => panic!("unknown engine {other}"),
    }
}
