//! The hand-written executor of the mempool simulation.
//!
//! Simulated tasks are boxed futures. Exactly one task is polled per *step*; which one is a pure
//! function of (`sched_seed`, the set of runnable tasks, their stable op ids and how often each has
//! been polled). A task is runnable iff its waker has been invoked since its last poll (every task
//! starts runnable). Tasks blocked on the mempool's `tokio::sync::RwLock` are woken by tokio's own
//! lock implementation through the custom waker; tasks blocked on harness conditions are woken by
//! `Notify`.
#![allow(dead_code, unreachable_pub, clippy::all, clippy::pedantic)]

use std::{
    cell::RefCell,
    future::Future,
    pin::Pin,
    sync::{
        atomic::{
            AtomicBool,
            Ordering,
        },
        Arc,
    },
    task::{
        Context,
        Poll,
        Wake,
        Waker,
    },
};

use super::memstate::{
    swap_ctx,
    TaskCtx,
};
use crate::verif::common::mix;

pub struct WakeFlag(AtomicBool);

impl Wake for WakeFlag {
    fn wake(self: Arc<Self>) {
        self.0.store(true, Ordering::SeqCst);
    }

    fn wake_by_ref(self: &Arc<Self>) {
        self.0.store(true, Ordering::SeqCst);
    }
}

pub struct Task {
    pub op_id: u64,
    pub label: &'static str,
    fut: Option<Pin<Box<dyn Future<Output = ()>>>>,
    flag: Arc<WakeFlag>,
    waker: Waker,
    ctx: Option<TaskCtx>,
    pub polls: u64,
    prio: u64,
    pub reads: u64,
    pub yields: u64,
}

pub struct StepInfo {
    pub task: usize,
    pub op_id: u64,
    pub label: &'static str,
    pub polls: u64,
    pub finished: bool,
    pub runnable: usize,
}

pub struct Executor {
    pub tasks: Vec<Task>,
    sched_seed: u64,
    /// 0: a fresh random priority per task and suspension (a low-priority task stays suspended for
    /// long stretches); 1: uniform choice among the runnable tasks at every step.
    sched_mode: u8,
    pub steps: u64,
}

impl Executor {
    pub fn new(sched_seed: u64, sched_mode: u8) -> Self {
        Self {
            tasks: Vec::new(),
            sched_seed,
            sched_mode,
            steps: 0,
        }
    }

    pub fn spawn(
        &mut self,
        op_id: u64,
        label: &'static str,
        ctx: TaskCtx,
        fut: Pin<Box<dyn Future<Output = ()>>>,
    ) {
        let flag = Arc::new(WakeFlag(AtomicBool::new(true)));
        let waker = Waker::from(flag.clone());
        self.tasks.push(Task {
            op_id,
            label,
            fut: Some(fut),
            flag,
            waker,
            ctx: Some(ctx),
            polls: 0,
            prio: mix(mix(self.sched_seed, op_id), 0),
            reads: 0,
            yields: 0,
        });
    }

    pub fn live(&self) -> usize {
        self.tasks.iter().filter(|t| t.fut.is_some()).count()
    }

    pub fn live_labels(&self) -> Vec<(u64, &'static str, u64)> {
        self.tasks
            .iter()
            .filter(|t| t.fut.is_some())
            .map(|t| (t.op_id, t.label, t.polls))
            .collect()
    }

    fn runnable(&self) -> Vec<usize> {
        self.tasks
            .iter()
            .enumerate()
            .filter(|(_, t)| t.fut.is_some() && t.flag.0.load(Ordering::SeqCst))
            .map(|(i, _)| i)
            .collect()
    }

    /// Polls one runnable task. Returns `None` if no task is runnable.
    pub fn step(&mut self) -> Option<StepInfo> {
        let runnable = self.runnable();
        if runnable.is_empty() {
            return None;
        }
        let chosen = if self.sched_mode == 1 {
            // uniform among runnable, keyed by the step number; ties impossible
            let k = mix(self.sched_seed ^ 0xA5A5, self.steps) % (runnable.len() as u64);
            runnable[k as usize]
        } else {
            *runnable
                .iter()
                .max_by_key(|i| (self.tasks[**i].prio, u64::MAX - self.tasks[**i].op_id))
                .unwrap()
        };
        self.steps += 1;
        let n_runnable = runnable.len();
        let task = &mut self.tasks[chosen];
        task.flag.0.store(false, Ordering::SeqCst);
        task.polls += 1;
        let prev = swap_ctx(task.ctx.take());
        let mut fut = task.fut.take().expect("runnable task has a future");
        let waker = task.waker.clone();
        let mut cx = Context::from_waker(&waker);
        let res = fut.as_mut().poll(&mut cx);
        let ctx = swap_ctx(prev);
        let task = &mut self.tasks[chosen];
        if let Some(c) = &ctx {
            task.reads = c.reads;
            task.yields = c.yields;
        }
        task.ctx = ctx;
        let finished = res.is_ready();
        if finished {
            drop(fut);
        } else {
            task.fut = Some(fut);
            task.prio = mix(mix(self.sched_seed, task.op_id), task.polls);
        }
        Some(StepInfo {
            task: chosen,
            op_id: task.op_id,
            label: task.label,
            polls: task.polls,
            finished,
            runnable: n_runnable,
        })
    }
}

/// Condition-variable-like helper for harness conditions (block turn, CometBFT mempool lock).
#[derive(Default)]
pub struct Notify {
    waiters: RefCell<Vec<Waker>>,
}

impl Notify {
    pub fn notify_all(&self) {
        for w in self.waiters.borrow_mut().drain(..) {
            w.wake();
        }
    }

    /// Resolves once `cond()` is true; re-evaluated after every `notify_all`.
    pub async fn wait_until(&self, cond: impl Fn() -> bool) {
        std::future::poll_fn(|cx| {
            if cond() {
                Poll::Ready(())
            } else {
                self.waiters.borrow_mut().push(cx.waker().clone());
                Poll::Pending
            }
        })
        .await;
    }
}
