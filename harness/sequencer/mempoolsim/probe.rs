//! Hook H9: read-only probe into `MempoolInner` for the C13 oracle.
//!
//! Mounted *inside* `crates/astria-sequencer/src/mempool/mod.rs` as `mod verif_probe` (under
//! `cfg(all(test, feature = "verif"))`), so it may read the private fields of `MempoolInner` and the
//! `pub(super)` items of its sub-modules. Nothing here mutates the mempool: a view is only taken
//! when `try_write` on the mempool's lock succeeds, i.e. when no task holds (or has been handed)
//! the lock, and the guard is dropped again before returning. Acquiring and releasing an
//! uncontended tokio `RwLock` has no effect on any waiter because there is none.
#![allow(dead_code, unreachable_pub, clippy::all, clippy::pedantic)]

use std::collections::{
    BTreeMap,
    BTreeSet,
};

use astria_core::{
    primitive::v1::TransactionId,
    protocol::transaction::v1::action::group::Group,
};

use super::{
    transactions_container::{
        TimemarkedTransaction,
        TransactionsContainer as _,
        TransactionsForAccount as _,
    },
    Mempool,
    MempoolInner,
    RemovalReason,
    TransactionStatus,
    MAX_PARKED_TXS_PER_ACCOUNT,
    TX_TTL,
};

pub(crate) const PARKED_PER_ACCOUNT_LIMIT: usize = MAX_PARKED_TXS_PER_ACCOUNT;
pub(crate) const TTL_MS: u64 = TX_TTL.as_millis() as u64;

/// One transaction as held by a container.
#[derive(Clone, Debug)]
pub(crate) struct TxView {
    pub id: [u8; 32],
    pub nonce: u32,
    /// `Group` as its discriminant (1..=4).
    pub group: u8,
    /// The costs stored with the transaction (asset -> amount).
    pub costs: BTreeMap<[u8; 32], u128>,
    pub first_seen: tokio::time::Instant,
}

/// What the public status API answers for one id (computed by the real
/// `MempoolInner::transaction_status`).
#[derive(Clone, Debug, PartialEq, Eq)]
pub(crate) enum StatusView {
    Unknown,
    Pending,
    Parked,
    Removed(ReasonView),
}

#[derive(Clone, Debug, PartialEq, Eq)]
pub(crate) enum ReasonView {
    Expired,
    NonceStale,
    LowerNonceInvalidated,
    FailedExecution,
    InternalError,
    IncludedInBlock(u64),
}

impl ReasonView {
    pub(crate) fn from_reason(reason: &RemovalReason) -> Self {
        match reason {
            RemovalReason::Expired => ReasonView::Expired,
            RemovalReason::NonceStale => ReasonView::NonceStale,
            RemovalReason::LowerNonceInvalidated => ReasonView::LowerNonceInvalidated,
            RemovalReason::FailedExecution(_) => ReasonView::FailedExecution,
            RemovalReason::InternalError => ReasonView::InternalError,
            RemovalReason::IncludedInBlock {
                height, ..
            } => ReasonView::IncludedInBlock(*height),
        }
    }

    pub(crate) fn name(&self) -> &'static str {
        match self {
            ReasonView::Expired => "expired",
            ReasonView::NonceStale => "nonce-stale",
            ReasonView::LowerNonceInvalidated => "lower-nonce-invalidated",
            ReasonView::FailedExecution => "failed-execution",
            ReasonView::InternalError => "internal-error",
            ReasonView::IncludedInBlock(_) => "included-in-block",
        }
    }
}

/// A consistent copy of the mempool's membership structures.
#[derive(Clone, Debug, Default)]
pub(crate) struct View {
    /// account -> pending transactions in ascending nonce order
    pub pending: BTreeMap<[u8; 20], Vec<TxView>>,
    /// account -> parked transactions in ascending nonce order
    pub parked: BTreeMap<[u8; 20], Vec<TxView>>,
    pub contained: BTreeSet<[u8; 32]>,
    pub removal_cache: BTreeMap<[u8; 32], ReasonView>,
    /// ids (among the ones asked for) with an entry in the recent-execution-results cache
    pub exec_results: BTreeMap<[u8; 32], u64>,
    /// what the real `MempoolInner::len` returns
    pub len_reported: usize,
    /// configured total parked limit
    pub parked_max_total: usize,
    /// answers of the real `MempoolInner::transaction_status` for the ids asked for
    pub status: BTreeMap<[u8; 32], StatusView>,
    /// answers of the real `MempoolInner::pending_nonce` for the accounts asked for
    pub pending_nonce: BTreeMap<[u8; 20], Option<u32>>,
}

fn group_code(group: Group) -> u8 {
    match group {
        Group::UnbundleableSudo => 1,
        Group::BundleableSudo => 2,
        Group::UnbundleableGeneral => 3,
        Group::BundleableGeneral => 4,
    }
}

fn tx_view(ttx: &TimemarkedTransaction) -> TxView {
    TxView {
        id: ttx.id().get(),
        nonce: ttx.nonce(),
        group: group_code(ttx.verif_checked_tx().group()),
        costs: ttx
            .verif_costs()
            .iter()
            .map(|(asset, amount)| (*asset.as_bytes(), *amount))
            .collect(),
        first_seen: ttx.verif_time_first_seen(),
    }
}

fn status_view(inner: &MempoolInner, id: &TransactionId) -> StatusView {
    match inner.transaction_status(id) {
        None => StatusView::Unknown,
        Some(TransactionStatus::Pending) => StatusView::Pending,
        Some(TransactionStatus::Parked) => StatusView::Parked,
        Some(TransactionStatus::Removed(reason)) => {
            StatusView::Removed(ReasonView::from_reason(&reason))
        }
    }
}

/// Returns `None` if some task holds the lock (an operation is mid-flight) or has been handed it.
///
/// `status_ids`: ids for which the real `transaction_status` is evaluated; `known_ids`: ids for
/// which the recent-execution-results cache is consulted; `accounts`: accounts for which the real
/// `pending_nonce` is evaluated.
pub(crate) fn view(
    mempool: &Mempool,
    known_ids: &[[u8; 32]],
    status_ids: &[[u8; 32]],
    accounts: &[[u8; 20]],
) -> Option<View> {
    let guard = mempool.inner.try_write().ok()?;
    let inner: &MempoolInner = &guard;
    let mut out = View::default();
    for (address, account_txs) in inner.pending.txs() {
        out.pending
            .insert(*address, account_txs.txs().values().map(tx_view).collect());
    }
    for (address, account_txs) in inner.parked.txs() {
        out.parked
            .insert(*address, account_txs.txs().values().map(tx_view).collect());
    }
    out.contained = inner.contained_txs.iter().map(|id| id.get()).collect();
    out.removal_cache = inner
        .comet_bft_removal_cache
        .cache
        .iter()
        .map(|(id, reason)| (id.get(), ReasonView::from_reason(reason)))
        .collect();
    for id in known_ids {
        if let Some(result) = inner.recent_execution_results.get(&TransactionId::new(*id)) {
            out.exec_results.insert(*id, result.block_height());
        }
    }
    out.len_reported = inner.len();
    out.parked_max_total = inner.parked.verif_max_tx_count();
    for id in status_ids {
        out.status
            .insert(*id, status_view(inner, &TransactionId::new(*id)));
    }
    for account in accounts {
        out.pending_nonce
            .insert(*account, inner.pending_nonce(account));
    }
    drop(guard);
    Some(out)
}

/// True iff no task holds or has been handed the mempool lock.
pub(crate) fn is_quiescent(mempool: &Mempool) -> bool {
    mempool.inner.try_write().is_ok()
}
