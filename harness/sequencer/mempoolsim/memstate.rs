//! `MemStore` / `MemSnap`: a hand-written in-memory implementation of `cnidarium::StateRead` (+
//! `StateWrite` for the store) used as the chain state of the mempool simulation.
//!
//! * `MemStore` is a plain pair of BTreeMaps and is writable; it is used to build genesis and to
//!   apply a block's `cnidarium::Cache` of changes.
//! * `MemSnap` is an immutable, cheaply clonable snapshot of a store at one *version* — the
//!   stand-in for `Storage::latest_snapshot()`.
//!
//! Every read future / stream item of a `MemSnap` may return `Poll::Pending` exactly once before it
//! resolves (after waking its own waker), decided by the PRNG sub-stream of the simulated task that
//! is currently being polled (see `TaskCtx`). This makes every storage read a potential context
//! switch for the simulation's scheduler. Reads performed outside a simulated task (genesis, the
//! harness's own bookkeeping) never yield.
#![allow(dead_code, unreachable_pub, clippy::all, clippy::pedantic)]

use std::{
    any::Any,
    cell::RefCell,
    collections::{
        BTreeMap,
        VecDeque,
    },
    future::Future,
    ops::RangeBounds,
    pin::Pin,
    sync::Arc,
    task::{
        Context,
        Poll,
    },
};

use astria_eyre::anyhow;
use cnidarium::{
    StateRead,
    StateWrite,
};
use futures::Stream;

use crate::verif::common::Rng;

// ---------------------------------------------------------------------------------------------
// per-task context (which simulated task is being polled right now)
// ---------------------------------------------------------------------------------------------

pub struct TaskCtx {
    pub rng: Rng,
    /// probability (percent) that a read yields once
    pub yield_pct: u64,
    pub reads: u64,
    pub yields: u64,
}

impl TaskCtx {
    pub fn new(rng: Rng, yield_pct: u64) -> Self {
        Self {
            rng,
            yield_pct,
            reads: 0,
            yields: 0,
        }
    }
}

thread_local! {
    static CTX: RefCell<Option<TaskCtx>> = const { RefCell::new(None) };
}

/// Installs `ctx` as the current task context and returns the previous one.
pub fn swap_ctx(ctx: Option<TaskCtx>) -> Option<TaskCtx> {
    CTX.with(|c| std::mem::replace(&mut *c.borrow_mut(), ctx))
}

fn decide_yield() -> bool {
    CTX.with(|c| {
        let mut c = c.borrow_mut();
        let Some(ctx) = c.as_mut() else {
            return false;
        };
        ctx.reads += 1;
        if ctx.yield_pct == 0 {
            return false;
        }
        let y = ctx.rng.below(100) < ctx.yield_pct;
        if y {
            ctx.yields += 1;
        }
        y
    })
}

/// A harness-level voluntary yield point for simulated tasks: yields once iff the current task's
/// PRNG says so.
pub fn maybe_yield() -> YieldOnce {
    YieldOnce {
        pending: decide_yield(),
    }
}

/// Unconditional single yield.
pub fn yield_now() -> YieldOnce {
    YieldOnce {
        pending: true,
    }
}

pub struct YieldOnce {
    pending: bool,
}

impl Future for YieldOnce {
    type Output = ();

    fn poll(mut self: Pin<&mut Self>, cx: &mut Context<'_>) -> Poll<()> {
        if self.pending {
            self.pending = false;
            cx.waker().wake_by_ref();
            Poll::Pending
        } else {
            Poll::Ready(())
        }
    }
}

// ---------------------------------------------------------------------------------------------
// read futures / streams
// ---------------------------------------------------------------------------------------------

pub struct MemGet {
    out: Option<anyhow::Result<Option<Vec<u8>>>>,
    pending: bool,
}

impl Future for MemGet {
    type Output = anyhow::Result<Option<Vec<u8>>>;

    fn poll(mut self: Pin<&mut Self>, cx: &mut Context<'_>) -> Poll<Self::Output> {
        if self.pending {
            self.pending = false;
            cx.waker().wake_by_ref();
            return Poll::Pending;
        }
        Poll::Ready(self.out.take().expect("MemGet polled after completion"))
    }
}

pub struct MemStream<T> {
    items: VecDeque<T>,
    /// true while the Pending for the *next* item has already been served
    yielded: bool,
    may_yield: bool,
}

impl<T> MemStream<T> {
    fn new(items: Vec<T>, may_yield: bool) -> Self {
        Self {
            items: items.into(),
            yielded: false,
            may_yield,
        }
    }
}

impl<T: Unpin> Stream for MemStream<T> {
    type Item = anyhow::Result<T>;

    fn poll_next(mut self: Pin<&mut Self>, cx: &mut Context<'_>) -> Poll<Option<Self::Item>> {
        if self.may_yield && !self.yielded && decide_yield() {
            self.yielded = true;
            cx.waker().wake_by_ref();
            return Poll::Pending;
        }
        self.yielded = false;
        Poll::Ready(self.items.pop_front().map(Ok))
    }
}

// ---------------------------------------------------------------------------------------------
// store and snapshot
// ---------------------------------------------------------------------------------------------

#[derive(Clone, Default)]
pub struct MemStore {
    pub verifiable: BTreeMap<String, Vec<u8>>,
    pub nonverifiable: BTreeMap<Vec<u8>, Vec<u8>>,
}

#[derive(Clone)]
pub struct MemSnap {
    pub version: u64,
    verifiable: Arc<BTreeMap<String, Vec<u8>>>,
    nonverifiable: Arc<BTreeMap<Vec<u8>, Vec<u8>>>,
    /// reads of this handle may yield (false for the harness's own bookkeeping handle)
    may_yield: bool,
}

impl MemStore {
    pub fn snapshot(&self, version: u64) -> MemSnap {
        MemSnap {
            version,
            verifiable: Arc::new(self.verifiable.clone()),
            nonverifiable: Arc::new(self.nonverifiable.clone()),
            may_yield: true,
        }
    }
}

impl MemSnap {
    pub fn to_store(&self) -> MemStore {
        MemStore {
            verifiable: (*self.verifiable).clone(),
            nonverifiable: (*self.nonverifiable).clone(),
        }
    }

    /// The same data, but reads through the returned handle never yield.
    pub fn quiet(&self) -> MemSnap {
        MemSnap {
            may_yield: false,
            ..self.clone()
        }
    }
}

fn prefix_items_str(map: &BTreeMap<String, Vec<u8>>, prefix: &str) -> Vec<(String, Vec<u8>)> {
    map.range(prefix.to_string()..)
        .take_while(|(k, _)| k.starts_with(prefix))
        .map(|(k, v)| (k.clone(), v.clone()))
        .collect()
}

fn prefix_items_bytes(
    map: &BTreeMap<Vec<u8>, Vec<u8>>,
    prefix: &[u8],
) -> Vec<(Vec<u8>, Vec<u8>)> {
    map.range(prefix.to_vec()..)
        .take_while(|(k, _)| k.starts_with(prefix))
        .map(|(k, v)| (k.clone(), v.clone()))
        .collect()
}

fn range_items_bytes(
    map: &BTreeMap<Vec<u8>, Vec<u8>>,
    prefix: Option<&[u8]>,
    range: impl RangeBounds<Vec<u8>>,
) -> Vec<(Vec<u8>, Vec<u8>)> {
    use std::ops::Bound;
    let with_prefix = |k: &Vec<u8>| -> Vec<u8> {
        let mut out = prefix.map(<[u8]>::to_vec).unwrap_or_default();
        out.extend_from_slice(k);
        out
    };
    let lo = match range.start_bound() {
        Bound::Included(k) => Bound::Included(with_prefix(k)),
        Bound::Excluded(k) => Bound::Excluded(with_prefix(k)),
        Bound::Unbounded => Bound::Included(prefix.map(<[u8]>::to_vec).unwrap_or_default()),
    };
    let hi = match range.end_bound() {
        Bound::Included(k) => Bound::Included(with_prefix(k)),
        Bound::Excluded(k) => Bound::Excluded(with_prefix(k)),
        Bound::Unbounded => Bound::Unbounded,
    };
    map.range((lo, hi))
        .take_while(|(k, _)| prefix.map_or(true, |p| k.starts_with(p)))
        .map(|(k, v)| (k.clone(), v.clone()))
        .collect()
}

impl StateRead for MemSnap {
    type GetRawFut = MemGet;
    type NonconsensusPrefixRawStream = MemStream<(Vec<u8>, Vec<u8>)>;
    type NonconsensusRangeRawStream = MemStream<(Vec<u8>, Vec<u8>)>;
    type PrefixKeysStream = MemStream<String>;
    type PrefixRawStream = MemStream<(String, Vec<u8>)>;

    fn get_raw(&self, key: &str) -> Self::GetRawFut {
        MemGet {
            out: Some(Ok(self.verifiable.get(key).cloned())),
            pending: self.may_yield && decide_yield(),
        }
    }

    fn nonverifiable_get_raw(&self, key: &[u8]) -> Self::GetRawFut {
        MemGet {
            out: Some(Ok(self.nonverifiable.get(key).cloned())),
            pending: self.may_yield && decide_yield(),
        }
    }

    fn object_get<T: Any + Send + Sync + Clone>(&self, _key: &'static str) -> Option<T> {
        None
    }

    fn object_type(&self, _key: &'static str) -> Option<std::any::TypeId> {
        None
    }

    fn prefix_raw(&self, prefix: &str) -> Self::PrefixRawStream {
        MemStream::new(prefix_items_str(&self.verifiable, prefix), self.may_yield)
    }

    fn prefix_keys(&self, prefix: &str) -> Self::PrefixKeysStream {
        MemStream::new(
            prefix_items_str(&self.verifiable, prefix)
                .into_iter()
                .map(|(k, _)| k)
                .collect(),
            self.may_yield,
        )
    }

    fn nonverifiable_prefix_raw(&self, prefix: &[u8]) -> Self::NonconsensusPrefixRawStream {
        MemStream::new(
            prefix_items_bytes(&self.nonverifiable, prefix),
            self.may_yield,
        )
    }

    fn nonverifiable_range_raw(
        &self,
        prefix: Option<&[u8]>,
        range: impl RangeBounds<Vec<u8>>,
    ) -> anyhow::Result<Self::NonconsensusRangeRawStream> {
        Ok(MemStream::new(
            range_items_bytes(&self.nonverifiable, prefix, range),
            self.may_yield,
        ))
    }
}

impl StateRead for MemStore {
    type GetRawFut = MemGet;
    type NonconsensusPrefixRawStream = MemStream<(Vec<u8>, Vec<u8>)>;
    type NonconsensusRangeRawStream = MemStream<(Vec<u8>, Vec<u8>)>;
    type PrefixKeysStream = MemStream<String>;
    type PrefixRawStream = MemStream<(String, Vec<u8>)>;

    fn get_raw(&self, key: &str) -> Self::GetRawFut {
        MemGet {
            out: Some(Ok(self.verifiable.get(key).cloned())),
            pending: false,
        }
    }

    fn nonverifiable_get_raw(&self, key: &[u8]) -> Self::GetRawFut {
        MemGet {
            out: Some(Ok(self.nonverifiable.get(key).cloned())),
            pending: false,
        }
    }

    fn object_get<T: Any + Send + Sync + Clone>(&self, _key: &'static str) -> Option<T> {
        None
    }

    fn object_type(&self, _key: &'static str) -> Option<std::any::TypeId> {
        None
    }

    fn prefix_raw(&self, prefix: &str) -> Self::PrefixRawStream {
        MemStream::new(prefix_items_str(&self.verifiable, prefix), false)
    }

    fn prefix_keys(&self, prefix: &str) -> Self::PrefixKeysStream {
        MemStream::new(
            prefix_items_str(&self.verifiable, prefix)
                .into_iter()
                .map(|(k, _)| k)
                .collect(),
            false,
        )
    }

    fn nonverifiable_prefix_raw(&self, prefix: &[u8]) -> Self::NonconsensusPrefixRawStream {
        MemStream::new(prefix_items_bytes(&self.nonverifiable, prefix), false)
    }

    fn nonverifiable_range_raw(
        &self,
        prefix: Option<&[u8]>,
        range: impl RangeBounds<Vec<u8>>,
    ) -> anyhow::Result<Self::NonconsensusRangeRawStream> {
        Ok(MemStream::new(
            range_items_bytes(&self.nonverifiable, prefix, range),
            false,
        ))
    }
}

impl StateWrite for MemStore {
    fn put_raw(&mut self, key: String, value: Vec<u8>) {
        self.verifiable.insert(key, value);
    }

    fn delete(&mut self, key: String) {
        self.verifiable.remove(&key);
    }

    fn nonverifiable_put_raw(&mut self, key: Vec<u8>, value: Vec<u8>) {
        self.nonverifiable.insert(key, value);
    }

    fn nonverifiable_delete(&mut self, key: Vec<u8>) {
        self.nonverifiable.remove(&key);
    }

    fn object_put<T: Clone + Any + Send + Sync>(&mut self, _key: &'static str, _value: T) {
        // the ephemeral object store does not survive a commit; nothing to keep
    }

    fn object_delete(&mut self, _key: &'static str) {}

    fn object_merge(
        &mut self,
        _objects: BTreeMap<&'static str, Option<Box<dyn Any + Send + Sync>>>,
    ) {
    }

    fn record(&mut self, _event: tendermint::abci::Event) {}
}
