//! E2 `mempoolsim`: interleaving-level deterministic simulation of the app-side mempool (C13).
//!
//! Real code: `crate::mempool::Mempool` (insert / remove_tx_invalid / run_maintenance incl.
//! recosting / builder_queue / transaction_status / pending_nonce / len / removal cache / TTL),
//! `crate::service::mempool::check_tx` (status -> `CheckedTransaction::new` -> nonce -> costs ->
//! balances -> insert), `CheckedTransaction::{new, total_costs, execute}` and the checked actions
//! they run (Transfer, RollupDataSubmission, FeeChange), `cnidarium::StateDelta`.
//! Stubs: chain state (`memstate::MemSnap`, in-memory `StateRead` whose reads may yield), CometBFT
//! and gRPC clients, the consensus driver (mirrors what `App` does around the mempool), the clock
//! (paused tokio runtime), the scheduler (`exec::Executor`).
//!
//! Files: `memstate.rs` (state), `exec.rs` (executor), `sim.rs` (world, simulated tasks, run loop),
//! `oracle.rs` (the C13 oracle), `probe.rs` (hook H9, mounted inside `crate::mempool`).
#![allow(dead_code, unreachable_pub, clippy::all, clippy::pedantic)]

use serde::{
    Deserialize,
    Serialize,
};

use crate::verif::common::{
    Engine,
    Outcome,
    Rng,
};

#[path = "/verif/harness/sequencer/mempoolsim/exec.rs"]
pub(crate) mod exec;
#[path = "/verif/harness/sequencer/mempoolsim/memstate.rs"]
pub(crate) mod memstate;
#[path = "/verif/harness/sequencer/mempoolsim/oracle.rs"]
pub(crate) mod oracle;
#[path = "/verif/harness/sequencer/mempoolsim/sim.rs"]
pub(crate) mod sim;

pub const PROPERTY: &str = "C13";
pub const MAX_ACCOUNTS: usize = 6;
pub const MAX_ASSETS: usize = 3;

// ---------------------------------------------------------------------------------------------
// scenario
// ---------------------------------------------------------------------------------------------

#[derive(Serialize, Deserialize, Clone, Debug)]
pub struct Config {
    /// "cometbft": only legal CometBFT behaviour (CheckTx never overlaps Commit/maintenance);
    /// "grpc": the gRPC submit path may additionally interleave with anything.
    pub profile: String,
    /// Account 0 is the sudo account (may submit FeeChange).
    pub n_accounts: usize,
    pub n_assets: usize,
    /// Assets `0..n_fee_assets` are allowed fee assets.
    pub n_fee_assets: usize,
    /// Configured total parked limit of the mempool.
    pub parked_max: usize,
    pub exec_cache: usize,
    /// Probability (percent) that a state read yields once.
    pub yield_pct: u64,
    pub sched_seed: u64,
    pub sched_mode: u8,
    pub init_nonce: Vec<u32>,
    /// `[account][asset]`; 0 = no balance entry.
    pub init_balance: Vec<Vec<u64>>,
    pub fee_transfer: (u64, u64),
    pub fee_seq: (u64, u64),
}

#[derive(Serialize, Deserialize, Clone, Debug, PartialEq, Eq)]
pub enum NonceSpec {
    /// The client wallet's next nonce (starts at the chain nonce it sees on first use).
    Next,
    /// Wallet's next nonce + k, without advancing the wallet (leaves a hole to fill later).
    Gap(u32),
    /// Chain nonce - k (already used).
    Stale(u32),
    /// The nonce the wallet used last (replacement attempt with a different body).
    Replace,
    /// Re-read the chain nonce into the wallet, then `Next`.
    Resync,
    Abs(u32),
}

#[derive(Serialize, Deserialize, Clone, Debug, PartialEq, Eq)]
pub enum Body {
    Transfer {
        to: usize,
        asset: usize,
        fee_asset: usize,
        amount: u64,
    },
    Seq {
        len: usize,
        fee_asset: usize,
    },
    /// `target`: 0 = Transfer fees, 1 = RollupDataSubmission fees. Only valid from account 0.
    FeeChange {
        target: u8,
        base: u64,
        mult: u64,
    },
}

#[derive(Serialize, Deserialize, Clone, Copy, Debug, PartialEq, Eq)]
pub enum Via {
    /// CometBFT CheckTx (respects CometBFT's mempool lock around Commit; consumes the removal
    /// cache entry like `handle_check_tx_request`).
    Comet,
    /// gRPC `submit_transaction`.
    Grpc,
}

#[derive(Serialize, Deserialize, Clone, Debug, PartialEq, Eq)]
pub enum PollWhat {
    /// `transaction_status` of the tx built by the given Submit op.
    Status(u64),
    Len,
    PendingNonce(usize),
    Queue,
}

#[derive(Serialize, Deserialize, Clone, Debug)]
pub enum OpKind {
    Submit {
        acct: usize,
        nonce: NonceSpec,
        body: Body,
        via: Via,
        /// Re-submit exactly the bytes built by that earlier Submit op (concurrent duplicate,
        /// CometBFT recheck, user re-submission).
        dup_of: Option<u64>,
    },
    /// One consensus round of the simulated proposer/validator.
    Block {
        /// How many txs to take at most from `builder_queue` (0 = none: a block proposed by
        /// somebody else).
        max_txs: usize,
        /// Transactions that did not come from this mempool: (account, body); the nonce is the
        /// account's nonce at execution time.
        foreign: Vec<(usize, Body)>,
        /// false: the round fails after execution (no commit, no maintenance).
        commit: bool,
    },
    Poll {
        what: PollWhat,
    },
    /// Virtual time passes.
    Advance {
        ms: u64,
    },
}

#[derive(Serialize, Deserialize, Clone, Debug)]
pub struct Op {
    /// Stable id: keeps its meaning (PRNG sub-stream, scheduling priority sequence, references
    /// from other ops) when other ops are deleted.
    pub id: u64,
    /// Scheduler steps to run after releasing this op before the next op is released.
    pub gap: u32,
    pub kind: OpKind,
}

#[derive(Serialize, Deserialize, Clone, Debug)]
pub struct Scenario {
    pub cfg: Config,
    pub ops: Vec<Op>,
}

// ---------------------------------------------------------------------------------------------
// generator
// ---------------------------------------------------------------------------------------------

struct Gen {
    r: Rng,
    cfg: Config,
    ops: Vec<Op>,
    next_id: u64,
    submit_ids: Vec<u64>,
    /// how many fresh submissions each account has made so far (to aim foreign spenders at busy
    /// accounts)
    busy: Vec<u32>,
    f_gap: bool,
    f_dup: bool,
    f_foreign: bool,
    f_feechange: bool,
    f_ttl: bool,
    f_failed_round: bool,
    f_stale: bool,
    f_replace: bool,
    f_burst: bool,
    /// only account 1 ever uses this node's mempool (see `generate`)
    solo: bool,
    /// blocks carry at most one transaction (see `generate`)
    small_cache: bool,
}

impl Gen {
    fn push(&mut self, gap: u32, kind: OpKind) -> u64 {
        let id = self.next_id;
        self.next_id += 1;
        if matches!(kind, OpKind::Submit { dup_of: None, .. }) {
            self.submit_ids.push(id);
        }
        self.ops.push(Op {
            id,
            gap,
            kind,
        });
        id
    }

    fn gap(&mut self) -> u32 {
        if self.f_burst {
            *self.r.pick(&[0, 0, 0, 0, 1, 2, 6])
        } else {
            *self.r.pick(&[0, 0, 1, 2, 4, 8, 25])
        }
    }

    fn via(&mut self) -> Via {
        if self.cfg.profile == "grpc" && self.r.chance(3, 5) {
            Via::Grpc
        } else {
            Via::Comet
        }
    }

    fn fee_asset(&mut self) -> usize {
        // mostly an allowed fee asset, rarely one that is not allowed (rejected by check_tx)
        if self.cfg.n_assets > self.cfg.n_fee_assets && self.r.chance(1, 25) {
            self.cfg.n_fee_assets
        } else {
            self.r.below_usize(self.cfg.n_fee_assets)
        }
    }

    fn body(&mut self, acct: usize, big: bool) -> Body {
        let kind = self.r.weighted(&[6, 3]);
        if kind == 0 {
            let asset = if big && self.r.chance(2, 3) {
                0
            } else {
                self.r.below_usize(self.cfg.n_assets)
            };
            let bal = self.cfg.init_balance[acct][asset];
            let pct: u64 = if big {
                *self.r.pick(&[45, 70, 90, 99])
            } else {
                *self.r.pick(&[0, 1, 5, 20, 45, 70, 101, 300])
            };
            let amount = if bal == 0 {
                *self.r.pick(&[0, 1, 10])
            } else {
                ((u128::from(bal) * u128::from(pct)) / 100).min(u128::from(u64::MAX)) as u64
            };
            let mut to = self.r.below_usize(self.cfg.n_accounts);
            if to == acct && self.r.chance(4, 5) {
                to = (to + 1) % self.cfg.n_accounts;
            }
            Body::Transfer {
                to,
                asset,
                fee_asset: self.fee_asset(),
                amount,
            }
        } else {
            Body::Seq {
                len: *self.r.pick(&[1, 2, 3, 10, 40]),
                fee_asset: self.fee_asset(),
            }
        }
    }

    fn submitter(&mut self) -> usize {
        if self.solo {
            1
        } else {
            self.r.below_usize(self.cfg.n_accounts)
        }
    }

    fn submit(&mut self) {
        let acct = self.submitter();
        let mut weights = [70u32, 0, 0, 0, 4];
        if self.f_gap {
            weights[1] = 14;
        }
        if self.f_stale {
            weights[2] = 5;
        }
        if self.f_replace {
            weights[3] = 6;
        }
        let nonce = match self.r.weighted(&weights) {
            0 => NonceSpec::Next,
            1 => NonceSpec::Gap(*self.r.pick(&[1, 1, 1, 2, 3])),
            2 => NonceSpec::Stale(*self.r.pick(&[1, 1, 2])),
            3 => NonceSpec::Replace,
            _ => NonceSpec::Resync,
        };
        let body = if acct == 0 && self.f_feechange && self.r.chance(1, 3) {
            Body::FeeChange {
                target: self.r.below(2) as u8,
                base: *self.r.pick(&[0, 1, 5, 50, 500, 5000]),
                mult: *self.r.pick(&[0, 1, 3]),
            }
        } else {
            self.body(acct, false)
        };
        let via = self.via();
        let gap = self.gap();
        self.busy[acct] += 1;
        let id = self.push(
            gap,
            OpKind::Submit {
                acct,
                nonce,
                body: body.clone(),
                via,
                dup_of: None,
            },
        );
        // a concurrent duplicate of the very same tx
        if self.f_dup && self.r.chance(1, 6) {
            let via = self.via();
            let gap = self.gap();
            self.push(
                gap,
                OpKind::Submit {
                    acct,
                    nonce: NonceSpec::Next,
                    body,
                    via,
                    dup_of: Some(id),
                },
            );
        }
    }

    fn resubmit(&mut self) {
        if self.submit_ids.is_empty() {
            return self.submit();
        }
        let target = *self.r.pick(&self.submit_ids);
        let Some(Op {
            kind:
                OpKind::Submit {
                    acct,
                    body,
                    ..
                },
            ..
        }) = self.ops.iter().find(|o| o.id == target).cloned()
        else {
            return;
        };
        let via = self.via();
        let gap = self.gap();
        self.push(
            gap,
            OpKind::Submit {
                acct,
                nonce: NonceSpec::Next,
                body,
                via,
                dup_of: Some(target),
            },
        );
    }

    fn flood(&mut self) {
        // one account parks many gapped nonces (per-account and total parked limits)
        let acct = self.submitter();
        let n = 14 + self.r.below(6) as u32;
        for k in 1..=n {
            let body = Body::Seq {
                len: 1,
                fee_asset: 0,
            };
            let via = self.via();
            let gap = *self.r.pick(&[0, 0, 1]);
            self.push(
                gap,
                OpKind::Submit {
                    acct,
                    nonce: NonceSpec::Gap(k),
                    body,
                    via,
                    dup_of: None,
                },
            );
        }
    }

    fn block(&mut self, flush: bool) {
        let mut max_txs = if flush {
            100
        } else {
            *self.r.pick(&[0, 1, 1, 2, 3, 5, 100])
        };
        let mut foreign = Vec::new();
        if !flush && self.f_foreign && self.r.chance(1, 2) {
            for _ in 0..=self.r.below(2) {
                // mostly the account with the most submissions so far: its pending transactions
                // lose their nonce slot and/or their funding
                let busiest = (0..self.cfg.n_accounts)
                    .max_by_key(|a| (self.busy[*a], *a))
                    .unwrap_or(0);
                let acct = if self.solo {
                    self.r.below_usize(2)
                } else if self.r.chance(2, 3) {
                    busiest
                } else {
                    self.r.below_usize(self.cfg.n_accounts)
                };
                let big = self.r.chance(3, 4);
                let body = if acct == 0 && self.f_feechange && self.r.chance(if self.solo { 3 } else { 1 }, 3) {
                    Body::FeeChange {
                        target: self.r.below(2) as u8,
                        base: *self.r.pick(&[0, 5, 50, 500, 5000]),
                        mult: *self.r.pick(&[0, 1, 3]),
                    }
                } else {
                    self.body(acct, big)
                };
                foreign.push((acct, body));
            }
        }
        if self.small_cache {
            // at most one transaction per block
            if foreign.is_empty() {
                max_txs = max_txs.min(1);
            } else {
                foreign.truncate(1);
                max_txs = 0;
            }
        }
        let commit = flush || !(self.f_failed_round && self.r.chance(1, 5));
        let gap = if flush {
            40
        } else {
            *self.r.pick(&[0, 1, 3, 10, 30])
        };
        self.push(
            gap,
            OpKind::Block {
                max_txs,
                foreign,
                commit,
            },
        );
    }

    fn poll(&mut self) {
        let what = match self.r.weighted(&[5, 1, 2, 2]) {
            0 if !self.submit_ids.is_empty() => PollWhat::Status(*self.r.pick(&self.submit_ids)),
            1 => PollWhat::Len,
            2 => PollWhat::PendingNonce(self.r.below_usize(self.cfg.n_accounts)),
            _ => PollWhat::Queue,
        };
        let gap = self.gap();
        self.push(
            gap,
            OpKind::Poll {
                what,
            },
        );
    }
}

pub fn generate(profile: &str, tier: &str, seed: u64) -> Scenario {
    let mut r = Rng::new(seed);
    let thorough = tier == "thorough";
    let n_accounts = 2 + r.below_usize(4);
    let n_assets = 1 + r.below_usize(MAX_ASSETS);
    let n_fee_assets = 1 + r.below_usize(n_assets);
    let tight = r.chance(3, 5);
    let mut init_balance = Vec::new();
    for _ in 0..n_accounts {
        let mut row = Vec::new();
        for asset in 0..n_assets {
            let b: u64 = if tight {
                *r.pick(&[0, 40, 150, 600, 5_000, 50_000, 1_000_000_000_000])
            } else if asset == 0 {
                1_000_000_000_000_000
            } else {
                *r.pick(&[0, 1_000_000_000_000])
            };
            row.push(b);
        }
        init_balance.push(row);
    }
    let f_gap = r.chance(4, 5);
    let f_dup = r.chance(2, 3);
    let f_foreign = r.chance(4, 5);
    let f_feechange = r.chance(1, 2);
    let f_ttl = r.chance(1, 4);
    let f_failed_round = r.chance(1, 3);
    let f_stale = r.chance(1, 2);
    let f_replace = r.chance(1, 2);
    let f_burst = r.chance(1, 2);
    // Two places in the mempool let HashMap/HashSet iteration order (RandomState, not seedable)
    // decide an outcome: (1) run_maintenance visits accounts in HashSet order, and when the parked
    // pool is (nearly) full, which account's demotion still finds a slot depends on that order;
    // (2) RecentExecutionResults::add inserts one block's results in HashMap order, which decides
    // what a too-small cache evicts. Runs must be reproducible, so the generator only combines
    // * a small total parked limit with sources of demotion (foreign spenders, fee changes) when a
    //   single account uses this node's mempool (`solo`), and
    // * a small execution-results cache with blocks of at most one transaction (`small_cache`).
    let demotion_sources = f_foreign || f_feechange;
    let solo = demotion_sources && r.chance(1, 3);
    let small_cache = r.chance(1, 4);
    let parked_small = *r.pick(&[2, 5, 10, 16, 30, 100, 100]);
    let cfg = Config {
        profile: if profile.is_empty() {
            "cometbft".to_string()
        } else {
            profile.to_string()
        },
        n_accounts,
        n_assets,
        n_fee_assets,
        parked_max: if demotion_sources && !solo {
            100
        } else {
            parked_small
        },
        exec_cache: if small_cache {
            *r.pick(&[1, 3])
        } else {
            1000
        },
        yield_pct: *r.pick(&[0, 5, 20, 50]),
        sched_seed: r.next_u64(),
        sched_mode: r.below(2) as u8,
        init_nonce: (0..n_accounts)
            .map(|_| *r.pick(&[0, 0, 0, 1, 5, 1000]))
            .collect(),
        init_balance,
        fee_transfer: (*r.pick(&[0, 1, 12]), 0),
        fee_seq: (*r.pick(&[0, 1, 32]), *r.pick(&[0, 1, 3])),
    };
    let mut g = Gen {
        f_gap,
        f_dup,
        f_foreign,
        f_feechange,
        f_ttl,
        f_failed_round,
        f_stale,
        f_replace,
        f_burst,
        solo,
        small_cache,
        r: r.fork(1),
        cfg,
        ops: Vec::new(),
        next_id: 1,
        submit_ids: Vec::new(),
        busy: vec![0; n_accounts],
    };
    let f_flood = r.chance(1, 6);
    let n_ops = if thorough {
        30 + r.below(90)
    } else {
        20 + r.below(50)
    };
    let flood_at = r.below(n_ops);
    for i in 0..n_ops {
        if f_flood && i == flood_at {
            g.flood();
        }
        let mut weights = [55u32, 14, 10, 0, 0];
        if g.f_dup {
            weights[3] = 10;
        }
        if g.f_ttl {
            weights[4] = 3;
        }
        match g.r.weighted(&weights) {
            0 => g.submit(),
            1 => g.block(false),
            2 => g.poll(),
            3 => g.resubmit(),
            _ => {
                let ms = *g.r.pick(&[1_000, 61_000, 120_000, 241_000]);
                let gap = g.gap();
                g.push(
                    gap,
                    OpKind::Advance {
                        ms,
                    },
                );
            }
        }
    }
    // flush: committed blocks that drain the mempool
    let flushes = if small_cache { 8 } else { 2 };
    for _ in 0..flushes {
        g.block(true);
    }
    Scenario {
        cfg: g.cfg,
        ops: g.ops,
    }
}

// ---------------------------------------------------------------------------------------------
// engine
// ---------------------------------------------------------------------------------------------

pub struct MempoolSim;

impl Engine for MempoolSim {
    type Scenario = Scenario;

    const NAME: &'static str = "mempoolsim";

    fn generate(profile: &str, tier: &str, seed: u64) -> Scenario {
        generate(profile, tier, seed)
    }

    fn run(scenario: &Scenario) -> Outcome {
        sim::run(scenario)
    }

    fn len(scenario: &Scenario) -> usize {
        scenario.ops.len()
    }

    fn retain(scenario: &Scenario, keep: &[bool]) -> Scenario {
        Scenario {
            cfg: scenario.cfg.clone(),
            ops: scenario
                .ops
                .iter()
                .zip(keep)
                .filter(|(_, k)| **k)
                .map(|(o, _)| o.clone())
                .collect(),
        }
    }

    fn simplify(scenario: &Scenario) -> Vec<Scenario> {
        let mut out = Vec::new();
        if scenario.cfg.yield_pct != 0 {
            let mut s = scenario.clone();
            s.cfg.yield_pct = 0;
            out.push(s);
        }
        if scenario.ops.iter().any(|o| o.gap != 0) {
            let mut s = scenario.clone();
            for o in &mut s.ops {
                o.gap = 0;
            }
            out.push(s);
        }
        for (i, op) in scenario.ops.iter().enumerate() {
            if op.gap > 1 {
                let mut s = scenario.clone();
                s.ops[i].gap = op.gap / 2;
                out.push(s);
            }
            match &op.kind {
                OpKind::Block {
                    max_txs,
                    foreign,
                    commit,
                } => {
                    if !foreign.is_empty() {
                        let mut s = scenario.clone();
                        s.ops[i].kind = OpKind::Block {
                            max_txs: *max_txs,
                            foreign: foreign[1..].to_vec(),
                            commit: *commit,
                        };
                        out.push(s);
                    }
                }
                OpKind::Submit {
                    acct,
                    nonce,
                    body,
                    via,
                    dup_of,
                } => {
                    if *via == Via::Grpc {
                        let mut s = scenario.clone();
                        s.ops[i].kind = OpKind::Submit {
                            acct: *acct,
                            nonce: nonce.clone(),
                            body: body.clone(),
                            via: Via::Comet,
                            dup_of: *dup_of,
                        };
                        out.push(s);
                    }
                }
                _ => {}
            }
        }
        if scenario.cfg.n_accounts > 2
            && !scenario.ops.iter().any(|o| uses_account(o, scenario.cfg.n_accounts - 1))
        {
            let mut s = scenario.clone();
            s.cfg.n_accounts -= 1;
            s.cfg.init_nonce.pop();
            s.cfg.init_balance.pop();
            out.push(s);
        }
        out
    }

    fn summarize(scenario: &Scenario) -> serde_json::Value {
        let mut kinds = std::collections::BTreeMap::<&str, u64>::new();
        for op in &scenario.ops {
            let k = match &op.kind {
                OpKind::Submit {
                    dup_of: Some(_), ..
                } => "resubmit",
                OpKind::Submit {
                    via: Via::Grpc, ..
                } => "submit_grpc",
                OpKind::Submit {
                    ..
                } => "submit_comet",
                OpKind::Block {
                    commit: false, ..
                } => "failed_round",
                OpKind::Block {
                    ..
                } => "block",
                OpKind::Poll {
                    ..
                } => "poll",
                OpKind::Advance {
                    ..
                } => "advance",
            };
            *kinds.entry(k).or_default() += 1;
        }
        let head: Vec<_> = scenario.ops.iter().take(12).collect();
        serde_json::json!({
            "cfg": {
                "profile": scenario.cfg.profile, "accounts": scenario.cfg.n_accounts,
                "assets": scenario.cfg.n_assets, "fee_assets": scenario.cfg.n_fee_assets,
                "parked_max": scenario.cfg.parked_max, "yield_pct": scenario.cfg.yield_pct,
                "sched_mode": scenario.cfg.sched_mode, "init_nonce": scenario.cfg.init_nonce,
                "fee_transfer": scenario.cfg.fee_transfer, "fee_seq": scenario.cfg.fee_seq,
            },
            "ops": scenario.ops.len(),
            "op_kinds": kinds,
            "first_ops": head,
        })
    }
}

fn body_uses(body: &Body, a: usize) -> bool {
    matches!(body, Body::Transfer { to, .. } if *to == a)
}

fn uses_account(op: &Op, a: usize) -> bool {
    match &op.kind {
        OpKind::Submit {
            acct,
            body,
            ..
        } => *acct == a || body_uses(body, a),
        OpKind::Block {
            foreign, ..
        } => foreign.iter().any(|(acct, body)| *acct == a || body_uses(body, a)),
        OpKind::Poll {
            what: PollWhat::PendingNonce(acct),
        } => *acct == a,
        _ => false,
    }
}
