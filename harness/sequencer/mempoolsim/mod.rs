//! placeholder while the first dependency build runs
#![allow(dead_code, unreachable_pub, clippy::all, clippy::pedantic)]
use crate::verif::common::{Engine, Outcome};
pub struct MempoolSim;
#[derive(serde::Serialize, serde::Deserialize, Clone)]
pub struct Scenario { pub seed: u64 }
impl Engine for MempoolSim {
    type Scenario = Scenario;
    const NAME: &'static str = "mempoolsim";
    fn generate(_p: &str, _t: &str, seed: u64) -> Scenario { Scenario { seed } }
    fn run(_s: &Scenario) -> Outcome { Outcome::default() }
    fn len(_s: &Scenario) -> usize { 0 }
    fn retain(s: &Scenario, _k: &[bool]) -> Scenario { s.clone() }
}
