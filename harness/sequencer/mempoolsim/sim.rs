//! World, simulated tasks and the run loop of `mempoolsim`.
#![allow(dead_code, unreachable_pub, clippy::all, clippy::pedantic)]

use std::{
    cell::RefCell,
    collections::{
        BTreeMap,
        HashMap,
    },
    panic::AssertUnwindSafe,
    rc::Rc,
    sync::{
        Arc,
        OnceLock,
    },
    time::Duration,
};

use astria_core::{
    crypto::SigningKey,
    primitive::v1::{
        asset::Denom,
        RollupId,
        TransactionId,
    },
    protocol::{
        fees::v1::FeeComponents,
        transaction::v1::{
            action::{
                group::Group,
                FeeChange,
                RollupDataSubmission,
                Transfer,
            },
            Action,
            TransactionBody,
        },
    },
    Protobuf as _,
};
use bytes::Bytes;
use cnidarium::{
    StateDelta,
};
use futures::FutureExt as _;
use prost::Message as _;
use sha2::Digest as _;
use telemetry::Metrics as _;
use tendermint::abci::types::ExecTxResult;

use super::{
    exec::{
        Executor,
        Notify,
    },
    memstate::{
        maybe_yield,
        MemSnap,
        MemStore,
        TaskCtx,
    },
    oracle::{
        Ev,
        Oracle,
        Out,
        TxMeta,
    },
    Body,
    Config,
    NonceSpec,
    Op,
    OpKind,
    PollWhat,
    Scenario,
    Via,
    MAX_ASSETS,
    PROPERTY,
};
use crate::{
    accounts::{
        StateReadExt as _,
        StateWriteExt as _,
    },
    address::StateWriteExt as _,
    app::StateWriteExt as _,
    assets::StateWriteExt as _,
    authority::StateWriteExt as _,
    checked_actions::CheckedAction,
    checked_transaction::{
        CheckedTransaction,
        CheckedTransactionExecutionError,
    },
    fees::{
        StateReadExt as _,
        StateWriteExt as _,
    },
    mempool::{
        get_account_balances,
        verif_probe::{
            ReasonView,
            StatusView,
        },
        Mempool,
        RemovalReason,
        TransactionStatus,
    },
    service::mempool::{
        check_tx,
        CheckTxOutcome,
    },
    test_utils::astria_address,
    verif::common::{
        self,
        Outcome,
        Rng,
        Stats,
        Trace,
        Violations,
    },
    Metrics,
};

// ---------------------------------------------------------------------------------------------
// static helpers
// ---------------------------------------------------------------------------------------------

fn metrics() -> &'static Metrics {
    static M: OnceLock<&'static Metrics> = OnceLock::new();
    M.get_or_init(|| Box::leak(Box::new(Metrics::noop_metrics(&()).unwrap())))
}

pub fn signing_key(acct: usize) -> SigningKey {
    let mut seed = [0x42u8; 32];
    seed[0] = acct as u8 + 1;
    seed[31] = 0x17;
    SigningKey::from(seed)
}

pub fn denom(asset: usize) -> Denom {
    match asset {
        0 => "nria".parse().unwrap(),
        1 => "denom_1".parse().unwrap(),
        _ => "denom_2".parse().unwrap(),
    }
}

pub fn asset_id(asset: usize) -> [u8; 32] {
    *denom(asset).to_ibc_prefixed().as_bytes()
}

/// Decoded copy of the parts of one chain-state version that the oracle needs ("what was shown to
/// the mempool"): read from the `MemSnap` with the crate's own storage codecs, never yielding.
#[derive(Clone, Debug)]
pub struct Mirror {
    pub version: u64,
    pub nonces: Vec<u32>,
    /// per account: asset id -> balance
    pub balances: Vec<BTreeMap<[u8; 32], u128>>,
    pub fee_transfer: Option<(u128, u128)>,
    pub fee_seq: Option<(u128, u128)>,
}

impl Mirror {
    fn read(snap: &MemSnap, addrs: &[[u8; 20]]) -> Self {
        let q = snap.quiet();
        let mut nonces = Vec::new();
        let mut balances = Vec::new();
        for a in addrs {
            nonces.push(
                q.get_account_nonce(a)
                    .now_or_never()
                    .expect("quiet read is ready")
                    .unwrap(),
            );
            let b = get_account_balances(&q, a)
                .now_or_never()
                .expect("quiet read is ready")
                .unwrap();
            balances.push(b.into_iter().map(|(k, v)| (*k.as_bytes(), v)).collect());
        }
        let fee_transfer = q
            .get_fees::<Transfer>()
            .now_or_never()
            .expect("quiet read is ready")
            .unwrap()
            .map(|f| (f.base(), f.multiplier()));
        let fee_seq = q
            .get_fees::<RollupDataSubmission>()
            .now_or_never()
            .expect("quiet read is ready")
            .unwrap()
            .map(|f| (f.base(), f.multiplier()));
        Mirror {
            version: snap.version,
            nonces,
            balances,
            fee_transfer,
            fee_seq,
        }
    }

    /// The harness's own cost model of a transaction body under this version's fee schedule:
    /// fees (base + multiplier * variable component) in the fee asset plus the transferred amount
    /// in the transferred asset. `None` if the action's fees are not set.
    pub fn cost(&self, body: &Body) -> Option<BTreeMap<[u8; 32], u128>> {
        let mut out = BTreeMap::new();
        match body {
            Body::Transfer {
                asset,
                fee_asset,
                amount,
                ..
            } => {
                let (base, _mult) = self.fee_transfer?;
                *out.entry(asset_id(*fee_asset)).or_insert(0u128) += base;
                *out.entry(asset_id(*asset)).or_insert(0u128) += u128::from(*amount);
            }
            Body::Seq {
                len,
                fee_asset,
            } => {
                let (base, mult) = self.fee_seq?;
                *out.entry(asset_id(*fee_asset)).or_insert(0u128) += base + mult * (*len as u128);
            }
            Body::FeeChange {
                ..
            } => {}
        }
        Some(out)
    }
}

pub fn body_group(body: &Body) -> u8 {
    match body {
        Body::FeeChange {
            ..
        } => 2, // BundleableSudo
        _ => 4, // BundleableGeneral
    }
}

fn group_code(group: Group) -> u8 {
    match group {
        Group::UnbundleableSudo => 1,
        Group::BundleableSudo => 2,
        Group::UnbundleableGeneral => 3,
        Group::BundleableGeneral => 4,
    }
}

#[derive(Clone)]
pub struct BuiltTx {
    pub id: [u8; 32],
    pub bytes: Bytes,
    pub acct: usize,
    pub nonce: u32,
    pub body: Body,
}

// ---------------------------------------------------------------------------------------------
// world
// ---------------------------------------------------------------------------------------------

pub struct Shared {
    pub snaps: Vec<MemSnap>,
    pub mirrors: Vec<Mirror>,
    pub height: u64,
    // CometBFT's mempool lock: held around Commit; CheckTx requests in flight are flushed first
    pub checktx_inflight: usize,
    /// CometBFT's tx cache: it never has two CheckTx requests for the same tx in flight
    pub comet_inflight_ids: std::collections::BTreeSet<[u8; 32]>,
    pub commit_locked: bool,
    pub block_turn: u64,
    pub events: Vec<Ev>,
    pub wallet: Vec<Option<u32>>,
    pub built: BTreeMap<u64, BuiltTx>,
    pub new_txs: Vec<([u8; 32], TxMeta)>,
    /// tasks currently inside a mempool-facing operation (op id -> label)
    pub in_op: BTreeMap<u64, &'static str>,
    pub stats: Stats,
}

pub struct World {
    pub cfg: Config,
    pub mempool: Mempool,
    pub metrics: &'static Metrics,
    pub addrs: Vec<[u8; 20]>,
    pub keys: Vec<SigningKey>,
    pub st: RefCell<Shared>,
    pub notify: Notify,
}

impl World {
    fn latest(&self) -> MemSnap {
        self.st.borrow().snaps.last().unwrap().clone()
    }

    fn ev(&self, ev: Ev) {
        self.st.borrow_mut().events.push(ev);
    }

    fn build_tx(&self, acct: usize, nonce: u32, body: &Body) -> BuiltTx {
        let action: Action = match body {
            Body::Transfer {
                to,
                asset,
                fee_asset,
                amount,
            } => Transfer {
                to: astria_address(&self.addrs[*to % self.addrs.len()]),
                amount: u128::from(*amount),
                asset: denom(*asset),
                fee_asset: denom(*fee_asset),
            }
            .into(),
            Body::Seq {
                len,
                fee_asset,
            } => RollupDataSubmission {
                rollup_id: RollupId::new([7; 32]),
                data: Bytes::from(vec![0xabu8; *len]),
                fee_asset: denom(*fee_asset),
            }
            .into(),
            Body::FeeChange {
                target,
                base,
                mult,
            } => {
                if *target == 0 {
                    FeeChange::Transfer(FeeComponents::new(u128::from(*base), u128::from(*mult)))
                        .into()
                } else {
                    FeeChange::RollupDataSubmission(FeeComponents::new(
                        u128::from(*base),
                        u128::from(*mult),
                    ))
                    .into()
                }
            }
        };
        let tx = TransactionBody::builder()
            .nonce(nonce)
            .chain_id("test".to_string())
            .actions(vec![action])
            .try_build()
            .unwrap()
            .sign(&self.keys[acct]);
        let bytes = Bytes::from(tx.into_raw().encode_to_vec());
        let id: [u8; 32] = sha2::Sha256::digest(&bytes).into();
        BuiltTx {
            id,
            bytes,
            acct,
            nonce,
            body: body.clone(),
        }
    }

    fn register(&self, tx: &BuiltTx, foreign: bool) {
        self.st.borrow_mut().new_txs.push((
            tx.id,
            TxMeta {
                acct: tx.acct,
                nonce: tx.nonce,
                group: body_group(&tx.body),
                body: tx.body.clone(),
                foreign,
            },
        ));
    }
}

fn genesis(cfg: &Config, addrs: &[[u8; 20]]) -> MemSnap {
    let mut s = MemStore::default();
    s.put_base_prefix("astria".to_string()).unwrap();
    s.put_ibc_compat_prefix("astriacompat".to_string()).unwrap();
    s.put_native_asset("nria".parse().unwrap()).unwrap();
    for a in 0..MAX_ASSETS {
        s.put_ibc_asset(denom(a).unwrap_trace_prefixed()).unwrap();
    }
    s.put_chain_id_and_revision_number("test".try_into().unwrap())
        .unwrap();
    s.put_block_height(1).unwrap();
    s.put_sudo_address(addrs[0]).unwrap();
    for a in 0..cfg.n_fee_assets {
        s.put_allowed_fee_asset(&denom(a)).unwrap();
    }
    s.put_fees(FeeComponents::<Transfer>::new(
        u128::from(cfg.fee_transfer.0),
        u128::from(cfg.fee_transfer.1),
    ))
    .unwrap();
    s.put_fees(FeeComponents::<RollupDataSubmission>::new(
        u128::from(cfg.fee_seq.0),
        u128::from(cfg.fee_seq.1),
    ))
    .unwrap();
    s.put_fees(FeeComponents::<FeeChange>::new(0, 0)).unwrap();
    for (i, addr) in addrs.iter().enumerate() {
        if cfg.init_nonce[i] != 0 {
            s.put_account_nonce(addr, cfg.init_nonce[i]).unwrap();
        }
        for asset in 0..cfg.n_assets {
            let b = cfg.init_balance[i][asset];
            if b != 0 {
                s.put_account_balance(addr, &denom(asset), u128::from(b))
                    .unwrap();
            }
        }
    }
    s.snapshot(0)
}

// ---------------------------------------------------------------------------------------------
// simulated tasks
// ---------------------------------------------------------------------------------------------

fn classify(outcome: &CheckTxOutcome) -> Out {
    match outcome {
        CheckTxOutcome::AddedToPending(_) => Out::AddedPending,
        CheckTxOutcome::AddedToParked(_) => Out::AddedParked,
        CheckTxOutcome::AlreadyInPending(_) => Out::AlreadyPending,
        CheckTxOutcome::AlreadyInParked(_) => Out::AlreadyParked,
        CheckTxOutcome::FailedChecks(e) => Out::FailedChecks(
            match e {
                crate::checked_transaction::CheckedTransactionInitialCheckError::TooLarge {
                    ..
                } => "too-large",
                crate::checked_transaction::CheckedTransactionInitialCheckError::Decode(_) => "decode",
                crate::checked_transaction::CheckedTransactionInitialCheckError::Convert(_) => "convert",
                crate::checked_transaction::CheckedTransactionInitialCheckError::InvalidNonce {
                    ..
                } => "invalid-nonce",
                crate::checked_transaction::CheckedTransactionInitialCheckError::ChainIdMismatch {
                    ..
                } => "chain-id",
                crate::checked_transaction::CheckedTransactionInitialCheckError::CheckedAction(_) => {
                    "checked-action"
                }
                crate::checked_transaction::CheckedTransactionInitialCheckError::InternalError {
                    ..
                } => "internal",
            },
        ),
        CheckTxOutcome::FailedInsertion(e) => Out::FailedInsertion(format!("{e:?}")),
        CheckTxOutcome::RemovedFromMempool {
            reason, ..
        } => Out::Removed(ReasonView::from_reason(reason)),
        CheckTxOutcome::InternalError(_) => Out::InternalError,
    }
}

async fn submit_task(world: Rc<World>, op: u64, tx: BuiltTx, via: Via) {
    if via == Via::Comet {
        // CometBFT does not issue CheckTx while it holds its mempool lock (Commit), and its tx
        // cache keeps it from having two CheckTx requests for the same tx in flight
        world
            .notify
            .wait_until(|| {
                let st = world.st.borrow();
                !st.commit_locked && !st.comet_inflight_ids.contains(&tx.id)
            })
            .await;
        let mut st = world.st.borrow_mut();
        st.checktx_inflight += 1;
        st.comet_inflight_ids.insert(tx.id);
        drop(st);
    }
    // `storage.latest_snapshot()` at the time the request is handled
    let snap = world.latest();
    let version = snap.version;
    world.st.borrow_mut().in_op.insert(op, "check_tx");
    world.ev(Ev::SubmitStart {
        op,
        id: tx.id,
        acct: tx.acct,
        version,
    });
    let outcome = check_tx(tx.bytes.clone(), snap, &world.mempool, world.metrics).await;
    let out = classify(&outcome);
    if let Out::Removed(reason) = &out {
        world.ev(Ev::StatusObs {
            id: tx.id,
            status: StatusView::Removed(reason.clone()),
        });
    }
    world.ev(Ev::SubmitDone {
        op,
        id: tx.id,
        acct: tx.acct,
        version,
        out: out.clone(),
        via,
    });
    if via == Via::Comet {
        // mirrors `handle_check_tx_request`
        if let CheckTxOutcome::RemovedFromMempool {
            tx_id, ..
        } = &outcome
        {
            world.mempool.remove_from_removal_cache(tx_id).await;
        }
    }
    {
        let mut st = world.st.borrow_mut();
        st.in_op.remove(&op);
        if via == Via::Comet {
            st.checktx_inflight -= 1;
            st.comet_inflight_ids.remove(&tx.id);
        }
    }
    world.notify.notify_all();
}

async fn poll_task(world: Rc<World>, op: u64, what: PollWhat) {
    match what {
        PollWhat::Status(target) => {
            let Some(id) = world.st.borrow().built.get(&target).map(|t| t.id) else {
                return;
            };
            let status = world
                .mempool
                .transaction_status(&TransactionId::new(id))
                .await;
            let status = match status {
                None => StatusView::Unknown,
                Some(TransactionStatus::Pending) => StatusView::Pending,
                Some(TransactionStatus::Parked) => StatusView::Parked,
                Some(TransactionStatus::Removed(r)) => {
                    StatusView::Removed(ReasonView::from_reason(&r))
                }
            };
            world.ev(Ev::StatusObs {
                id,
                status,
            });
        }
        PollWhat::Len => {
            let n = world.mempool.len().await;
            world.ev(Ev::LenObs(n));
        }
        PollWhat::PendingNonce(acct) => {
            let acct = acct % world.addrs.len();
            let n = world.mempool.pending_nonce(&world.addrs[acct]).await;
            world.ev(Ev::PendingNonceObs {
                acct,
                nonce: n,
            });
        }
        PollWhat::Queue => {
            let queue = world.mempool.builder_queue().await;
            world.ev(Ev::Queue {
                op,
                ids: queue.iter().map(|t| t.id().get()).collect(),
            });
        }
    }
}

/// Executes `tx` on a nested delta like `App::execute_transaction`: changes are applied only if
/// the whole transaction succeeds.
async fn execute_on(
    delta: &mut StateDelta<MemSnap>,
    tx: &CheckedTransaction,
) -> Result<(), CheckedTransactionExecutionError> {
    let mut tx_delta = StateDelta::new(&mut *delta);
    tx.execute(&mut tx_delta).await?;
    let _ = tx_delta.apply();
    Ok(())
}

fn changes_fees(tx: &CheckedTransaction) -> bool {
    tx.checked_actions().iter().any(|a| {
        matches!(
            a,
            CheckedAction::FeeChange(_) | CheckedAction::FeeAssetChange(_)
        )
    })
}

async fn block_task(
    world: Rc<World>,
    op: u64,
    seq: u64,
    max_txs: usize,
    foreign: Vec<(usize, Body)>,
    commit: bool,
) {
    world
        .notify
        .wait_until(|| world.st.borrow().block_turn == seq)
        .await;
    world.st.borrow_mut().in_op.insert(op, "block");
    let snap = world.latest();
    let mut delta = StateDelta::new(snap.clone());
    let mut included: Vec<Arc<CheckedTransaction>> = Vec::new();
    let mut recost = false;

    // transactions that did not come from this node's mempool (another proposer's block)
    for (acct, body) in foreign {
        let acct = acct % world.addrs.len();
        let nonce = delta
            .get_account_nonce(&world.addrs[acct])
            .await
            .expect("nonce read");
        let built = world.build_tx(acct, nonce, &body);
        world.register(&built, true);
        let Ok(checked) = CheckedTransaction::new(built.bytes.clone(), &delta).await else {
            continue;
        };
        if execute_on(&mut delta, &checked).await.is_ok() {
            recost |= changes_fees(&checked);
            included.push(Arc::new(checked));
        }
    }

    // mirrors `App::prepare_proposal_tx_execution` / `proposal_checks_and_tx_execution`
    if max_txs > 0 {
        let queue = world.mempool.builder_queue().await;
        world.ev(Ev::Queue {
            op,
            ids: queue.iter().map(|t| t.id().get()).collect(),
        });
        let mut current_group = Group::BundleableGeneral;
        let mut taken = 0usize;
        for tx in queue {
            if taken >= max_txs {
                break; // block full
            }
            if tx.group() > current_group {
                continue;
            }
            maybe_yield().await;
            match execute_on(&mut delta, &tx).await {
                Ok(()) => {
                    recost |= changes_fees(&tx);
                    current_group = tx.group();
                    taken += 1;
                    included.push(tx);
                }
                Err(CheckedTransactionExecutionError::InvalidNonce {
                    ..
                }) => {}
                Err(error) => {
                    world.ev(Ev::RemoveInvalid {
                        id: tx.id().get(),
                    });
                    let reason = RemovalReason::FailedExecution(error.to_string());
                    world.mempool.remove_tx_invalid(tx, reason).await;
                }
            }
        }
    }

    if !commit {
        // the round failed: nothing is committed, the mempool keeps what execution did to it
        {
            let mut st = world.st.borrow_mut();
            st.in_op.remove(&op);
            st.block_turn += 1;
            st.stats.probe("failed_round");
        }
        world.notify.notify_all();
        return;
    }

    // CometBFT takes its mempool lock and flushes the mempool connection before Commit
    world.st.borrow_mut().commit_locked = true;
    world
        .notify
        .wait_until(|| world.st.borrow().checktx_inflight == 0)
        .await;

    // `App::commit`: write the batch, take the new snapshot ...
    let (_snap, cache) = delta.flatten();
    let mut store = snap.to_store();
    cache.apply_to(&mut store);
    let (height, new_snap) = {
        let mut st = world.st.borrow_mut();
        st.height += 1;
        let height = st.height;
        store.put_block_height(height).unwrap();
        let version = st.snaps.len() as u64;
        let new_snap = store.snapshot(version);
        st.mirrors.push(Mirror::read(&new_snap, &world.addrs));
        st.snaps.push(new_snap.clone());
        (height, new_snap)
    };
    world.ev(Ev::Committed {
        height,
        version: new_snap.version,
        ids: included.iter().map(|t| t.id().get()).collect(),
    });
    // (the real `commit` awaits a state read between publishing the snapshot and maintenance)
    maybe_yield().await;

    // ... then `update_mempool_after_finalization`
    let results: HashMap<TransactionId, Arc<ExecTxResult>> = included
        .iter()
        .map(|t| (*t.id(), Arc::new(ExecTxResult::default())))
        .collect();
    let state_for_maintenance = StateDelta::new(new_snap.clone());
    world.ev(Ev::MaintStart {
        version: new_snap.version,
    });
    world
        .mempool
        .run_maintenance(&state_for_maintenance, recost, results, height)
        .await;
    world.ev(Ev::MaintDone {
        version: new_snap.version,
        height,
        recost,
    });
    {
        let mut st = world.st.borrow_mut();
        st.in_op.remove(&op);
        st.commit_locked = false;
        st.block_turn += 1;
        if recost {
            st.stats.probe("recost");
        }
    }
    world.notify.notify_all();
}

// ---------------------------------------------------------------------------------------------
// run loop
// ---------------------------------------------------------------------------------------------

const STEP_MS: u64 = 1;
const MAX_STEPS: u64 = 200_000;

struct Sim {
    world: Rc<World>,
    exec: Executor,
    oracle: Oracle,
    trace: Trace,
    viol: Violations,
    base_rng: Rng,
    block_seq: u64,
    sim_ms: u64,
    panicked: bool,
}

impl Sim {
    fn release(&mut self, op: &Op) {
        let world = self.world.clone();
        let ctx = TaskCtx::new(self.base_rng.fork(op.id), world.cfg.yield_pct);
        match &op.kind {
            OpKind::Submit {
                acct,
                nonce,
                body,
                via,
                dup_of,
            } => {
                let acct = *acct % world.addrs.len();
                let prebuilt = dup_of.and_then(|d| world.st.borrow().built.get(&d).cloned());
                let tx = match prebuilt {
                    Some(tx) => tx,
                    None => {
                        let chain_nonce = world.st.borrow().mirrors.last().unwrap().nonces[acct];
                        let mut st = world.st.borrow_mut();
                        // the client's wallet: its own counter, never behind the chain nonce it sees
                        let w = st.wallet[acct].unwrap_or(chain_nonce).max(chain_nonce);
                        let n = match nonce {
                            NonceSpec::Next => {
                                st.wallet[acct] = Some(w.saturating_add(1));
                                w
                            }
                            NonceSpec::Gap(k) => w.saturating_add(*k),
                            NonceSpec::Stale(k) => chain_nonce.saturating_sub(*k),
                            NonceSpec::Replace => w.saturating_sub(1),
                            NonceSpec::Resync => {
                                st.wallet[acct] = Some(chain_nonce.saturating_add(1));
                                chain_nonce
                            }
                            NonceSpec::Abs(n) => *n,
                        };
                        drop(st);
                        let body = match body {
                            // only the sudo account builds fee changes
                            Body::FeeChange {
                                ..
                            } if acct != 0 => Body::Seq {
                                len: 1,
                                fee_asset: 0,
                            },
                            other => other.clone(),
                        };
                        let tx = world.build_tx(acct, n, &body);
                        world.register(&tx, false);
                        tx
                    }
                };
                world.st.borrow_mut().built.insert(op.id, tx.clone());
                self.trace.ev(&format!(
                    "release op{} submit acct{} nonce{} {} via{:?} dup{:?}",
                    op.id,
                    tx.acct,
                    tx.nonce,
                    common::short_hex(&tx.id),
                    via,
                    dup_of
                ));
                let label = if *via == Via::Grpc {
                    "submit_grpc"
                } else {
                    "submit_comet"
                };
                self.world.st.borrow_mut().stats.probe(label);
                self.exec.spawn(
                    op.id,
                    label,
                    ctx,
                    Box::pin(submit_task(world, op.id, tx, *via)),
                );
            }
            OpKind::Block {
                max_txs,
                foreign,
                commit,
            } => {
                let seq = self.block_seq;
                self.block_seq += 1;
                self.trace.ev(&format!(
                    "release op{} block#{} max{} foreign{} commit{}",
                    op.id,
                    seq,
                    max_txs,
                    foreign.len(),
                    commit
                ));
                self.exec.spawn(
                    op.id,
                    "block",
                    ctx,
                    Box::pin(block_task(
                        world,
                        op.id,
                        seq,
                        *max_txs,
                        foreign.clone(),
                        *commit,
                    )),
                );
            }
            OpKind::Poll {
                what,
            } => {
                self.trace.ev(&format!("release op{} poll {:?}", op.id, what));
                self.exec.spawn(
                    op.id,
                    "poll",
                    ctx,
                    Box::pin(poll_task(world, op.id, what.clone())),
                );
            }
            OpKind::Advance {
                ..
            } => unreachable!("handled by the driver"),
        }
    }

    /// One scheduler step followed by the oracle. Returns false if nothing was runnable.
    async fn step(&mut self) -> bool {
        let exec = &mut self.exec;
        let info = match common::catch(AssertUnwindSafe(|| exec.step())) {
            Ok(Some(info)) => info,
            Ok(None) => return false,
            Err(msg) => {
                if msg.contains("/verif/harness/") {
                    panic!("harness panic inside a simulated task: {msg}");
                }
                self.viol.push(
                    PROPERTY,
                    "panic",
                    "panic-in-mempool-path",
                    self.exec.steps,
                    format!("code under test panicked: {msg}"),
                );
                self.panicked = true;
                return false;
            }
        };
        self.trace.ev(&format!(
            "s{} op{} {} p{}{}",
            self.exec.steps,
            info.op_id,
            info.label,
            info.polls,
            if info.finished { " done" } else { "" }
        ));
        tokio::time::advance(Duration::from_millis(STEP_MS)).await;
        self.sim_ms += STEP_MS;
        let step = self.exec.steps;
        self.oracle
            .after_step(&self.world, step, &mut self.trace, &mut self.viol);
        true
    }
}

pub fn run(scenario: &Scenario) -> Outcome {
    let rt = tokio::runtime::Builder::new_current_thread()
        .enable_time()
        .start_paused(true)
        .build()
        .unwrap();
    rt.block_on(run_async(scenario))
}

async fn run_async(scenario: &Scenario) -> Outcome {
    let cfg = scenario.cfg.clone();
    assert!(cfg.n_accounts >= 1 && cfg.n_accounts <= super::MAX_ACCOUNTS);
    let keys: Vec<SigningKey> = (0..cfg.n_accounts).map(signing_key).collect();
    let addrs: Vec<[u8; 20]> = keys.iter().map(SigningKey::address_bytes).collect();
    let snap0 = genesis(&cfg, &addrs);
    let mirror0 = Mirror::read(&snap0, &addrs);
    let mempool = Mempool::new(metrics(), cfg.parked_max, cfg.exec_cache);
    let world = Rc::new(World {
        mempool,
        metrics: metrics(),
        addrs: addrs.clone(),
        keys,
        st: RefCell::new(Shared {
            snaps: vec![snap0],
            mirrors: vec![mirror0],
            height: 1,
            checktx_inflight: 0,
            comet_inflight_ids: std::collections::BTreeSet::new(),
            commit_locked: false,
            block_turn: 0,
            events: Vec::new(),
            wallet: vec![None; cfg.n_accounts],
            built: BTreeMap::new(),
            new_txs: Vec::new(),
            in_op: BTreeMap::new(),
            stats: Stats::default(),
        }),
        notify: Notify::default(),
        cfg: cfg.clone(),
    });
    let mut sim = Sim {
        exec: Executor::new(cfg.sched_seed, cfg.sched_mode),
        oracle: Oracle::new(&cfg, &addrs),
        trace: Trace::new(),
        viol: Violations::default(),
        base_rng: Rng::new(cfg.sched_seed ^ 0x7A5C),
        block_seq: 0,
        sim_ms: 0,
        panicked: false,
        world: world.clone(),
    };
    sim.trace.ev(&format!(
        "cfg profile={} accts={} assets={}/{} parked_max={} yield={} mode={}",
        cfg.profile,
        cfg.n_accounts,
        cfg.n_assets,
        cfg.n_fee_assets,
        cfg.parked_max,
        cfg.yield_pct,
        cfg.sched_mode
    ));

    'ops: for op in &scenario.ops {
        if let OpKind::Advance {
            ms,
        } = &op.kind
        {
            // A jump never happens while a maintenance run is mid-flight: run_maintenance reads the
            // clock once per account, in HashSet order, so a jump in the middle would let that
            // (unseedable) order decide which accounts' transactions expire.
            while !crate::mempool::verif_probe::is_quiescent(&world.mempool) {
                if !sim.step().await {
                    break;
                }
            }
            if sim.panicked {
                break 'ops;
            }
            sim.trace.ev(&format!("advance {ms}ms"));
            tokio::time::advance(Duration::from_millis(*ms)).await;
            sim.sim_ms += *ms;
            world.st.borrow_mut().stats.probe("advance");
        } else {
            sim.release(op);
        }
        for _ in 0..op.gap {
            if !sim.step().await {
                if sim.panicked {
                    break 'ops;
                }
                break;
            }
        }
    }
    // drain
    while !sim.panicked && sim.exec.live() > 0 {
        if !sim.step().await {
            if sim.panicked {
                break;
            }
            panic!(
                "mempoolsim: live tasks but none runnable (harness deadlock): {:?}",
                sim.exec.live_labels()
            );
        }
        if sim.exec.steps > MAX_STEPS {
            panic!("mempoolsim: step budget exhausted");
        }
    }
    if !sim.panicked {
        let step = sim.exec.steps;
        sim.oracle
            .at_end(&world, step, &mut sim.trace, &mut sim.viol);
    }

    let mut stats = std::mem::take(&mut world.st.borrow_mut().stats);
    sim.oracle.fill_stats(&mut stats);
    let (reads, yields) = sim
        .exec
        .tasks
        .iter()
        .fold((0, 0), |(r, y), t| (r + t.reads, y + t.yields));
    stats.probe_n("state_reads", reads);
    if yields > 0 {
        stats.faults.insert("read_yield".to_string(), yields);
    }
    stats.steps = sim.exec.steps;
    stats.sim_ms = sim.sim_ms;
    if sim.oracle.nontrivial() {
        stats.mark_nontrivial(PROPERTY);
    }
    stats.finish(&sim.trace);
    // break the Rc cycle-free world down explicitly so that every future is gone before the
    // runtime is dropped
    drop(sim.exec);
    Outcome {
        violations: sim.viol.list,
        stats,
        trace_lines: std::mem::take(&mut sim.trace.lines),
    }
}
