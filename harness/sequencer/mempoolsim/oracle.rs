//! The C13 oracle of `mempoolsim`.
//!
//! Written from the property statement. It is evaluated after every scheduler step at which the
//! probe (hook H9) can take the mempool lock, i.e. at which no mempool operation is mid-flight.
//!
//! Oracle ids (-> sentence of C13 they encode):
//! * `dup-in-containers`, `container-not-tracked`, `tracked-not-held`, `held-and-reported-removed`,
//!   `status-mismatch` -> "each accepted transaction is in exactly one place (ready, parked, or
//!   reported as removed with a reason)" (duplication side)
//! * `silently-lost` -> same sentence, loss side: a transaction that was accepted and is in neither
//!   container must be reported as removed (removal cache / recent execution results / a `Removed`
//!   status seen by a client)
//! * `len-mismatch` -> `len` = ready + parked
//! * `pending-not-consecutive-from-shown-nonce`, `pending-nonce-api` -> "the ready transactions of
//!   an account have consecutive nonces starting at the account nonce last shown to the mempool"
//! * `pending-unaffordable` -> "... and are jointly affordable from the balances last shown to it"
//!   (costs from the harness's own cost model under the fee schedule of the same shown state)
//! * `stale-nonce-remains` -> "after maintenance against a chain state no transaction with an
//!   already-used nonce remains"
//! * `builder-queue-order` -> "the block-building order never places a higher nonce of an account
//!   before a lower one of the same action group"
//! * `parked-account-limit`, `parked-total-limit` -> "parked limits per account and in total are
//!   respected"
//! * `removal-reason` -> "reported as removed with a reason": the reason must be consistent with
//!   what the harness knows happened to that transaction
//!
//! "Last shown": the mempool is shown an account's nonce and balances by `run_maintenance(state)`
//! and by every successful `insert`. The harness knows the state version used by each. When more
//! than one such event for an account falls between two consecutive views (possible only while the
//! lock is handed from task to task) their order is not observable; then every such version is a
//! candidate and the per-account invariants must hold for at least one candidate.
#![allow(dead_code, unreachable_pub, clippy::all, clippy::pedantic)]

use std::collections::{
    BTreeMap,
    BTreeSet,
};

use super::{
    sim::{
        Mirror,
        World,
    },
    Body,
    Config,
    Via,
    PROPERTY,
};
use crate::{
    mempool::verif_probe::{
        self,
        ReasonView,
        StatusView,
        TxView,
        View,
    },
    verif::common::{
        short_hex,
        Stats,
        Trace,
        Violations,
    },
};

#[derive(Clone, Debug)]
pub struct TxMeta {
    pub acct: usize,
    pub nonce: u32,
    pub group: u8,
    pub body: Body,
    pub foreign: bool,
}

#[derive(Clone, Debug, PartialEq, Eq)]
pub enum Out {
    AddedPending,
    AddedParked,
    AlreadyPending,
    AlreadyParked,
    FailedChecks(&'static str),
    FailedInsertion(String),
    Removed(ReasonView),
    InternalError,
}

impl Out {
    fn name(&self) -> String {
        match self {
            Out::AddedPending => "added-pending".into(),
            Out::AddedParked => "added-parked".into(),
            Out::AlreadyPending => "already-pending".into(),
            Out::AlreadyParked => "already-parked".into(),
            Out::FailedChecks(why) => format!("failed-checks-{why}"),
            Out::FailedInsertion(e) => format!("failed-insertion-{e}"),
            Out::Removed(r) => format!("removed-{}", r.name()),
            Out::InternalError => "internal-error".into(),
        }
    }
}

#[derive(Clone, Debug)]
pub enum Ev {
    SubmitStart {
        op: u64,
        id: [u8; 32],
        acct: usize,
        version: u64,
    },
    SubmitDone {
        op: u64,
        id: [u8; 32],
        acct: usize,
        version: u64,
        out: Out,
        via: Via,
    },
    Queue {
        op: u64,
        ids: Vec<[u8; 32]>,
    },
    RemoveInvalid {
        id: [u8; 32],
    },
    Committed {
        height: u64,
        version: u64,
        ids: Vec<[u8; 32]>,
    },
    MaintStart {
        version: u64,
    },
    MaintDone {
        version: u64,
        height: u64,
        recost: bool,
    },
    StatusObs {
        id: [u8; 32],
        status: StatusView,
    },
    LenObs(usize),
    PendingNonceObs {
        acct: usize,
        nonce: Option<u32>,
    },
}

#[derive(Clone, Copy, Debug, PartialEq, Eq)]
enum Place {
    Pending,
    Parked,
}

pub struct Oracle {
    profile: String,
    addrs: Vec<[u8; 20]>,
    addr_to_acct: BTreeMap<[u8; 20], usize>,
    txs: BTreeMap<[u8; 32], TxMeta>,
    known_ids: Vec<[u8; 32]>,
    views: u64,
    gap_steps: u64,
    gap_events: Vec<Ev>,
    held_prev: BTreeMap<[u8; 32], Place>,
    /// txs reported `Added*` to a client since the last view
    accepted_unseen: BTreeSet<[u8; 32]>,
    /// txs for which some client saw `Removed` since the last view
    reported: BTreeSet<[u8; 32]>,
    /// per account: candidate state versions for "last shown"
    shown: Vec<BTreeSet<u64>>,
    max_shown: Vec<u64>,
    /// version of the state of the last completed maintenance (0 = genesis)
    last_maint: u64,
    /// per account: since the last completed maintenance an insert used a snapshot in which this
    /// account's nonce/balances/fees differ from the state the mempool was last maintained against
    /// (check_tx read its snapshot before a commit, or after the commit but before maintenance)
    taint_snap: Vec<bool>,
    /// per account: an insert computed the tx's costs under a fee schedule that differs from the
    /// one of the state the mempool was last maintained against; the stale costs stay stored with
    /// the transaction until a maintenance run with recosting
    taint_cost: Vec<bool>,
    /// per account: since the last completed maintenance a tx was inserted by one of several
    /// concurrently in-flight submissions of the same tx
    taint_dup: Vec<bool>,
    /// txs that had two submissions in flight at the same time
    dup_race: BTreeSet<[u8; 32]>,
    snap_races: u64,
    dup_races: u64,
    inflight: BTreeMap<u64, ([u8; 32], usize, u64)>,
    gap_inflight: Vec<([u8; 32], usize, u64)>,
    committed: BTreeMap<[u8; 32], u64>,
    remove_invalid_called: BTreeSet<[u8; 32]>,
    first_seen: BTreeMap<[u8; 32], tokio::time::Instant>,
    removal_seen: BTreeMap<[u8; 32], ReasonView>,
    last_abs: String,
    last_detail: String,
    // statistics
    promotions: u64,
    demotions: u64,
    max_overlap: usize,
    overlap_steps: u64,
    view_unavailable: u64,
    ambiguous_gaps: u64,
    counters: BTreeMap<String, u64>,
}

impl Oracle {
    pub fn new(cfg: &Config, addrs: &[[u8; 20]]) -> Self {
        Self {
            profile: cfg.profile.clone(),
            addrs: addrs.to_vec(),
            addr_to_acct: addrs.iter().enumerate().map(|(i, a)| (*a, i)).collect(),
            txs: BTreeMap::new(),
            known_ids: Vec::new(),
            views: 0,
            gap_steps: 0,
            gap_events: Vec::new(),
            held_prev: BTreeMap::new(),
            accepted_unseen: BTreeSet::new(),
            reported: BTreeSet::new(),
            shown: vec![BTreeSet::from([0u64]); addrs.len()],
            max_shown: vec![0; addrs.len()],
            last_maint: 0,
            taint_snap: vec![false; addrs.len()],
            taint_cost: vec![false; addrs.len()],
            taint_dup: vec![false; addrs.len()],
            dup_race: BTreeSet::new(),
            snap_races: 0,
            dup_races: 0,
            inflight: BTreeMap::new(),
            gap_inflight: Vec::new(),
            committed: BTreeMap::new(),
            remove_invalid_called: BTreeSet::new(),
            first_seen: BTreeMap::new(),
            removal_seen: BTreeMap::new(),
            last_abs: String::new(),
            last_detail: String::new(),
            promotions: 0,
            demotions: 0,
            max_overlap: 0,
            overlap_steps: 0,
            view_unavailable: 0,
            ambiguous_gaps: 0,
            counters: BTreeMap::new(),
        }
    }

    fn count(&mut self, name: &str) {
        *self.counters.entry(name.to_string()).or_default() += 1;
    }

    pub fn nontrivial(&self) -> bool {
        self.max_overlap >= 2 && (self.promotions + self.demotions) >= 1
    }

    pub fn fill_stats(&self, stats: &mut Stats) {
        for (k, v) in &self.counters {
            stats.probe_n(k, *v);
        }
        stats.probe_n("views", self.views);
        stats.probe_n("view_unavailable", self.view_unavailable);
        stats.probe_n("promotion", self.promotions);
        stats.probe_n("demotion", self.demotions);
        stats.probe_n("overlap_steps", self.overlap_steps);
        stats.probe_n("ambiguous_show_order", self.ambiguous_gaps);
        if self.snap_races > 0 {
            stats.faults
                .insert("race_snapshot_mismatch_insert".to_string(), self.snap_races);
        }
        if self.dup_races > 0 {
            stats.faults
                .insert("race_concurrent_duplicate_submission".to_string(), self.dup_races);
        }
    }

    /// Stable description of the input class of a violation: which check_tx race (if any) touched
    /// the transaction / account concerned since the mempool was last maintained.
    fn sig_tx(&self, acct: Option<usize>, id: Option<&[u8; 32]>) -> &'static str {
        const DUP: &str = "race:concurrent-duplicate-submission";
        const SNAP: &str = "race:snapshot-mismatch-insert";
        if let Some(id) = id {
            if self.dup_race.contains(id) {
                return DUP;
            }
        }
        match acct {
            Some(a) => {
                if self.taint_snap[a] || self.taint_cost[a] {
                    SNAP
                } else if self.taint_dup[a] {
                    DUP
                } else {
                    "plain"
                }
            }
            None => {
                if self.taint_snap.iter().any(|t| *t) || self.taint_cost.iter().any(|t| *t) {
                    SNAP
                } else if self.taint_dup.iter().any(|t| *t) {
                    DUP
                } else {
                    "plain"
                }
            }
        }
    }

    fn sig(&self, acct: Option<usize>) -> &'static str {
        self.sig_tx(acct, None)
    }

    fn sig_id(&self, id: &[u8; 32]) -> &'static str {
        self.sig_tx(self.acct_of(id), Some(id))
    }

    fn differs(mirrors: &[Mirror], a: usize, u: u64, v: u64) -> bool {
        let (x, y) = (&mirrors[u as usize], &mirrors[v as usize]);
        x.nonces[a] != y.nonces[a]
            || x.balances[a] != y.balances[a]
            || x.fee_transfer != y.fee_transfer
            || x.fee_seq != y.fee_seq
    }

    fn acct_of(&self, id: &[u8; 32]) -> Option<usize> {
        self.txs.get(id).map(|m| m.acct)
    }

    // -----------------------------------------------------------------------------------------

    pub fn after_step(&mut self, world: &World, step: u64, trace: &mut Trace, viol: &mut Violations) {
        self.gap_steps += 1;
        let (events, new_txs, in_op) = {
            let mut st = world.st.borrow_mut();
            (
                std::mem::take(&mut st.events),
                std::mem::take(&mut st.new_txs),
                st.in_op.len(),
            )
        };
        for (id, meta) in new_txs {
            if self.txs.insert(id, meta).is_none() {
                self.known_ids.push(id);
            }
        }
        if in_op >= 2 {
            self.overlap_steps += 1;
        }
        self.max_overlap = self.max_overlap.max(in_op);
        let mirrors = world.st.borrow().mirrors.clone();
        for ev in &events {
            self.on_event(ev, step, trace, viol);
        }
        self.gap_events.extend(events);

        // which ids need the real `transaction_status` evaluated this time
        let full = self.views % 8 == 0;
        let mut status_ids: BTreeSet<[u8; 32]> = BTreeSet::new();
        if full {
            status_ids.extend(self.known_ids.iter().copied());
        } else {
            status_ids.extend(self.held_prev.keys().copied());
            for ev in &self.gap_events {
                match ev {
                    Ev::SubmitStart {
                        id, ..
                    }
                    | Ev::SubmitDone {
                        id, ..
                    }
                    | Ev::RemoveInvalid {
                        id,
                    }
                    | Ev::StatusObs {
                        id, ..
                    } => {
                        status_ids.insert(*id);
                    }
                    Ev::Committed {
                        ids, ..
                    } => status_ids.extend(ids.iter().copied()),
                    _ => {}
                }
            }
        }
        let status_ids: Vec<[u8; 32]> = status_ids.into_iter().collect();
        let Some(view) = verif_probe::view(&world.mempool, &self.known_ids, &status_ids, &self.addrs)
        else {
            self.view_unavailable += 1;
            return;
        };
        self.on_view(&view, &mirrors, step, trace, viol);
    }

    pub fn at_end(&mut self, world: &World, step: u64, trace: &mut Trace, viol: &mut Violations) {
        // everything is idle now: a view must be available
        let mirrors = world.st.borrow().mirrors.clone();
        let ids = self.known_ids.clone();
        let view = verif_probe::view(&world.mempool, &ids, &ids, &self.addrs)
            .expect("mempool lock is free at the end of the run");
        self.gap_steps += 1;
        self.on_view(&view, &mirrors, step, trace, viol);
        trace.ev(&format!(
            "end held={} removal_cache={} promotions={} demotions={}",
            self.held_prev.len(),
            view.removal_cache.len(),
            self.promotions,
            self.demotions
        ));
    }

    fn on_event(&mut self, ev: &Ev, step: u64, trace: &mut Trace, viol: &mut Violations) {
        match ev {
            Ev::SubmitStart {
                op,
                id,
                acct,
                version,
            } => {
                if self.inflight.values().any(|(i, _, _)| i == id) {
                    if self.dup_race.insert(*id) {
                        self.dup_races += 1;
                    }
                }
                self.inflight.insert(*op, (*id, *acct, *version));
                self.gap_inflight.push((*id, *acct, *version));
                trace.ev(&format!("  start op{op} {} v{version}", short_hex(id)));
            }
            Ev::SubmitDone {
                op,
                id,
                out,
                version,
                ..
            } => {
                self.inflight.remove(op);
                trace.ev(&format!(
                    "  done op{op} {} v{version} -> {}",
                    short_hex(id),
                    out.name()
                ));
                self.count(&format!(
                    "checktx_{}",
                    match out {
                        Out::FailedInsertion(e) => format!("failed-insertion-{e}"),
                        other => other.name(),
                    }
                ));
                if matches!(out, Out::AddedPending | Out::AddedParked) {
                    self.accepted_unseen.insert(*id);
                }
            }
            Ev::Queue {
                op,
                ids,
            } => {
                self.count("builder_queue_calls");
                trace.ev(&format!(
                    "  queue op{op} [{}]",
                    ids.iter().map(|i| short_hex(i)).collect::<Vec<_>>().join(",")
                ));
                // per (account, group): nonces strictly ascending along the queue
                let mut last: BTreeMap<(usize, u8), u32> = BTreeMap::new();
                for id in ids {
                    let Some(meta) = self.txs.get(id) else {
                        viol.push(
                            PROPERTY,
                            "builder-queue-order",
                            "unknown-tx-in-queue",
                            step,
                            format!("builder_queue returned unknown tx {}", short_hex(id)),
                        );
                        continue;
                    };
                    if let Some(prev) = last.get(&(meta.acct, meta.group)) {
                        if *prev >= meta.nonce {
                            let sig = self.sig(Some(meta.acct));
                            viol.push(
                                PROPERTY,
                                "builder-queue-order",
                                sig,
                                step,
                                format!(
                                    "builder_queue places nonce {} of account {} (group {}) after \
                                     nonce {prev} of the same account and group",
                                    meta.nonce, meta.acct, meta.group
                                ),
                            );
                        }
                    }
                    last.insert((meta.acct, meta.group), meta.nonce);
                }
            }
            Ev::RemoveInvalid {
                id,
            } => {
                self.remove_invalid_called.insert(*id);
                self.count("remove_tx_invalid");
                trace.ev(&format!("  remove_tx_invalid {}", short_hex(id)));
            }
            Ev::Committed {
                height,
                version,
                ids,
            } => {
                for id in ids {
                    self.committed.insert(*id, *height);
                }
                self.count("blocks_committed");
                *self.counters.entry("txs_in_blocks".into()).or_default() += ids.len() as u64;
                trace.ev(&format!(
                    "  committed h{height} v{version} [{}]",
                    ids.iter().map(|i| short_hex(i)).collect::<Vec<_>>().join(",")
                ));
            }
            Ev::MaintStart {
                version,
            } => {
                trace.ev(&format!("  maintenance start v{version}"));
            }
            Ev::MaintDone {
                version,
                recost,
                ..
            } => {
                self.count("maintenance_runs");
                trace.ev(&format!("  maintenance done v{version} recost={recost}"));
            }
            Ev::StatusObs {
                id,
                status,
            } => {
                if matches!(status, StatusView::Removed(_)) {
                    self.reported.insert(*id);
                }
                trace.ev(&format!("  status {} {:?}", short_hex(id), status));
            }
            Ev::LenObs(n) => {
                trace.ev(&format!("  len {n}"));
            }
            Ev::PendingNonceObs {
                acct,
                nonce,
            } => {
                trace.ev(&format!("  pending_nonce acct{acct} {nonce:?}"));
            }
        }
    }

    fn on_view(
        &mut self,
        view: &View,
        mirrors: &[Mirror],
        step: u64,
        trace: &mut Trace,
        viol: &mut Violations,
    ) {
        self.views += 1;
        let exact = self.gap_steps <= 1;

        // ---- A. where is every transaction now -------------------------------------------------
        let mut place: BTreeMap<[u8; 32], Place> = BTreeMap::new();
        let mut per_acct_pending: Vec<Vec<&TxView>> = vec![Vec::new(); self.addrs.len()];
        let mut per_acct_parked: Vec<Vec<&TxView>> = vec![Vec::new(); self.addrs.len()];
        let mut total_parked = 0usize;
        for (which, map) in [(Place::Pending, &view.pending), (Place::Parked, &view.parked)] {
            for (addr, txs) in map {
                let acct = self.addr_to_acct.get(addr).copied();
                for tx in txs {
                    if which == Place::Parked {
                        total_parked += 1;
                    }
                    if let Some(a) = acct {
                        if which == Place::Pending {
                            per_acct_pending[a].push(tx);
                        } else {
                            per_acct_parked[a].push(tx);
                        }
                    }
                    if let Some(prev) = place.insert(tx.id, which) {
                        let sig = self.sig_tx(acct, Some(&tx.id));
                        viol.push(
                            PROPERTY,
                            "dup-in-containers",
                            sig,
                            step,
                            format!(
                                "tx {} (account {:?} nonce {}) is held twice: {:?} and {:?}",
                                short_hex(&tx.id),
                                acct,
                                tx.nonce,
                                prev,
                                which
                            ),
                        );
                    }
                }
            }
        }

        // ---- D. what was shown to the mempool since the last view --------------------------------
        // Shows are completed maintenance runs and successful inserts into *pending* (an insert into
        // parked validates nothing against the values it was given except "nonce not too low").
        let mut new_shows: Vec<BTreeSet<u64>> = vec![BTreeSet::new(); self.addrs.len()];
        let mut show_events = 0usize;
        // inserts seen in this gap: (account, version, tx id)
        let mut inserts: Vec<(usize, u64, [u8; 32])> = Vec::new();
        let gap_events = std::mem::take(&mut self.gap_events);
        for ev in &gap_events {
            match ev {
                Ev::MaintDone {
                    version,
                    recost,
                    ..
                } => {
                    if *recost {
                        for t in self.taint_cost.iter_mut() {
                            *t = false;
                        }
                    }
                    show_events += 1;
                    for s in new_shows.iter_mut() {
                        s.insert(*version);
                    }
                    self.last_maint = *version;
                    for t in self.taint_snap.iter_mut() {
                        *t = false;
                    }
                    for t in self.taint_dup.iter_mut() {
                        *t = false;
                    }
                }
                Ev::SubmitDone {
                    id,
                    acct,
                    version,
                    out,
                    ..
                } if matches!(out, Out::AddedPending | Out::AddedParked) => {
                    if *out == Out::AddedPending {
                        show_events += 1;
                        new_shows[*acct].insert(*version);
                    }
                    inserts.push((*acct, *version, *id));
                    self.note_insert(*acct, *version, id, mirrors, trace);
                }
                _ => {}
            }
        }
        for (id, p) in &place {
            if self.held_prev.contains_key(id) {
                continue;
            }
            // newly held: inserted by one of the submit tasks for this id that were in flight
            let Some(meta) = self.txs.get(id) else {
                continue;
            };
            let acct = meta.acct;
            let versions: BTreeSet<u64> = self
                .gap_inflight
                .iter()
                .filter(|(i, _, _)| i == id)
                .map(|(_, _, v)| *v)
                .collect();
            assert!(
                !versions.is_empty(),
                "harness: tx {} newly held but no submit task was in flight",
                short_hex(id)
            );
            for v in &versions {
                if !inserts.contains(&(acct, *v, *id)) {
                    self.note_insert(acct, *v, id, mirrors, trace);
                }
            }
            if *p == Place::Pending {
                new_shows[acct].extend(versions);
            }
        }
        if !exact && show_events > 1 {
            self.ambiguous_gaps += 1;
        }
        for a in 0..self.addrs.len() {
            if new_shows[a].is_empty() {
                continue;
            }
            self.max_shown[a] = self.max_shown[a].max(*new_shows[a].iter().max().unwrap());
            self.shown[a] = std::mem::take(&mut new_shows[a]);
        }

        // ---- B. structural consistency -----------------------------------------------------------
        for (id, p) in &place {
            if !view.contained.contains(id) {
                let sig = self.sig_id(id);
                viol.push(
                    PROPERTY,
                    "container-not-tracked",
                    sig,
                    step,
                    format!(
                        "tx {} sits in {:?} but the mempool does not track it as contained (its \
                         status is reported as if it were not in the mempool)",
                        short_hex(id),
                        p
                    ),
                );
            }
            let in_cache = view.removal_cache.get(id);
            let in_results = view.exec_results.get(id);
            if in_cache.is_some() || in_results.is_some() {
                let sig = self.sig_id(id);
                viol.push(
                    PROPERTY,
                    "held-and-reported-removed",
                    sig,
                    step,
                    format!(
                        "tx {} is held in {:?} and at the same time reported as removed \
                         (removal cache: {:?}, execution result height: {:?})",
                        short_hex(id),
                        p,
                        in_cache,
                        in_results
                    ),
                );
            }
        }
        for id in &view.contained {
            if !place.contains_key(id) {
                let sig = self.sig_id(id);
                viol.push(
                    PROPERTY,
                    "tracked-not-held",
                    sig,
                    step,
                    format!(
                        "tx {} is tracked as contained (status says parked) but is in neither \
                         container",
                        short_hex(id)
                    ),
                );
            }
        }
        if view.len_reported != place.len() {
            let sig = self.sig(None);
            viol.push(
                PROPERTY,
                "len-mismatch",
                sig,
                step,
                format!(
                    "len() = {} but pending + parked hold {} transactions",
                    view.len_reported,
                    place.len()
                ),
            );
        }
        if total_parked > view.parked_max_total {
            let sig = self.sig(None);
            viol.push(
                PROPERTY,
                "parked-total-limit",
                sig,
                step,
                format!(
                    "{} parked transactions, configured limit {}",
                    total_parked, view.parked_max_total
                ),
            );
        }
        for (a, parked) in per_acct_parked.iter().enumerate() {
            if parked.len() > verif_probe::PARKED_PER_ACCOUNT_LIMIT {
                let sig = self.sig(Some(a));
                viol.push(
                    PROPERTY,
                    "parked-account-limit",
                    sig,
                    step,
                    format!(
                        "account {a} has {} parked transactions, limit {}",
                        parked.len(),
                        verif_probe::PARKED_PER_ACCOUNT_LIMIT
                    ),
                );
            }
        }
        for (id, status) in &view.status {
            let expect_removed = view.removal_cache.contains_key(id) || view.exec_results.contains_key(id);
            let ok = match (place.get(id), status) {
                (Some(Place::Pending), StatusView::Pending) => true,
                (Some(Place::Parked), StatusView::Parked) => true,
                (None, StatusView::Removed(_)) => expect_removed,
                (None, StatusView::Unknown) => !expect_removed,
                _ => false,
            };
            if !ok {
                let sig = self.sig_id(id);
                viol.push(
                    PROPERTY,
                    "status-mismatch",
                    sig,
                    step,
                    format!(
                        "transaction_status({}) = {:?} but the tx is in {:?} (removal cache: {:?}, \
                         execution results: {:?})",
                        short_hex(id),
                        status,
                        place.get(id),
                        view.removal_cache.get(id),
                        view.exec_results.get(id)
                    ),
                );
            }
        }

        // ---- C. nothing is silently lost ---------------------------------------------------------
        let must_account: BTreeSet<[u8; 32]> = self
            .held_prev
            .keys()
            .copied()
            .chain(self.accepted_unseen.iter().copied())
            .collect();
        for id in &must_account {
            if place.contains_key(id) {
                continue;
            }
            let reported = view.removal_cache.contains_key(id)
                || view.exec_results.contains_key(id)
                || self.reported.contains(id);
            if !reported {
                let sig = self.sig_id(id);
                let meta = self.txs.get(id);
                viol.push(
                    PROPERTY,
                    "silently-lost",
                    sig,
                    step,
                    format!(
                        "tx {} (account {:?} nonce {:?}) was accepted ({}), is now in neither \
                         container, and is not reported as removed anywhere",
                        short_hex(id),
                        meta.map(|m| m.acct),
                        meta.map(|m| m.nonce),
                        match self.held_prev.get(id) {
                            Some(p) => format!("last seen {p:?}"),
                            None => "check_tx reported it added".to_string(),
                        }
                    ),
                );
            }
        }

        // ---- E. per-account invariants under the last-shown state ---------------------------------
        for a in 0..self.addrs.len() {
            if per_acct_pending[a].is_empty() && per_acct_parked[a].is_empty() {
                continue;
            }
            let mut first_err: Option<(&'static str, String)> = None;
            let mut ok = false;
            // try the newest candidate first
            for v in self.shown[a].iter().rev() {
                match self.check_account(
                    a,
                    &mirrors[*v as usize],
                    &per_acct_pending[a],
                    &per_acct_parked[a],
                    view.pending_nonce.get(&self.addrs[a]).copied().flatten(),
                ) {
                    Ok(()) => {
                        ok = true;
                        break;
                    }
                    Err(e) => {
                        if first_err.is_none() {
                            first_err = Some(e);
                        }
                    }
                }
            }
            if !ok {
                let (oracle, msg) = first_err.expect("at least one candidate");
                let sig = self.sig(Some(a));
                viol.push(
                    PROPERTY,
                    oracle,
                    sig,
                    step,
                    format!("{msg} (candidate shown versions: {:?})", self.shown[a]),
                );
            }
        }

        // ---- F. reasons of newly reported removals ----------------------------------------------
        for (id, reason) in &view.removal_cache {
            if self.removal_seen.get(id) == Some(reason) {
                continue;
            }
            self.removal_seen.insert(*id, reason.clone());
            self.count(&format!("removed_{}", reason.name()));
            let Some(meta) = self.txs.get(id) else {
                continue;
            };
            let problem: Option<String> = match reason {
                ReasonView::IncludedInBlock(h) => match self.committed.get(id) {
                    Some(ch) if ch == h => None,
                    other => Some(format!(
                        "reported as included in block {h} but the harness committed it in {other:?}"
                    )),
                },
                ReasonView::FailedExecution => {
                    if self.remove_invalid_called.contains(id) {
                        None
                    } else {
                        Some("reported as failed execution but remove_tx_invalid was never called \
                              for it"
                            .to_string())
                    }
                }
                ReasonView::Expired => match self.first_seen.get(id) {
                    Some(t) => {
                        let age = tokio::time::Instant::now().saturating_duration_since(*t);
                        if age.as_millis() as u64 > verif_probe::TTL_MS {
                            None
                        } else {
                            Some(format!(
                                "reported as expired after {} ms (TTL {} ms)",
                                age.as_millis(),
                                verif_probe::TTL_MS
                            ))
                        }
                    }
                    None => None,
                },
                ReasonView::NonceStale => {
                    let latest = mirrors.last().unwrap();
                    if meta.nonce < latest.nonces[meta.acct] {
                        None
                    } else {
                        Some(format!(
                            "reported as stale nonce {} but the account nonce is {}",
                            meta.nonce, latest.nonces[meta.acct]
                        ))
                    }
                }
                ReasonView::LowerNonceInvalidated | ReasonView::InternalError => None,
            };
            if let Some(problem) = problem {
                let sig = self.sig(Some(meta.acct));
                viol.push(
                    PROPERTY,
                    "removal-reason",
                    sig,
                    step,
                    format!("tx {}: {problem}", short_hex(id)),
                );
            }
        }

        // ---- G. promotions / demotions -------------------------------------------------------------
        for (id, p) in &place {
            match (self.held_prev.get(id), p) {
                (Some(Place::Parked), Place::Pending) => {
                    self.promotions += 1;
                    trace.abs(&format!("promote a{:?}", self.acct_of(id)));
                }
                (Some(Place::Pending), Place::Parked) => {
                    self.demotions += 1;
                    trace.abs(&format!("demote a{:?}", self.acct_of(id)));
                }
                _ => {}
            }
        }

        // ---- H. abstract state -----------------------------------------------------------------------
        let abs = (0..self.addrs.len())
            .map(|a| format!("{}:{}", per_acct_pending[a].len(), per_acct_parked[a].len()))
            .collect::<Vec<_>>()
            .join(" ");
        if abs != self.last_abs {
            trace.abs(&abs);
            self.last_abs = abs;
        }
        let detail = (0..self.addrs.len())
            .map(|a| {
                format!(
                    "a{a}{:?}/{:?}",
                    per_acct_pending[a].iter().map(|t| t.nonce).collect::<Vec<_>>(),
                    per_acct_parked[a].iter().map(|t| t.nonce).collect::<Vec<_>>()
                )
            })
            .collect::<Vec<_>>()
            .join(" ");
        if detail != self.last_detail {
            trace.ev(&format!("  view {detail} removed={}", view.removal_cache.len()));
            self.last_detail = detail;
        }

        // ---- I. roll over ---------------------------------------------------------------------------
        for txs in view.pending.values().chain(view.parked.values()) {
            for tx in txs {
                self.first_seen.insert(tx.id, tx.first_seen);
            }
        }
        self.held_prev = place;
        self.accepted_unseen.clear();
        self.reported.clear();
        self.gap_steps = 0;
        self.gap_inflight = self.inflight.values().copied().collect();
    }

    /// Bookkeeping of the check_tx races (they only decide the *signature* of a violation).
    fn note_insert(
        &mut self,
        acct: usize,
        version: u64,
        id: &[u8; 32],
        mirrors: &[Mirror],
        trace: &mut Trace,
    ) {
        if version != self.last_maint && Self::differs(mirrors, acct, version, self.last_maint) {
            if !self.taint_snap[acct] {
                trace.ev(&format!(
                    "  race: insert for acct{acct} used state v{version}, mempool maintained \
                     against v{}",
                    self.last_maint
                ));
            }
            self.taint_snap[acct] = true;
            self.snap_races += 1;
            let (x, y) = (&mirrors[version as usize], &mirrors[self.last_maint as usize]);
            if x.fee_transfer != y.fee_transfer || x.fee_seq != y.fee_seq {
                self.taint_cost[acct] = true;
            }
        }
        if self.dup_race.contains(id) {
            self.taint_dup[acct] = true;
        }
    }

    /// The per-account sentences of C13 against one candidate "last shown" state.
    fn check_account(
        &self,
        a: usize,
        shown: &Mirror,
        pending: &[&TxView],
        parked: &[&TxView],
        pending_nonce_api: Option<u32>,
    ) -> Result<(), (&'static str, String)> {
        let shown_nonce = shown.nonces[a];
        // no already-used nonce remains (pending or parked)
        for tx in pending.iter().chain(parked.iter()) {
            if tx.nonce < shown_nonce {
                return Err((
                    "stale-nonce-remains",
                    format!(
                        "account {a}: tx {} with nonce {} is still held although the account \
                         nonce shown to the mempool (state v{}) is {shown_nonce}",
                        short_hex(&tx.id),
                        tx.nonce,
                        shown.version
                    ),
                ));
            }
        }
        if pending.is_empty() {
            if pending_nonce_api.is_some() {
                return Err((
                    "pending-nonce-api",
                    format!(
                        "account {a}: pending_nonce() = {pending_nonce_api:?} but no transaction \
                         is pending"
                    ),
                ));
            }
            return Ok(());
        }
        // consecutive from the shown nonce
        for (k, tx) in pending.iter().enumerate() {
            let want = shown_nonce as u64 + k as u64;
            if u64::from(tx.nonce) != want {
                return Err((
                    "pending-not-consecutive-from-shown-nonce",
                    format!(
                        "account {a}: pending nonces {:?} are not consecutive from the nonce \
                         {shown_nonce} shown to the mempool (state v{})",
                        pending.iter().map(|t| t.nonce).collect::<Vec<_>>(),
                        shown.version
                    ),
                ));
            }
        }
        let want_api = shown_nonce.saturating_add(pending.len() as u32);
        if pending_nonce_api != Some(want_api) {
            return Err((
                "pending-nonce-api",
                format!(
                    "account {a}: pending_nonce() = {pending_nonce_api:?}, expected \
                     Some({want_api}) (shown nonce {shown_nonce} + {} pending)",
                    pending.len()
                ),
            ));
        }
        // jointly affordable from the shown balances, with the harness's own cost model under the
        // fee schedule of the same state
        let mut remaining = shown.balances[a].clone();
        for tx in pending {
            let Some(meta) = self.txs.get(&tx.id) else {
                continue;
            };
            let Some(cost) = shown.cost(&meta.body) else {
                continue;
            };
            for (asset, amount) in cost {
                if amount == 0 {
                    continue;
                }
                let have = remaining.get(&asset).copied().unwrap_or(0);
                if have < amount {
                    return Err((
                        "pending-unaffordable",
                        format!(
                            "account {a}: pending transactions (nonces {:?}) are not jointly \
                             affordable from the balances shown to the mempool (state v{}): at \
                             nonce {} asset {} needs {amount} but only {have} remain of {:?}",
                            pending.iter().map(|t| t.nonce).collect::<Vec<_>>(),
                            shown.version,
                            tx.nonce,
                            short_hex(&asset),
                            shown.balances[a].get(&asset)
                        ),
                    ));
                }
                remaining.insert(asset, have - amount);
            }
        }
        Ok(())
    }
}
