//! The simulator: builds the real executor on harness-owned channels, feeds it through simulated
//! readers, kills / restarts / shuts it down, and evaluates the end-of-run checks.

use std::{
    cell::RefCell,
    collections::HashMap,
    future::Future,
    pin::Pin,
    sync::{
        atomic::{
            AtomicU64,
            Ordering,
        },
        Arc,
        Mutex,
    },
    task::{
        Context,
        Poll,
    },
    time::Duration,
};

use astria_core::{
    crypto::SigningKey,
    generated::astria::execution::v2::execution_service_server::ExecutionServiceServer,
    protocol::test_utils::ConfigureSequencerBlock,
    sequencerblock::v1::block::{
        self,
        FilteredSequencerBlock,
    },
};
use astria_eyre::eyre::{
    self,
    bail,
    WrapErr as _,
};
use futures::{
    future::{
        BoxFuture,
        Fuse,
        FusedFuture as _,
    },
    FutureExt as _,
};
use sequencer_client::tendermint::block::Height as SequencerHeight;
use tokio::{
    select,
    sync::mpsc,
    task::JoinHandle,
};
use tokio_util::{
    sync::CancellationToken,
    task::JoinMap,
};
use tonic::codegen::Service as _;

use super::{
    super::{
        client::verif_transport::{
            self,
            InProcess,
        },
        create_block_channels,
        Builder,
        Channels,
        Initialized,
        ReaderKind,
    },
    common::{
        Outcome,
        Stats,
        Trace,
        Violations,
    },
    fake::{
        self,
        FakeRollup,
        Shared,
        World,
    },
    Cfg,
    Op,
    Scenario,
};
use crate::{
    block_cache::BlockCache,
    celestia::ReconstructedBlock,
    config::CommitLevel,
    metrics::Metrics,
    state::{
        State,
        StateReceiver,
    },
};

// ---------------------------------------------------------------------------------------------
// the simulated sequencer chain: real `SequencerBlock`s, memoised per (salt, height)
// ---------------------------------------------------------------------------------------------

#[derive(Clone)]
struct ChainBlock {
    soft: FilteredSequencerBlock,
    firm: ReconstructedBlock,
}

thread_local! {
    static CHAIN: RefCell<HashMap<(u64, u64), ChainBlock>> = RefCell::new(HashMap::new());
}

fn chain_block(salt: u64, height: u64) -> ChainBlock {
    CHAIN.with(|c| {
        let mut c = c.borrow_mut();
        if c.len() > 4000 {
            c.clear();
        }
        c.entry((salt, height))
            .or_insert_with(|| build_chain_block(salt, height))
            .clone()
    })
}

fn build_chain_block(salt: u64, height: u64) -> ChainBlock {
    let me = super::rollup_id();
    let other = astria_core::primitive::v1::RollupId::new([0x77; 32]);
    let mut sequence_data = Vec::new();
    let n_mine = (height.wrapping_mul(7).wrapping_add(salt)) % 4;
    for i in 0..n_mine {
        sequence_data.push((me, format!("tx-{salt}-{height}-{i}").into_bytes()));
    }
    if height % 3 == 0 {
        sequence_data.push((other, format!("other-{height}").into_bytes()));
    }
    let block = ConfigureSequencerBlock {
        block_hash: Some(block::Hash::new(fake::seq_hash_bytes(salt, height))),
        chain_id: Some(super::SEQUENCER_CHAIN_ID.to_string()),
        height: u32::try_from(height).expect("simulated heights fit u32"),
        signing_key: Some(SigningKey::from([0x42; 32])),
        sequence_data,
        unix_timestamp: (1_700_000_000 + height as i64, 0).into(),
        ..ConfigureSequencerBlock::default()
    }
    .make();
    let soft = block.to_filtered_block([me]);
    let (meta, rollup_datas) = block.split_for_celestia();
    let transactions = rollup_datas
        .into_iter()
        .find(|d| d.rollup_id() == me)
        .map(|d| d.into_unchecked().transactions)
        .unwrap_or_default();
    let extended_commit_info = meta.extended_commit_info().cloned();
    let unchecked = meta.into_unchecked();
    let firm = ReconstructedBlock {
        celestia_height: 0,
        block_hash: unchecked.block_hash,
        header: unchecked.header,
        transactions,
        extended_commit_info,
    };
    ChainBlock {
        soft,
        firm,
    }
}

fn metrics() -> &'static Metrics {
    thread_local! {
        static M: &'static Metrics = {
            let m: Metrics = <Metrics as telemetry::Metrics>::noop_metrics(&()).expect("noop metrics");
            Box::leak(Box::new(m))
        };
    }
    M.with(|m| *m)
}

fn commit_level(mode: u8) -> CommitLevel {
    match mode {
        fake::MODE_SOFT_ONLY => CommitLevel::SoftOnly,
        fake::MODE_FIRM_ONLY => CommitLevel::FirmOnly,
        _ => CommitLevel::SoftAndFirm,
    }
}

fn conductor_config(cfg: &Cfg) -> crate::Config {
    crate::Config {
        celestia_block_time_ms: 12_000,
        celestia_node_http_url: "http://celestia.sim:26658".into(),
        no_celestia_auth: true,
        celestia_bearer_token: String::new(),
        sequencer_grpc_url: "http://sequencer.sim:8080".into(),
        sequencer_cometbft_url: "http://sequencer.sim:26657".into(),
        sequencer_block_time_ms: 2_000,
        sequencer_requests_per_second: 500,
        execution_rpc_url: super::EXECUTION_URI.into(),
        log: "off".into(),
        execution_commit_level: commit_level(cfg.mode),
        force_stdout: false,
        no_otel: true,
        no_metrics: true,
        metrics_http_listener_addr: String::new(),
    }
}

// ---------------------------------------------------------------------------------------------
// simulated readers
// ---------------------------------------------------------------------------------------------

fn resolve(base: u64, h: i32) -> Option<u64> {
    let height = i128::from(base) + i128::from(h);
    (height >= 1 && height < i128::from(u32::MAX)).then_some(height as u64)
}

fn firm_block(w: &Shared, salt: u64, height: u64, direct: bool) -> ReconstructedBlock {
    let mut b = chain_block(salt, height).firm;
    let mut w = w.lock().unwrap();
    // Celestia heights grow with sequencer heights (two sequencer blocks per Celestia block)
    b.celestia_height = w.cfg.celestia_base + height / 2;
    w.note_delivery(true, height, direct);
    b
}

fn soft_block(w: &Shared, salt: u64, height: u64, direct: bool) -> FilteredSequencerBlock {
    let b = chain_block(salt, height).soft;
    w.lock().unwrap().note_delivery(false, height, direct);
    b
}

async fn until_cancelled(cancel: &CancellationToken) -> eyre::Result<()> {
    cancel.cancelled().await;
    Ok(())
}

/// "Direct" firm reader: hands over exactly what the op list says, in that order, waiting for
/// channel capacity like the real reader's `enqueued_block` does.
async fn direct_firm_reader(
    world: Shared,
    mut input: mpsc::UnboundedReceiver<i32>,
    tx: mpsc::Sender<Box<ReconstructedBlock>>,
    cancel: CancellationToken,
) -> eyre::Result<()> {
    let (salt, base) = {
        let w = world.lock().unwrap();
        (w.cfg.salt, w.base_firm.expect("session exists before readers start"))
    };
    loop {
        select! {
            biased;
            () = cancel.cancelled() => return Ok(()),
            item = input.recv() => {
                let Some(h) = item else { return until_cancelled(&cancel).await; };
                let Some(height) = resolve(base, h) else { continue; };
                let block = firm_block(&world, salt, height, true);
                world.lock().unwrap().note_firm_sent(height, block.block_hash.to_string());
                select! {
                    biased;
                    () = cancel.cancelled() => return Ok(()),
                    res = tx.send(Box::new(block)) => {
                        if res.is_err() {
                            bail!("could not send block to executor because its channel was closed");
                        }
                    }
                }
            }
        }
    }
}

async fn direct_soft_reader(
    world: Shared,
    mut input: mpsc::UnboundedReceiver<i32>,
    tx: mpsc::Sender<FilteredSequencerBlock>,
    cancel: CancellationToken,
) -> eyre::Result<()> {
    let (salt, base) = {
        let w = world.lock().unwrap();
        (w.cfg.salt, w.base_soft.expect("session exists before readers start"))
    };
    loop {
        select! {
            biased;
            () = cancel.cancelled() => return Ok(()),
            item = input.recv() => {
                let Some(h) = item else { return until_cancelled(&cancel).await; };
                let Some(height) = resolve(base, h) else { continue; };
                let block = soft_block(&world, salt, height, true);
                world.lock().unwrap().note_soft_sent(height);
                select! {
                    biased;
                    () = cancel.cancelled() => return Ok(()),
                    res = tx.send(block) => {
                        if res.is_err() {
                            bail!("could not send block to executor because its channel was closed");
                        }
                    }
                }
            }
        }
    }
}

/// "Through the cache" firm reader: the arms of `celestia::RunningReader::run_until_stopped` that
/// touch the `BlockCache` and the executor channel, with reconstruction replaced by the op list.
async fn cached_firm_reader(
    world: Shared,
    mut input: mpsc::UnboundedReceiver<i32>,
    tx: mpsc::Sender<Box<ReconstructedBlock>>,
    rollup_state: StateReceiver,
    cancel: CancellationToken,
) -> eyre::Result<()> {
    let (salt, base) = {
        let w = world.lock().unwrap();
        (w.cfg.salt, w.base_firm.expect("session exists before readers start"))
    };
    let mut cache =
        BlockCache::<ReconstructedBlock>::with_next_height(rollup_state.next_expected_firm_sequencer_height())
            .wrap_err("failed constructing sequential block cache")?;
    let mut enqueued: Fuse<BoxFuture<'static, Result<(), mpsc::error::SendError<Box<ReconstructedBlock>>>>> =
        Fuse::terminated();
    let mut input_open = true;
    loop {
        select! {
            biased;
            () = cancel.cancelled() => return Ok(()),

            res = &mut enqueued, if !enqueued.is_terminated() => {
                res.wrap_err("failed sending enqueued block to executor")?;
            }

            Some(block) = cache.next_block(), if enqueued.is_terminated() => {
                let height = block.sequencer_height().value();
                world.lock().unwrap().note_firm_sent(height, block.block_hash.to_string());
                match tx.try_send(Box::new(block)) {
                    Ok(()) => {}
                    Err(mpsc::error::TrySendError::Full(block)) => {
                        world.lock().unwrap().stats.probe("firm_channel_full_backpressure");
                        let chan = tx.clone();
                        enqueued = async move { chan.send(block).await }.boxed().fuse();
                    }
                    Err(mpsc::error::TrySendError::Closed(_)) => {
                        bail!("exiting because executor channel is closed");
                    }
                }
            }

            item = input.recv(), if input_open => {
                let Some(h) = item else { input_open = false; continue; };
                let Some(height) = resolve(base, h) else { continue; };
                let block = firm_block(&world, salt, height, false);
                if let Err(error) = cache.insert(block) {
                    let mut w = world.lock().unwrap();
                    w.stats.fault(match error {
                        crate::block_cache::Error::Occupied { .. } => "firm_cache_rejected_duplicate",
                        _ => "firm_cache_rejected_old",
                    });
                    w.ev(format!("firm cache rejected h={height}: {error}"));
                }
            }

            else => return until_cancelled(&cancel).await,
        }
    }
}

/// "Through the cache" soft reader: the arms of `sequencer::RunningReader::run_loop` that touch the
/// `BlockCache`, the rollup state watch and the executor channel.
async fn cached_soft_reader(
    world: Shared,
    mut input: mpsc::UnboundedReceiver<i32>,
    tx: mpsc::Sender<FilteredSequencerBlock>,
    mut rollup_state: StateReceiver,
    cancel: CancellationToken,
) -> eyre::Result<()> {
    let (salt, base) = {
        let w = world.lock().unwrap();
        (w.cfg.salt, w.base_soft.expect("session exists before readers start"))
    };
    let mut cache =
        BlockCache::<FilteredSequencerBlock>::with_next_height(rollup_state.next_expected_soft_sequencer_height())
            .wrap_err("failed constructing sequential block cache")?;
    let mut enqueued: Fuse<BoxFuture<'static, Result<(), mpsc::error::SendError<FilteredSequencerBlock>>>> =
        Fuse::terminated();
    let mut input_open = true;
    let mut state_open = true;
    loop {
        select! {
            biased;
            () = cancel.cancelled() => return Ok(()),

            res = &mut enqueued, if !enqueued.is_terminated() => {
                res.wrap_err("failed sending enqueued block to executor")?;
            }

            res = rollup_state.next_expected_soft_height_if_changed(), if state_open => {
                match res {
                    Ok(next_height) => cache.drop_obsolete(next_height),
                    Err(_) => state_open = false,
                }
            }

            Some(block) = cache.next_block(), if enqueued.is_terminated() => {
                world.lock().unwrap().note_soft_sent(block.height().value());
                if let Err(err) = tx.try_send(block) {
                    match err {
                        mpsc::error::TrySendError::Full(block) => {
                            world.lock().unwrap().stats.probe("soft_channel_full_backpressure");
                            let chan = tx.clone();
                            enqueued = async move { chan.send(block).await }.boxed().fuse();
                        }
                        mpsc::error::TrySendError::Closed(_) => {
                            bail!("could not send block to executor because its channel was closed")
                        }
                    }
                }
            }

            item = input.recv(), if input_open => {
                let Some(h) = item else { input_open = false; continue; };
                let Some(height) = resolve(base, h) else { continue; };
                let block = soft_block(&world, salt, height, false);
                if let Err(error) = cache.insert(block) {
                    let mut w = world.lock().unwrap();
                    w.stats.fault(match error {
                        crate::block_cache::Error::Occupied { .. } => "soft_cache_rejected_duplicate",
                        _ => "soft_cache_rejected_old",
                    });
                    w.ev(format!("soft cache rejected h={height}: {error}"));
                }
            }

            else => return until_cancelled(&cancel).await,
        }
    }
}

// ---------------------------------------------------------------------------------------------
// one executor incarnation
// ---------------------------------------------------------------------------------------------

struct KillCtl {
    suspensions: AtomicU64,
    kill_at: AtomicU64,
}

/// Counts the suspensions of the wrapped future and drops it at the chosen one.
struct KillAt<F> {
    fut: Option<Pin<Box<F>>>,
    ctl: Arc<KillCtl>,
}

impl<F: Future> Future for KillAt<F> {
    type Output = Option<F::Output>;

    fn poll(mut self: Pin<&mut Self>, cx: &mut Context<'_>) -> Poll<Self::Output> {
        let this = &mut *self;
        let Some(fut) = this.fut.as_mut() else {
            return Poll::Ready(None);
        };
        match fut.as_mut().poll(cx) {
            Poll::Ready(v) => {
                this.fut = None;
                Poll::Ready(Some(v))
            }
            Poll::Pending => {
                let n = this.ctl.suspensions.fetch_add(1, Ordering::Relaxed) + 1;
                if n >= this.ctl.kill_at.load(Ordering::Relaxed) {
                    // the crash: everything the executor owned is dropped right here
                    this.fut = None;
                    Poll::Ready(None)
                } else {
                    Poll::Pending
                }
            }
        }
    }
}

type ExecutorResult = eyre::Result<Option<State>>;

struct Incarnation {
    handle: JoinHandle<Option<ExecutorResult>>,
    ctl: Arc<KillCtl>,
    shutdown: CancellationToken,
    shutdown_requested: bool,
    soft_in: mpsc::UnboundedSender<i32>,
    firm_in: mpsc::UnboundedSender<i32>,
}

/// `Executor::run_until_stopped_or_stop_height_reached` with the network readers of
/// `Executor::init` replaced by the simulated ones; everything else is the real code.
async fn executor_main(
    cfg: Cfg,
    world: Shared,
    shutdown: CancellationToken,
    soft_in: mpsc::UnboundedReceiver<i32>,
    firm_in: mpsc::UnboundedReceiver<i32>,
) -> ExecutorResult {
    let executor = Builder {
        config: conductor_config(&cfg),
        shutdown: shutdown.clone(),
        metrics: metrics(),
    }
    .build()
    .wrap_err("failed constructing executor")?;

    let init = async {
        let state = executor
            .create_initial_node_state()
            .await
            .wrap_err("failed setting initial rollup node state")?;
        let reader_cancellation_token = executor.shutdown.child_token();
        let Channels {
            firm_sender,
            firm_receiver,
            soft_sender,
            soft_receiver,
        } = create_block_channels(executor.config.execution_commit_level, &state)
            .wrap_err("failed to create channels")?;
        let mut reader_tasks = JoinMap::new();
        if executor.config.is_with_firm() {
            let cancel = reader_cancellation_token.child_token();
            if cfg.via_cache {
                reader_tasks.spawn(
                    ReaderKind::Firm,
                    cached_firm_reader(world.clone(), firm_in, firm_sender, state.subscribe(), cancel),
                );
            } else {
                reader_tasks.spawn(
                    ReaderKind::Firm,
                    direct_firm_reader(world.clone(), firm_in, firm_sender, cancel),
                );
            }
        }
        if executor.config.is_with_soft() {
            let cancel = reader_cancellation_token.child_token();
            if cfg.via_cache {
                reader_tasks.spawn(
                    ReaderKind::Soft,
                    cached_soft_reader(world.clone(), soft_in, soft_sender, state.subscribe(), cancel),
                );
            } else {
                reader_tasks.spawn(
                    ReaderKind::Soft,
                    direct_soft_reader(world.clone(), soft_in, soft_sender, cancel),
                );
            }
        }
        eyre::Ok((state, firm_receiver, soft_receiver, reader_tasks, reader_cancellation_token))
    };

    let (state, firm_blocks, soft_blocks, reader_tasks, reader_cancellation_token) = select!(
        biased;
        () = shutdown.clone().cancelled_owned() => return Ok(None),
        res = init => res.wrap_err("initialization failed")?,
    );

    let initialized = Initialized {
        config: executor.config,
        client: executor.client,
        firm_blocks,
        soft_blocks,
        shutdown: executor.shutdown,
        state,
        blocks_pending_finalization: HashMap::new(),
        metrics: executor.metrics,
        reader_tasks,
        reader_cancellation_token,
    };
    initialized.run().await
}

fn start_incarnation(cfg: &Cfg, world: &Shared) -> Incarnation {
    world.lock().unwrap().begin_incarnation();
    let (soft_tx, soft_rx) = mpsc::unbounded_channel();
    let (firm_tx, firm_rx) = mpsc::unbounded_channel();
    let shutdown = CancellationToken::new();
    let ctl = Arc::new(KillCtl {
        suspensions: AtomicU64::new(0),
        kill_at: AtomicU64::new(u64::MAX),
    });
    let fut = executor_main(cfg.clone(), world.clone(), shutdown.clone(), soft_rx, firm_rx);
    let handle = tokio::spawn(KillAt {
        fut: Some(Box::pin(fut)),
        ctl: ctl.clone(),
    });
    Incarnation {
        handle,
        ctl,
        shutdown,
        shutdown_requested: false,
        soft_in: soft_tx,
        firm_in: firm_tx,
    }
}

fn classify_error(msg: &str) -> &'static str {
    if msg.contains("out-of-order") {
        "soft-block-out-of-order"
    } else if msg.contains("expected block at sequencer height") {
        "firm-block-unexpected-height"
    } else if msg.contains("contract violated") {
        "rollup-response-contract"
    } else if msg.contains("failed constructing commitment state") {
        "commitment-state-builder"
    } else if msg.contains("exited unexpectedly") {
        "reader-task-exited"
    } else if msg.contains("status:") || msg.contains("gRPC status") {
        "rollup-status"
    } else {
        "other"
    }
}

/// Consumes the result of an executor task that has ended.
fn settle_exit(
    world: &Shared,
    res: Result<Option<ExecutorResult>, tokio::task::JoinError>,
    shutdown_requested: bool,
) {
    let mut w = world.lock().unwrap();
    match res {
        Ok(None) => {
            w.stats.fault("executor_killed");
            w.nontrivial = true;
            w.trace.abs("K");
            w.ev("executor dropped at the chosen suspension".into());
        }
        Err(e) if e.is_cancelled() => {
            w.stats.fault("executor_killed");
            w.nontrivial = true;
            w.trace.abs("K");
            w.ev("executor aborted".into());
        }
        Err(e) => {
            let msg = super::common::take_last_panic().unwrap_or_else(|| e.to_string());
            w.violate("executor-panicked", "panic", format!("the executor task panicked: {msg}"));
        }
        Ok(Some(Ok(state))) => {
            w.trace.abs("Q");
            if shutdown_requested {
                w.stats.probe("graceful_exits");
                w.ev(format!("executor exited gracefully (state present: {})", state.is_some()));
            } else {
                w.violate_aux(
                    "executor-stopped-without-cause",
                    "ok-exit",
                    "the executor returned Ok although neither shutdown nor a stop height was requested".into(),
                );
            }
        }
        Ok(Some(Err(report))) => {
            let msg = format!("{report:#}");
            w.trace.abs("E");
            if w.terminal_allowed {
                w.stats.probe("executor_stopped_with_expected_error");
                let why = w.terminal_reason;
                w.ev(format!("executor stopped with an error (allowed: {why}): {msg}"));
            } else {
                let sig = classify_error(&msg);
                w.violate(
                    "executor-stopped-on-legal-input",
                    sig,
                    format!(
                        "the executor stopped with an error although every delivery was one a reader may \
                         legally make and no non-retryable status was injected: {msg}"
                    ),
                );
            }
        }
    }
}

async fn reap_if_finished(world: &Shared, inc: &mut Option<Incarnation>) {
    if inc.as_ref().is_some_and(|i| i.handle.is_finished()) {
        let i = inc.take().expect("checked");
        let res = i.handle.await;
        settle_exit(world, res, i.shutdown_requested);
    }
}

/// Delivery ops address "the reader of the current incarnation"; it exists once the executor has
/// its execution session. Wait (virtual time only) until then, or until the executor is gone.
async fn wait_for_readers(world: &Shared, inc: &Option<Incarnation>) {
    let Some(i) = inc else { return };
    let mut waited = 0u64;
    while world.lock().unwrap().base_soft.is_none() && !i.handle.is_finished() && waited < 600_000 {
        let step = if waited < 50 { 1 } else { 25 };
        tokio::time::sleep(Duration::from_millis(step)).await;
        waited += step;
    }
}

async fn kill(world: &Shared, mut inc: Incarnation, k: u32) {
    if k == 0 {
        inc.handle.abort();
    } else {
        let now = inc.ctl.suspensions.load(Ordering::Relaxed);
        inc.ctl.kill_at.store(now + u64::from(k), Ordering::Relaxed);
    }
    let res = match tokio::time::timeout(Duration::from_secs(20), &mut inc.handle).await {
        Ok(res) => res,
        Err(_) => {
            // the executor went idle before its k-th suspension: crash it where it stands
            inc.handle.abort();
            (&mut inc.handle).await
        }
    };
    settle_exit(world, res, inc.shutdown_requested);
    // let the aborted reader tasks be dropped before anything else happens
    tokio::task::yield_now().await;
    tokio::task::yield_now().await;
}

async fn shut_down(world: &Shared, mut inc: Incarnation) {
    inc.shutdown.cancel();
    inc.shutdown_requested = true;
    match tokio::time::timeout(Duration::from_secs(120), &mut inc.handle).await {
        Ok(res) => settle_exit(world, res, true),
        Err(_) => {
            world.lock().unwrap().violate_aux(
                "shutdown-hangs",
                "no-exit-after-cancel",
                "the executor did not return within 120 virtual seconds of the shutdown signal".into(),
            );
            inc.handle.abort();
            let _ = (&mut inc.handle).await;
        }
    }
    tokio::task::yield_now().await;
}

// ---------------------------------------------------------------------------------------------
// the run
// ---------------------------------------------------------------------------------------------

async fn drive(sc: &Scenario, world: Shared) {
    let server = ExecutionServiceServer::new(FakeRollup {
        world: world.clone(),
    });
    verif_transport::register(
        super::EXECUTION_URI,
        InProcess::new(move |request| {
            let mut server = server.clone();
            Box::pin(async move { server.call(request).await })
        }),
    );

    let cfg = &sc.cfg;
    let with_soft = cfg.mode != fake::MODE_FIRM_ONLY;
    let with_firm = cfg.mode != fake::MODE_SOFT_ONLY;
    let mut inc = Some(start_incarnation(cfg, &world));
    let mut ended_by_shutdown = false;

    for (i, op) in sc.ops.iter().enumerate() {
        world.lock().unwrap().step = i as u64 + 1;
        match op {
            Op::Soft {
                h, ..
            } => {
                wait_for_readers(&world, &inc).await;
                let sent = with_soft && inc.as_ref().is_some_and(|x| x.soft_in.send(*h).is_ok());
                world.lock().unwrap().ev(format!("op soft {h} ({})", if sent { "queued" } else { "no reader" }));
            }
            Op::Firm {
                h, ..
            } => {
                wait_for_readers(&world, &inc).await;
                let sent = with_firm && inc.as_ref().is_some_and(|x| x.firm_in.send(*h).is_ok());
                world.lock().unwrap().ev(format!("op firm {h} ({})", if sent { "queued" } else { "no reader" }));
            }
            Op::Wait {
                ms, ..
            } => {
                if *ms > 0 {
                    tokio::time::sleep(Duration::from_millis(u64::from(*ms))).await;
                }
            }
            Op::RpcFault {
                rpc,
                n,
                code,
                after_apply,
                ..
            } => {
                let mut w = world.lock().unwrap();
                w.arm(*rpc, *n, *code, *after_apply);
                w.ev(format!("op arm fault rpc={rpc} n={n} code={code} after_apply={after_apply}"));
            }
            Op::Latency {
                max_ms, ..
            } => {
                let mut w = world.lock().unwrap();
                w.lat_max_ms = u64::from(*max_ms);
                w.ev(format!("op latency cap {max_ms}ms"));
            }
            Op::Restart {
                k, ..
            } => {
                world.lock().unwrap().ev(format!("op restart k={k}"));
                if let Some(x) = inc.take() {
                    kill(&world, x, *k).await;
                }
                world.lock().unwrap().nontrivial = true;
                world.lock().unwrap().stats.probe("restart_with_new_session");
                inc = Some(start_incarnation(cfg, &world));
                ended_by_shutdown = false;
            }
            Op::Shutdown {
                ..
            } => {
                world.lock().unwrap().ev("op shutdown".into());
                if let Some(x) = inc.take() {
                    world.lock().unwrap().stats.fault("shutdown_signal");
                    shut_down(&world, x).await;
                    ended_by_shutdown = true;
                }
            }
        }
        tokio::task::yield_now().await;
        reap_if_finished(&world, &mut inc).await;
    }

    // ---- bounded liveness: faults stop, the system gets a generous virtual-time budget ----
    {
        let mut w = world.lock().unwrap();
        w.step = sc.ops.len() as u64 + 1;
        w.faults_off();
    }
    tokio::time::sleep(Duration::from_millis(cfg.settle_ms)).await;
    reap_if_finished(&world, &mut inc).await;
    if inc.is_some() {
        let mut w = world.lock().unwrap();
        if !w.terminal_allowed {
            match w.expected_heads() {
                None => w.violate(
                    "heads-not-reached",
                    "no-session",
                    "no execution session exists long after the last fault".into(),
                ),
                Some((soft, firm)) => {
                    w.stats.probe("liveness_checked");
                    if (w.soft.0, w.firm.0) != (soft, firm) {
                        let sig = match (w.soft.0.cmp(&soft), w.firm.0.cmp(&firm)) {
                            (std::cmp::Ordering::Less, _) => "soft-behind",
                            (_, std::cmp::Ordering::Less) => "firm-behind",
                            (std::cmp::Ordering::Greater, _) => "soft-beyond-delivered",
                            _ => "firm-beyond-delivered",
                        };
                        let msg = format!(
                            "after all deliveries and {} virtual ms without faults the rollup heads are \
                             soft=#{} firm=#{}, but the delivered blocks determine soft=#{soft} firm=#{firm} \
                             (soft heights delivered: {:?}; firm heights delivered: {:?})",
                            cfg.settle_ms, w.soft.0, w.firm.0, w.delivered_soft, w.delivered_firm
                        );
                        w.violate("heads-not-reached", sig, msg);
                    }
                }
            }
        }
    } else if !ended_by_shutdown {
        world.lock().unwrap().stats.probe("run_ended_without_executor");
    }
    if let Some(x) = inc.take() {
        shut_down(&world, x).await;
    }
    let mut w = world.lock().unwrap();
    w.end_ms = w.now_ms();
}

pub(crate) fn run(sc: &Scenario) -> Outcome {
    let rt = tokio::runtime::Builder::new_current_thread()
        .enable_all()
        .start_paused(true)
        .build()
        .expect("runtime");
    let world: Shared = rt.block_on(async {
        let world: Shared = Arc::new(Mutex::new(World::new(&sc.cfg)));
        drive(sc, world.clone()).await;
        world
    });
    drop(rt);
    let mut guard = world.lock().unwrap();
    let w = &mut *guard;
    let sim_ms = w.end_ms;
    let mut stats = std::mem::take(&mut w.stats);
    if w.nontrivial && w.state_changes > 0 {
        stats.mark_nontrivial(fake::PROP);
    }
    stats.steps = sc.ops.len() as u64;
    stats.sim_ms = sim_ms;
    stats.finish(&w.trace);
    Outcome {
        violations: std::mem::take(&mut w.viol.list),
        stats,
        trace_lines: std::mem::take(&mut w.trace.lines),
    }
}
