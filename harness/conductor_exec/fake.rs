//! The simulated world of engine `conductor-exec`: a contract-enforcing fake rollup (in-process
//! implementation of the generated tonic `ExecutionService` trait), its fault plan, the record of
//! what the simulated readers delivered, and every C10 oracle.
//!
//! Nothing in this file calls conductor code to compute an expected value: heights, numbers and
//! hashes are derived from the scenario configuration and from what the fake rollup itself produced.

use std::{
    collections::{
        BTreeMap,
        BTreeSet,
        HashMap,
    },
    sync::{
        Arc,
        Mutex,
    },
    time::Duration,
};

use astria_core::generated::astria::execution::v2::{
    self as raw,
    execution_service_server::ExecutionService,
};
use tonic::{
    Code,
    Request,
    Response,
    Status,
};

use super::{
    common::{
        mix,
        Fnv,
        Rng,
        Stats,
        Trace,
        Violations,
    },
    Cfg,
};

pub(crate) const PROP: &str = "C10";
/// Violations that are outside the C10 statement (reported under another id so that they show up
/// as "violations of other properties" instead of failing C10).
pub(crate) const AUX: &str = "AUX-conductor-exec";

pub(crate) const MODE_SOFT_ONLY: u8 = 0;
pub(crate) const MODE_FIRM_ONLY: u8 = 1;
pub(crate) const MODE_SOFT_AND_FIRM: u8 = 2;

pub(crate) const RPC_SESSION: u8 = 0;
pub(crate) const RPC_EXECUTE: u8 = 1;
pub(crate) const RPC_UPDATE: u8 = 2;
pub(crate) const RPC_GET: u8 = 3;
pub(crate) const RPC_ANY: u8 = 4;

pub(crate) type Shared = Arc<Mutex<World>>;

/// The hash the simulated sequencer chain has at `height` (pure function of the scenario salt).
pub(crate) fn seq_hash_bytes(salt: u64, height: u64) -> [u8; 32] {
    let mut out = [0u8; 32];
    for (i, chunk) in out.chunks_mut(8).enumerate() {
        chunk.copy_from_slice(&mix(mix(salt, height), 0xB10C + i as u64).to_le_bytes());
    }
    out
}

pub(crate) fn seq_hash_string(salt: u64, height: u64) -> String {
    const HEX: &[u8; 16] = b"0123456789abcdef";
    let mut s = String::with_capacity(64);
    for b in seq_hash_bytes(salt, height) {
        s.push(HEX[(b >> 4) as usize] as char);
        s.push(HEX[(b & 15) as usize] as char);
    }
    s
}

fn rollup_hash(parent: &str, seq_hash: &str, number: u64) -> String {
    let mut a = Fnv::default();
    a.write_str(parent);
    a.write_str(seq_hash);
    a.write_u64(number);
    let mut b = Fnv(0x1234_5678_9abc_def1);
    b.write_str(seq_hash);
    b.write_u64(number);
    b.write_str(parent);
    format!("0x{:016x}{:016x}", a.0, b.0)
}

#[derive(Clone, Debug)]
pub(crate) struct Blk {
    pub number: u64,
    pub hash: String,
    pub parent: String,
    pub ts: pbjson_types::Timestamp,
    pub seq_hash: String,
    pub seq_height: u64,
}

impl Blk {
    fn metadata(&self) -> raw::ExecutedBlockMetadata {
        raw::ExecutedBlockMetadata {
            number: self.number,
            hash: self.hash.clone(),
            parent_hash: self.parent.clone(),
            timestamp: Some(self.ts),
            sequencer_block_hash: self.seq_hash.clone(),
        }
    }
}

struct ArmedFault {
    rpc: u8,
    left: u8,
    code: u8,
    after_apply: bool,
}

struct Plan {
    pre: u64,
    post: u64,
    fault: Option<(u8, bool)>,
    seq: u64,
}

pub(crate) fn fault_code(code: u8) -> (Code, bool, &'static str) {
    match code {
        0 => (Code::Unavailable, false, "unavailable"),
        1 => (Code::Unknown, false, "unknown"),
        2 => (Code::DeadlineExceeded, false, "deadline_exceeded"),
        3 => (Code::ResourceExhausted, false, "resource_exhausted"),
        4 => (Code::Aborted, false, "aborted"),
        5 => (Code::Cancelled, false, "cancelled"),
        6 => (Code::NotFound, false, "not_found"),
        7 => (Code::PermissionDenied, true, "permission_denied"),
        _ => (Code::Internal, true, "internal"),
    }
}

pub(crate) struct World {
    pub cfg: Cfg,
    pub t0: tokio::time::Instant,

    // ---- the rollup's durable state -------------------------------------------------------
    /// Every block the rollup ever produced, by hash.
    pub blocks: HashMap<String, Blk>,
    /// The canonical chain up to the soft head, by number.
    pub canon: BTreeMap<u64, String>,
    pub soft: (u64, String),
    pub firm: (u64, String),
    pub celestia_base: u64,
    pub session_counter: u64,
    pub session_id: String,
    pub initial_soft_number: u64,

    // ---- fault plan ----------------------------------------------------------------------
    armed: Vec<ArmedFault>,
    pub lat_max_ms: u64,
    rpc_seq: u64,
    /// the last (kind, request digest) that was answered with an injected error
    last_failed: Option<(u8, u64)>,

    // ---- what this executor incarnation was given ----------------------------------------
    pub incarnation: u32,
    /// next expected sequencer heights when the incarnation's session was created (from the
    /// rollup's own state, not from conductor's `State`)
    pub base_soft: Option<u64>,
    pub base_firm: Option<u64>,
    pub delivered_soft: BTreeSet<u64>,
    pub delivered_firm: BTreeSet<u64>,
    legal_next_soft: Option<u64>,
    legal_next_firm: Option<u64>,
    /// firm blocks in the order they were handed to the executor's firm channel
    pub firm_sent: Vec<(u64, String)>,
    pub firm_advances: usize,
    /// true once something happened after which the executor is allowed to stop with an error
    pub terminal_allowed: bool,
    pub terminal_reason: &'static str,
    exec_ok: HashMap<(u64, u64), u32>,
    /// sequencer block hash (as the executor prints it) -> height, for every block a reader built
    seq_index: HashMap<String, u64>,

    // ---- run bookkeeping -----------------------------------------------------------------
    pub step: u64,
    pub end_ms: u64,
    pub nontrivial: bool,
    pub state_changes: u64,
    pub trace: Trace,
    pub stats: Stats,
    pub viol: Violations,
}

impl World {
    pub(crate) fn new(cfg: &Cfg) -> Self {
        let r = cfg.rollup_start;
        let s = cfg.seq_start;
        let soft0 = r - 1 + cfg.init_soft;
        let firm0 = r - 1 + cfg.init_firm.min(cfg.init_soft);
        let mut blocks = HashMap::new();
        let mut canon = BTreeMap::new();
        let mut parent = "0xpre".to_string();
        for n in firm0..=soft0 {
            // block number n was derived from sequencer height s + n - r (none for r - 1)
            let (seq_hash, seq_height) = if n + 1 > r && s + n >= r {
                let h = s + n - r;
                (seq_hash_string(cfg.salt, h), h)
            } else {
                (String::new(), 0)
            };
            let hash = rollup_hash(&parent, &seq_hash, n);
            let blk = Blk {
                number: n,
                hash: hash.clone(),
                parent: parent.clone(),
                ts: pbjson_types::Timestamp {
                    seconds: 1_600_000_000 + n as i64,
                    nanos: 0,
                },
                seq_hash,
                seq_height,
            };
            blocks.insert(hash.clone(), blk);
            canon.insert(n, hash.clone());
            parent = hash;
        }
        let soft = (soft0, canon[&soft0].clone());
        let firm = (firm0, canon[&firm0].clone());
        Self {
            cfg: cfg.clone(),
            t0: tokio::time::Instant::now(),
            blocks,
            canon,
            soft,
            firm,
            celestia_base: cfg.celestia_base,
            session_counter: 0,
            session_id: String::new(),
            initial_soft_number: soft0,
            armed: Vec::new(),
            lat_max_ms: cfg.lat_max_ms,
            rpc_seq: 0,
            last_failed: None,
            incarnation: 0,
            base_soft: None,
            base_firm: None,
            delivered_soft: BTreeSet::new(),
            delivered_firm: BTreeSet::new(),
            legal_next_soft: None,
            legal_next_firm: None,
            firm_sent: Vec::new(),
            firm_advances: 0,
            terminal_allowed: false,
            terminal_reason: "",
            exec_ok: HashMap::new(),
            seq_index: HashMap::new(),
            step: 0,
            end_ms: 0,
            nontrivial: false,
            state_changes: 0,
            trace: Trace::new(),
            stats: Stats::default(),
            viol: Violations::default(),
        }
    }

    pub(crate) fn with_firm(&self) -> bool {
        self.cfg.mode != MODE_SOFT_ONLY
    }

    pub(crate) fn with_soft(&self) -> bool {
        self.cfg.mode != MODE_FIRM_ONLY
    }

    pub(crate) fn now_ms(&self) -> u64 {
        (tokio::time::Instant::now() - self.t0).as_millis() as u64
    }

    pub(crate) fn ev(&mut self, line: String) {
        let t = self.now_ms();
        self.trace.ev(&format!("[{t:>7}ms s{}] {line}", self.step));
    }

    pub(crate) fn violate(&mut self, oracle: &str, signature: &str, message: String) {
        self.ev(format!("VIOLATION {oracle}/{signature}: {message}"));
        let step = self.step;
        self.viol.push(PROP, oracle, signature, step, message);
    }

    pub(crate) fn violate_aux(&mut self, oracle: &str, signature: &str, message: String) {
        self.ev(format!("AUX-VIOLATION {oracle}/{signature}: {message}"));
        let step = self.step;
        self.viol.push(AUX, oracle, signature, step, message);
    }

    /// sequencer height the rollup block `number` is derived from (execution API: number
    /// `rollup_start_block_number` maps to `sequencer_start_block_height`)
    pub(crate) fn height_of_number(&self, number: u64) -> Option<u64> {
        (self.cfg.seq_start + number).checked_sub(self.cfg.rollup_start)
    }

    pub(crate) fn number_of_height(&self, height: u64) -> Option<u64> {
        (height + self.cfg.rollup_start).checked_sub(self.cfg.seq_start)
    }

    // ---------------------------------------------------------------------------------------
    // incarnations and deliveries
    // ---------------------------------------------------------------------------------------

    pub(crate) fn begin_incarnation(&mut self) {
        self.incarnation += 1;
        self.base_soft = None;
        self.base_firm = None;
        self.delivered_soft.clear();
        self.delivered_firm.clear();
        self.legal_next_soft = None;
        self.legal_next_firm = None;
        self.firm_sent.clear();
        self.firm_advances = 0;
        self.terminal_allowed = false;
        self.terminal_reason = "";
        let inc = self.incarnation;
        self.ev(format!(
            "incarnation {inc} starts; rollup durable heads soft={} firm={}",
            self.soft.0, self.firm.0
        ));
    }

    /// A simulated reader resolved a delivery op into a block of sequencer height `height`.
    /// `direct`: the block goes straight to the executor's channel (otherwise into the real
    /// `BlockCache`).
    pub(crate) fn note_delivery(&mut self, firm: bool, height: u64, direct: bool) {
        let name = if firm { "firm" } else { "soft" };
        self.seq_index
            .entry(seq_hash_string(self.cfg.salt, height))
            .or_insert(height);
        let base = if firm { self.base_firm } else { self.base_soft }.unwrap_or(height);
        let already = if firm {
            self.delivered_firm.contains(&height)
        } else {
            self.delivered_soft.contains(&height)
        };
        if direct {
            let slot = if firm {
                &mut self.legal_next_firm
            } else {
                &mut self.legal_next_soft
            };
            let legal = slot.get_or_insert(base);
            let kind = if height == *legal {
                *legal += 1;
                "in-order"
            } else if height < *legal {
                if height + 1 == *legal {
                    "dup"
                } else {
                    "stale"
                }
            } else {
                "gap"
            };
            match kind {
                "in-order" => {}
                "gap" => {
                    self.stats.fault(&format!("{name}_gap_direct"));
                    self.allow_terminal("gapped delivery");
                }
                k => {
                    self.stats.fault(&format!("{name}_{k}_direct"));
                    self.nontrivial = true;
                    if firm {
                        self.allow_terminal("duplicate or stale firm delivery");
                    }
                }
            }
            self.ev(format!("deliver {name} h={height} direct ({kind})"));
        } else {
            let max_seen = if firm {
                self.delivered_firm.iter().next_back().copied()
            } else {
                self.delivered_soft.iter().next_back().copied()
            };
            let kind = if already {
                self.stats.fault(&format!("{name}_dup_arrival"));
                self.nontrivial = true;
                "dup"
            } else if height < base {
                self.stats.fault(&format!("{name}_stale_arrival"));
                self.nontrivial = true;
                "stale"
            } else if max_seen.is_some_and(|m| height < m) {
                self.stats.fault(&format!("{name}_out_of_order_arrival"));
                "out-of-order"
            } else if max_seen.map_or(height > base, |m| height > m + 1) {
                self.stats.fault(&format!("{name}_ahead_arrival"));
                "ahead"
            } else {
                "in-order"
            };
            self.ev(format!("deliver {name} h={height} into cache ({kind})"));
        }
        if firm {
            if self.cfg.mode == MODE_SOFT_AND_FIRM && !self.delivered_soft.contains(&height) {
                let soft_head_height = self.height_of_number(self.soft.0).unwrap_or(0);
                if height > soft_head_height {
                    self.stats.probe("firm_arrived_before_soft");
                    self.nontrivial = true;
                }
            }
            self.delivered_firm.insert(height);
        } else {
            self.delivered_soft.insert(height);
        }
    }

    pub(crate) fn allow_terminal(&mut self, why: &'static str) {
        if !self.terminal_allowed {
            self.terminal_allowed = true;
            self.terminal_reason = why;
        }
    }

    pub(crate) fn note_firm_sent(&mut self, height: u64, hash: String) {
        self.ev(format!("reader -> executor firm h={height}"));
        self.firm_sent.push((height, hash));
    }

    pub(crate) fn note_soft_sent(&mut self, height: u64) {
        let soft_head_height = self.height_of_number(self.soft.0).unwrap_or(0);
        if height <= soft_head_height {
            self.stats.probe("soft_sent_for_already_executed_height");
        }
        self.ev(format!("reader -> executor soft h={height}"));
    }

    /// The heads a correct executor must reach given what this incarnation's readers delivered.
    /// Written from the property statement and the documented look-ahead gate: a firm block for
    /// the next firm height finalises (and, if soft has not got there yet, executes) it; a soft
    /// block for the next soft height is executed unless soft is `look_ahead` or more ahead of firm.
    pub(crate) fn expected_heads(&self) -> Option<(u64, u64)> {
        let mut ss = self.base_soft?;
        let mut fs = self.base_firm?;
        let l = self.cfg.look_ahead;
        loop {
            let mut progress = false;
            if self.with_firm() && self.delivered_firm.contains(&fs) {
                if self.cfg.mode == MODE_FIRM_ONLY || fs == ss {
                    fs += 1;
                    ss = fs.max(ss);
                    if self.cfg.mode == MODE_FIRM_ONLY {
                        ss = fs;
                    }
                    progress = true;
                } else if fs < ss {
                    fs += 1;
                    progress = true;
                }
            }
            if self.with_soft()
                && self.delivered_soft.contains(&ss)
                && (!self.with_firm() || ss.saturating_sub(fs) < l)
            {
                ss += 1;
                progress = true;
            }
            if !progress {
                break;
            }
        }
        let soft_number = self.number_of_height(ss)?.checked_sub(1)?;
        let firm_number = if self.with_firm() {
            self.number_of_height(fs)?.checked_sub(1)?
        } else {
            self.firm.0
        };
        Some((soft_number, firm_number))
    }

    // ---------------------------------------------------------------------------------------
    // fault plan
    // ---------------------------------------------------------------------------------------

    pub(crate) fn arm(&mut self, rpc: u8, n: u8, code: u8, after_apply: bool) {
        self.armed.push(ArmedFault {
            rpc,
            left: n.max(1),
            code,
            after_apply,
        });
    }

    pub(crate) fn faults_off(&mut self) {
        self.armed.clear();
        self.lat_max_ms = self.lat_max_ms.min(20);
        self.ev("faults off".to_string());
    }

    fn plan(&mut self, rpc: u8) -> Plan {
        self.rpc_seq += 1;
        let seq = self.rpc_seq;
        let mut r = Rng::new(mix(self.cfg.salt, 0xAA00 + seq));
        let (pre, post) = if self.lat_max_ms == 0 {
            (0, 0)
        } else {
            let pre = r.below(self.lat_max_ms + 1);
            let post = if r.chance(1, 2) {
                0
            } else {
                r.below(self.lat_max_ms + 1)
            };
            (pre, post)
        };
        if pre + post > 0 {
            self.stats.fault("rpc_latency");
        }
        let mut fault = None;
        if let Some(i) = self
            .armed
            .iter()
            .position(|f| f.left > 0 && (f.rpc == RPC_ANY || f.rpc == rpc))
        {
            let f = &mut self.armed[i];
            f.left -= 1;
            fault = Some((f.code, f.after_apply));
            if f.left == 0 {
                self.armed.remove(i);
            }
        }
        Plan {
            pre,
            post,
            fault,
            seq,
        }
    }

    fn fire(&mut self, rpc: u8, digest: u64, code: u8, after_apply: bool, seq: u64) -> Status {
        let (c, fatal, name) = fault_code(code);
        let when = if after_apply { "post" } else { "pre" };
        self.stats.fault(&format!("rpc_error_{when}_{name}"));
        if fatal {
            self.allow_terminal("non-retryable status from the rollup");
        }
        self.last_failed = Some((rpc, digest));
        self.ev(format!("rpc#{seq} -> injected {name} ({when}-apply)"));
        Status::new(c, format!("simulated {name}"))
    }

    fn note_request(&mut self, rpc: u8, digest: u64) {
        if self.last_failed == Some((rpc, digest)) {
            self.stats.probe("client_retried_after_error");
        }
        self.last_failed = None;
    }

    // ---------------------------------------------------------------------------------------
    // the execution API, applied to the rollup state (with the C10 oracles)
    // ---------------------------------------------------------------------------------------

    fn commitment_state(&self) -> raw::CommitmentState {
        raw::CommitmentState {
            soft_executed_block_metadata: Some(self.blocks[&self.soft.1].metadata()),
            firm_executed_block_metadata: Some(self.blocks[&self.firm.1].metadata()),
            lowest_celestia_search_height: self.celestia_base,
        }
    }

    fn apply_create_session(&mut self, seq: u64) -> raw::ExecutionSession {
        self.session_counter += 1;
        self.session_id = format!("session-{}", self.session_counter);
        let next_soft = self.height_of_number(self.soft.0 + 1).unwrap_or(0);
        let next_firm = self.height_of_number(self.firm.0 + 1).unwrap_or(0);
        self.base_soft = Some(next_soft);
        self.base_firm = Some(next_firm);
        self.stats.probe("sessions_created");
        self.trace.abs("S");
        self.ev(format!(
            "rpc#{seq} CreateExecutionSession -> {} soft={} firm={} next heights soft={next_soft} \
             firm={next_firm}",
            self.session_id, self.soft.0, self.firm.0
        ));
        raw::ExecutionSession {
            session_id: self.session_id.clone(),
            execution_session_parameters: Some(raw::ExecutionSessionParameters {
                rollup_id: Some(super::rollup_id().into_raw()),
                rollup_start_block_number: self.cfg.rollup_start,
                rollup_end_block_number: 0,
                sequencer_chain_id: super::SEQUENCER_CHAIN_ID.to_string(),
                sequencer_start_block_height: self.cfg.seq_start,
                celestia_chain_id: "sim-celestia".to_string(),
                celestia_search_height_max_look_ahead: self.cfg.look_ahead,
            }),
            commitment_state: Some(self.commitment_state()),
        }
    }

    fn apply_execute(
        &mut self,
        req: &raw::ExecuteBlockRequest,
        will_answer_ok: bool,
        seq: u64,
    ) -> Result<raw::ExecuteBlockResponse, Status> {
        self.stats.probe("rpc_execute_block");
        if req.session_id != self.session_id {
            self.violate(
                "execute-in-stale-session",
                "session-id-mismatch",
                format!(
                    "ExecuteBlock carried session `{}` but the rollup's current session is `{}`",
                    req.session_id, self.session_id
                ),
            );
            return Err(Status::permission_denied("unknown or expired session"));
        }
        let Some(height) = self.lookup_seq_height(&req.sequencer_block_hash) else {
            self.violate(
                "execute-unknown-sequencer-block",
                "hash-not-delivered",
                format!(
                    "ExecuteBlock names sequencer block hash {} which no reader ever delivered",
                    req.sequencer_block_hash
                ),
            );
            return Err(Status::invalid_argument("unknown sequencer block"));
        };
        if req.parent_hash != self.soft.1 {
            let known = self.blocks.get(&req.parent_hash).map(|b| b.number);
            let sig = match known {
                Some(n) if n < self.soft.0 => "parent-behind-soft-head",
                Some(n) if n > self.soft.0 => "parent-not-yet-committed",
                Some(_) => "parent-fork-at-head",
                None => "parent-unknown",
            };
            self.violate(
                "execute-parent-not-head",
                sig,
                format!(
                    "ExecuteBlock for sequencer height {height} has parent {} (known number \
                     {known:?}) but the block executed for the previous height is the rollup's \
                     soft head #{} {}",
                    req.parent_hash, self.soft.0, self.soft.1
                ),
            );
            return Err(Status::failed_precondition(
                "block can only be created on top of soft block",
            ));
        }
        let number = self.soft.0 + 1;
        let expected_height = self.height_of_number(number).unwrap_or(0);
        if height != expected_height {
            let sig = if height < expected_height {
                "stale-or-duplicate-height-executed"
            } else {
                "height-skipped"
            };
            self.violate(
                "execute-height-out-of-order",
                sig,
                format!(
                    "ExecuteBlock #{number} on top of the soft head must carry sequencer height \
                     {expected_height} (start {}→{}), got sequencer height {height}",
                    self.cfg.seq_start, self.cfg.rollup_start
                ),
            );
            // a real rollup cannot know the height; it would execute. Keep going so that
            // follow-on effects stay visible, but do not let the bad block into the chain.
            return Err(Status::failed_precondition("simulated rollup: wrong sequencer block"));
        }
        if will_answer_ok {
            let key = (self.session_counter, height);
            let c = self.exec_ok.entry(key).or_default();
            *c += 1;
            if *c > 1 {
                self.violate(
                    "execute-height-twice",
                    "same-session",
                    format!(
                        "sequencer height {height} was executed {} times in session {}",
                        self.exec_ok[&key], self.session_id
                    ),
                );
            }
        }
        let hash = rollup_hash(&req.parent_hash, &req.sequencer_block_hash, number);
        let blk = Blk {
            number,
            hash: hash.clone(),
            parent: req.parent_hash.clone(),
            ts: req.timestamp.unwrap_or_default(),
            seq_hash: req.sequencer_block_hash.clone(),
            seq_height: height,
        };
        let md = blk.metadata();
        self.blocks.insert(hash.clone(), blk);
        self.state_changes += 1;
        let rel = number - self.initial_soft_number;
        self.trace.abs(&format!("X{rel}"));
        self.ev(format!(
            "rpc#{seq} ExecuteBlock h={height} parent=#{} -> #{number} {hash} txs={}",
            self.soft.0,
            req.transactions.len()
        ));
        Ok(raw::ExecuteBlockResponse {
            executed_block_metadata: Some(md),
        })
    }

    fn lookup_seq_height(&self, hash: &str) -> Option<u64> {
        self.seq_index.get(hash).copied()
    }

    /// Walks parent links from `from` down to `number`; returns the hash found there.
    fn ancestor_at(&self, from: &Blk, number: u64) -> Option<String> {
        let mut cur = from.clone();
        while cur.number > number {
            cur = self.blocks.get(&cur.parent)?.clone();
        }
        (cur.number == number).then_some(cur.hash)
    }

    fn apply_update(
        &mut self,
        req: &raw::UpdateCommitmentStateRequest,
        seq: u64,
    ) -> Result<raw::CommitmentState, Status> {
        self.stats.probe("rpc_update_commitment_state");
        if req.session_id != self.session_id {
            self.violate(
                "update-in-stale-session",
                "session-id-mismatch",
                format!(
                    "UpdateCommitmentState carried session `{}`, current is `{}`",
                    req.session_id, self.session_id
                ),
            );
            return Err(Status::permission_denied("unknown or expired session"));
        }
        let (Some(cs), Some(soft), Some(firm)) = (
            req.commitment_state.as_ref(),
            req.commitment_state
                .as_ref()
                .and_then(|c| c.soft_executed_block_metadata.as_ref()),
            req.commitment_state
                .as_ref()
                .and_then(|c| c.firm_executed_block_metadata.as_ref()),
        ) else {
            self.violate(
                "update-malformed",
                "missing-field",
                "UpdateCommitmentState without soft/firm metadata".to_string(),
            );
            return Err(Status::invalid_argument("incomplete commitment state"));
        };
        let mut reject = false;
        if soft.number < self.soft.0 {
            reject = true;
            self.violate(
                "commitment-decreased",
                "soft",
                format!("soft commitment went from #{} to #{}", self.soft.0, soft.number),
            );
        }
        if firm.number < self.firm.0 {
            reject = true;
            self.violate(
                "commitment-decreased",
                "firm",
                format!("firm commitment went from #{} to #{}", self.firm.0, firm.number),
            );
        }
        if firm.number > soft.number {
            reject = true;
            self.violate(
                "firm-exceeds-soft",
                "update-request",
                format!(
                    "UpdateCommitmentState with firm #{} above soft #{}",
                    firm.number, soft.number
                ),
            );
        }
        let soft_blk = self
            .blocks
            .get(&soft.hash)
            .filter(|b| b.number == soft.number)
            .cloned();
        let firm_blk = self
            .blocks
            .get(&firm.hash)
            .filter(|b| b.number == firm.number)
            .cloned();
        if soft_blk.is_none() {
            reject = true;
            self.violate(
                "commitment-names-unknown-block",
                "soft",
                format!(
                    "soft commitment names #{} {} which the rollup never produced",
                    soft.number, soft.hash
                ),
            );
        }
        if firm_blk.is_none() {
            reject = true;
            self.violate(
                "commitment-names-unknown-block",
                "firm",
                format!(
                    "firm commitment names #{} {} which the rollup never produced",
                    firm.number, firm.hash
                ),
            );
        }
        if let Some(sb) = &soft_blk {
            if soft.number >= self.soft.0
                && self.ancestor_at(sb, self.soft.0).as_deref() != Some(self.soft.1.as_str())
            {
                reject = true;
                self.violate(
                    "soft-not-on-executed-chain",
                    "soft-does-not-extend-head",
                    format!(
                        "new soft #{} {} does not descend from the current soft head #{} {}",
                        soft.number, soft.hash, self.soft.0, self.soft.1
                    ),
                );
            }
            if let Some(fb) = &firm_blk {
                if firm.number <= soft.number
                    && self.ancestor_at(sb, firm.number).as_deref() != Some(fb.hash.as_str())
                {
                    reject = true;
                    self.violate(
                        "firm-not-on-soft-chain",
                        "firm-is-not-ancestor-of-soft",
                        format!(
                            "firm #{} {} is not on the chain that ends in soft #{} {}",
                            firm.number, firm.hash, soft.number, soft.hash
                        ),
                    );
                }
            }
        }
        if firm.number > self.firm.0 {
            if !self.with_firm() {
                self.violate(
                    "firm-advanced-without-firm-block",
                    "soft-only-mode",
                    format!(
                        "firm commitment advanced to #{} although no firm stream exists",
                        firm.number
                    ),
                );
            }
            if firm.number != self.firm.0 + 1 {
                self.violate(
                    "firm-advanced-without-firm-block",
                    "firm-skipped-a-number",
                    format!(
                        "firm commitment jumped from #{} to #{}",
                        self.firm.0, firm.number
                    ),
                );
            }
            let want_height = self.height_of_number(firm.number).unwrap_or(0);
            let delivered = self.firm_sent.get(self.firm_advances).cloned();
            match (&delivered, &firm_blk) {
                (Some((h, hash)), Some(fb)) => {
                    if *h != want_height || *hash != fb.seq_hash || fb.seq_height != *h {
                        self.violate(
                            "firm-names-block-of-other-sequencer-block",
                            "height-or-hash-mismatch",
                            format!(
                                "firm advance {} of this executor corresponds to the delivered \
                                 firm block h={h} {hash}, but the commitment names #{} which the \
                                 rollup executed from sequencer height {} {} (number #{} maps to \
                                 height {want_height})",
                                self.firm_advances + 1,
                                firm.number,
                                fb.seq_height,
                                fb.seq_hash,
                                firm.number
                            ),
                        );
                    }
                }
                (None, _) => self.violate(
                    "firm-advanced-without-firm-block",
                    "no-firm-block-handed-over",
                    format!(
                        "firm commitment advanced to #{} but only {} firm blocks were handed to \
                         this executor and {} advances happened before",
                        firm.number,
                        self.firm_sent.len(),
                        self.firm_advances
                    ),
                ),
                _ => {}
            }
        }
        if reject {
            return Err(Status::failed_precondition(
                "simulated rollup: commitment state violates the execution API contract",
            ));
        }
        // ---- apply ----
        let soft_blk = soft_blk.expect("checked");
        let firm_advanced = firm.number > self.firm.0;
        let soft_advanced = soft.number > self.soft.0;
        let mut cur = soft_blk.clone();
        while cur.number > self.soft.0 {
            self.canon.insert(cur.number, cur.hash.clone());
            cur = self.blocks[&cur.parent].clone();
        }
        self.soft = (soft.number, soft.hash.clone());
        self.firm = (firm.number, firm.hash.clone());
        if cs.lowest_celestia_search_height < self.celestia_base {
            self.stats.probe("celestia_base_height_decreased");
        }
        self.celestia_base = cs.lowest_celestia_search_height;
        if firm_advanced {
            self.firm_advances += 1;
        }
        match (soft_advanced, firm_advanced) {
            (true, true) => self.stats.probe("update_soft_and_firm_together"),
            (true, false) => self.stats.probe("update_only_soft"),
            (false, true) => self.stats.probe("update_only_firm"),
            (false, false) => self.stats.probe("update_no_change"),
        }
        if soft_advanced || firm_advanced {
            self.state_changes += 1;
        }
        let n0 = self.initial_soft_number as i128;
        self.trace.abs(&format!(
            "U{}:{}",
            soft.number as i128 - n0,
            firm.number as i128 - n0
        ));
        self.ev(format!(
            "rpc#{seq} UpdateCommitmentState soft=#{} firm=#{} celestia={} -> ok",
            soft.number, firm.number, self.celestia_base
        ));
        Ok(self.commitment_state())
    }

    fn apply_get(
        &mut self,
        req: &raw::GetExecutedBlockMetadataRequest,
        seq: u64,
    ) -> Result<raw::ExecutedBlockMetadata, Status> {
        use raw::executed_block_identifier::Identifier;
        self.stats.probe("rpc_get_executed_block_metadata");
        let found = match req.identifier.as_ref().and_then(|i| i.identifier.as_ref()) {
            Some(Identifier::Number(n)) => self.canon.get(n).and_then(|h| self.blocks.get(h)),
            Some(Identifier::Hash(h)) => self.blocks.get(h),
            None => return Err(Status::invalid_argument("no identifier")),
        };
        match found {
            Some(b) => {
                let md = b.metadata();
                self.trace.abs("G");
                self.ev(format!("rpc#{seq} GetExecutedBlockMetadata -> #{}", md.number));
                Ok(md)
            }
            None => {
                self.ev(format!("rpc#{seq} GetExecutedBlockMetadata -> not found"));
                Err(Status::not_found("no such block"))
            }
        }
    }
}

fn digest<M: prost::Message>(m: &M) -> u64 {
    let mut f = Fnv::default();
    f.write(&m.encode_to_vec());
    f.0
}

/// The in-process rollup: every RPC sleeps a PRNG-chosen virtual latency, may answer with an
/// injected status before or after applying the request, and otherwise enforces the execution API.
pub(crate) struct FakeRollup {
    pub world: Shared,
}

async fn nap(ms: u64) {
    if ms > 0 {
        tokio::time::sleep(Duration::from_millis(ms)).await;
    }
}

macro_rules! rpc {
    ($self:ident, $kind:expr, $req:ident, |$w:ident, $plan:ident| $apply:expr) => {{
        let $req = $req.into_inner();
        let dg = digest(&$req);
        let $plan = {
            let mut w = $self.world.lock().unwrap();
            w.note_request($kind, dg);
            w.plan($kind)
        };
        nap($plan.pre).await;
        if let Some((code, false)) = $plan.fault {
            let mut w = $self.world.lock().unwrap();
            return Err(w.fire($kind, dg, code, false, $plan.seq));
        }
        let result = {
            let mut guard = $self.world.lock().unwrap();
            let $w = &mut *guard;
            $apply
        };
        if let Some((code, true)) = $plan.fault {
            let mut w = $self.world.lock().unwrap();
            return Err(w.fire($kind, dg, code, true, $plan.seq));
        }
        nap($plan.post).await;
        result.map(Response::new)
    }};
}

#[tonic::async_trait]
impl ExecutionService for FakeRollup {
    async fn create_execution_session(
        self: Arc<Self>,
        request: Request<raw::CreateExecutionSessionRequest>,
    ) -> Result<Response<raw::ExecutionSession>, Status> {
        rpc!(self, RPC_SESSION, request, |w, plan| Ok(
            w.apply_create_session(plan.seq)
        ))
    }

    async fn get_executed_block_metadata(
        self: Arc<Self>,
        request: Request<raw::GetExecutedBlockMetadataRequest>,
    ) -> Result<Response<raw::ExecutedBlockMetadata>, Status> {
        rpc!(self, RPC_GET, request, |w, plan| w.apply_get(&request, plan.seq))
    }

    async fn execute_block(
        self: Arc<Self>,
        request: Request<raw::ExecuteBlockRequest>,
    ) -> Result<Response<raw::ExecuteBlockResponse>, Status> {
        rpc!(self, RPC_EXECUTE, request, |w, plan| {
            let will_answer_ok = !matches!(plan.fault, Some((_, true)));
            w.apply_execute(&request, will_answer_ok, plan.seq)
        })
    }

    async fn update_commitment_state(
        self: Arc<Self>,
        request: Request<raw::UpdateCommitmentStateRequest>,
    ) -> Result<Response<raw::CommitmentState>, Status> {
        rpc!(self, RPC_UPDATE, request, |w, plan| w.apply_update(&request, plan.seq))
    }
}
