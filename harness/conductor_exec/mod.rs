//! Engine `conductor-exec` (the executor half of E4 in /verif/DESIGN.md) — property C10.
//!
//! Mounted into `astria-conductor` at `crate::executor::verif` by hook H4
//! (`#[cfg(all(test, feature = "verif"))] #[path = "/verif/harness/conductor_exec/mod.rs"] mod verif;`).
//!
//! Real code: `executor::Builder`, `Executor::create_initial_node_state`, `create_block_channels`,
//! `Initialized::run` (select loop, `execute_soft`, `execute_firm`, `update_commitment_state`,
//! shutdown), `State`/`StateSender`/`StateReceiver`, the execution `Client` with its tryhard retry
//! policy, `BlockCache`, and the gRPC encode/decode path of tonic (client and generated server).
//! Stubs: the rollup (`fake::FakeRollup`), the two readers (small loops in `sim.rs` that use the
//! real `BlockCache` the way `sequencer::RunningReader` / `celestia::RunningReader` do), time.
#![allow(
    dead_code,
    unused_imports,
    unreachable_pub,
    clippy::all,
    clippy::pedantic
)]

#[path = "/verif/harness/common/mod.rs"]
pub(crate) mod common;
mod fake;
mod sim;

use astria_core::primitive::v1::RollupId;
use common::{
    Engine,
    Outcome,
    Rng,
};
use serde::{
    Deserialize,
    Serialize,
};

pub(crate) const SEQUENCER_CHAIN_ID: &str = "sim-sequencer";
pub(crate) const EXECUTION_URI: &str = "http://rollup.sim:50051";

pub(crate) fn rollup_id() -> RollupId {
    RollupId::new([0x24; 32])
}

#[test]
fn verif_main() {
    let Some(job) = common::read_job() else {
        return;
    };
    match job.engine.as_str() {
        "conductor-exec" => common::engine_main::<ConductorExec>(&job),
        other => panic!("unknown engine {other}"),
    }
}

// ---------------------------------------------------------------------------------------------
// scenario
// ---------------------------------------------------------------------------------------------

#[derive(Serialize, Deserialize, Clone, Debug)]
pub(crate) struct Cfg {
    /// 0 soft-only, 1 firm-only, 2 soft-and-firm
    pub mode: u8,
    /// true: deliveries go into the real `BlockCache` (any arrival order); false: straight to the
    /// executor's channel (what a reader could legally send, plus flagged anomalies)
    pub via_cache: bool,
    pub rollup_start: u64,
    pub seq_start: u64,
    /// number of blocks of this mapping that are already soft / firm committed at the rollup
    pub init_soft: u64,
    pub init_firm: u64,
    pub look_ahead: u64,
    pub celestia_base: u64,
    pub lat_max_ms: u64,
    /// sequencer chain variant and root of the per-RPC latency sub-streams
    pub salt: u64,
    /// virtual milliseconds granted after the last op before the bounded-liveness check
    pub settle_ms: u64,
}

#[derive(Serialize, Deserialize, Clone, Debug)]
pub(crate) enum Op {
    /// deliver the soft block `h` heights above the height the current executor incarnation's
    /// session expects first (negative: below it)
    Soft { id: u32, h: i32 },
    /// same for the firm stream
    Firm { id: u32, h: i32 },
    /// let `ms` virtual milliseconds pass (0: one scheduler round)
    Wait { id: u32, ms: u32 },
    /// the next `n` RPCs of kind `rpc` (0 session, 1 execute, 2 update, 3 get, 4 any) are answered
    /// with status `code` (see `fake::fault_code`), before or after being applied
    RpcFault {
        id: u32,
        rpc: u8,
        n: u8,
        code: u8,
        after_apply: bool,
    },
    Latency { id: u32, max_ms: u32 },
    /// drop the executor at its k-th suspension from now (0: right now), then start a new one
    Restart { id: u32, k: u32 },
    /// fire the shutdown token
    Shutdown { id: u32 },
}

impl Op {
    fn short(&self) -> String {
        match self {
            Op::Soft {
                h, ..
            } => format!("s{h}"),
            Op::Firm {
                h, ..
            } => format!("f{h}"),
            Op::Wait {
                ms, ..
            } => format!("w{ms}"),
            Op::RpcFault {
                rpc,
                n,
                code,
                after_apply,
                ..
            } => format!(
                "E{rpc}x{n}c{code}{}",
                if *after_apply { "post" } else { "pre" }
            ),
            Op::Latency {
                max_ms, ..
            } => format!("L{max_ms}"),
            Op::Restart {
                k, ..
            } => format!("R{k}"),
            Op::Shutdown {
                ..
            } => "Q".to_string(),
        }
    }
}

#[derive(Serialize, Deserialize, Clone, Debug)]
pub(crate) struct Scenario {
    pub cfg: Cfg,
    pub ops: Vec<Op>,
}

// ---------------------------------------------------------------------------------------------
// generator
// ---------------------------------------------------------------------------------------------

struct Gen {
    lat: u32,
    r: Rng,
    ops: Vec<Op>,
    next_id: u32,
    wait_style: u8,
    fault_rate: u64,
    allow_fatal: bool,
}

impl Gen {
    fn id(&mut self) -> u32 {
        self.next_id += 1;
        self.next_id
    }

    fn maybe_noise(&mut self) {
        let q = match self.wait_style {
            0 => 1,
            1 => 14,
            2 => 8,
            _ => 5,
        };
        if self.r.chance(q, 20) {
            // waits are scaled to the RPC latency so that "the executor got k RPCs done in between"
            // is as likely as "nothing happened in between"
            let l = self.lat.max(1);
            let ms = match self.wait_style {
                0 => *self.r.pick(&[0, 0, 1, 50]),
                1 => *self.r.pick(&[0, 1, l / 2, l, l, 2 * l, 3 * l]),
                2 => *self.r.pick(&[1, l, 2 * l, 4 * l, 8 * l, 20 * l]),
                _ => *self.r.pick(&[0, 1, 3, 10, 40, 150, 700, 3000, 15000]),
            };
            let id = self.id();
            self.ops.push(Op::Wait {
                id,
                ms,
            });
        }
        if self.fault_rate > 0 && self.r.chance(self.fault_rate, 100) {
            let fatal = self.allow_fatal && self.r.chance(1, 12);
            let code = if fatal {
                7 + self.r.below(2) as u8
            } else {
                self.r.below(7) as u8
            };
            let id = self.id();
            let n = if self.r.chance(1, 6) {
                self.r.range(3, 7) as u8
            } else {
                self.r.range(1, 2) as u8
            };
            self.ops.push(Op::RpcFault {
                id,
                rpc: self.r.below(5) as u8,
                n,
                code,
                after_apply: self.r.chance(1, 3),
            });
        }
        if self.r.chance(1, 60) {
            let id = self.id();
            let max_ms = *self.r.pick(&[0, 1, 5, 30, 200, 2000]);
            self.ops.push(Op::Latency {
                id,
                max_ms,
            });
        }
    }

    /// The arrival order of one stream for one executor incarnation.
    fn stream(&mut self, m: i32, via_cache: bool, anomalies: bool, firm: bool) -> Vec<i32> {
        let mut v: Vec<i32> = (0..m).collect();
        if v.is_empty() {
            return v;
        }
        if via_cache {
            let w = *self.r.pick(&[1u64, 2, 3, 5, 9, 64]);
            let mut keyed: Vec<(u64, i32)> = v
                .iter()
                .map(|h| (*h as u64 + self.r.below(w), *h))
                .collect();
            keyed.sort_by_key(|k| k.0);
            v = keyed.into_iter().map(|k| k.1).collect();
            if anomalies {
                let dups = self.r.below(1 + (m as u64) / 3);
                for _ in 0..dups {
                    let h = *self.r.pick(&v);
                    let at = self.r.below_usize(v.len() + 1);
                    v.insert(at, h);
                }
                if self.r.chance(1, 2) {
                    for _ in 0..self.r.range(1, 3) {
                        let h = -(self.r.range(1, 4) as i32);
                        let at = self.r.below_usize(v.len() + 1);
                        v.insert(at, h);
                    }
                }
            }
        } else if anomalies {
            if firm {
                // any firm anomaly is terminal for the executor: at most one, and not always
                if self.r.chance(1, 3) {
                    let at = self.r.below_usize(v.len());
                    match self.r.below(3) {
                        0 => v.insert(at + 1, v[at]),
                        1 => v.insert(at + 1, v[at] - self.r.range(1, 3) as i32),
                        _ => {
                            v.remove(at);
                        }
                    }
                }
            } else {
                let mut out = Vec::new();
                for h in v {
                    if self.r.chance(1, 50) {
                        continue; // gap
                    }
                    out.push(h);
                    if self.r.chance(1, 7) {
                        out.push(h - self.r.below(3) as i32);
                    }
                }
                v = out;
            }
        }
        v
    }

    fn segment(&mut self, cfg: &Cfg, m: i32, anomalies: bool) {
        let with_soft = cfg.mode != fake::MODE_FIRM_ONLY;
        let with_firm = cfg.mode != fake::MODE_SOFT_ONLY;
        let m_soft = if with_soft { m } else { 0 };
        let m_firm = if !with_firm {
            0
        } else {
            match self.r.below(4) {
                0 => (m - self.r.range(1, 4) as i32).max(0),
                1 => m + self.r.range(1, 3) as i32,
                _ => m,
            }
        };
        let soft = self.stream(m_soft, cfg.via_cache, anomalies, false);
        let firm = self.stream(m_firm, cfg.via_cache, anomalies, true);
        let (mut si, mut fi) = (0usize, 0usize);
        // how strongly the merge prefers soft: low = firm first, high = soft far ahead
        let p_soft = *self.r.pick(&[3u64, 20, 40, 50, 60, 75, 90, 97]);
        // optional hard prefix: k firm blocks before anything else / k soft blocks first
        let lead = self.r.below(6);
        let lead_len = self.r.range(1, (cfg.look_ahead + 3).min(12)) as usize;
        if lead == 0 {
            while fi < firm.len().min(lead_len) {
                let id = self.id();
                self.ops.push(Op::Firm {
                    id,
                    h: firm[fi],
                });
                fi += 1;
                self.maybe_noise();
            }
        } else if lead == 1 {
            while si < soft.len().min(lead_len) {
                let id = self.id();
                self.ops.push(Op::Soft {
                    id,
                    h: soft[si],
                });
                si += 1;
                self.maybe_noise();
            }
        }
        while si < soft.len() || fi < firm.len() {
            let take_soft = if si >= soft.len() {
                false
            } else if fi >= firm.len() {
                true
            } else {
                self.r.chance(p_soft, 100)
            };
            let id = self.id();
            if take_soft {
                self.ops.push(Op::Soft {
                    id,
                    h: soft[si],
                });
                si += 1;
            } else {
                self.ops.push(Op::Firm {
                    id,
                    h: firm[fi],
                });
                fi += 1;
            }
            self.maybe_noise();
        }
    }
}

fn generate(_profile: &str, _tier: &str, seed: u64) -> Scenario {
    let mut r = Rng::new(seed);
    let mode = [
        fake::MODE_SOFT_ONLY,
        fake::MODE_FIRM_ONLY,
        fake::MODE_SOFT_AND_FIRM,
    ][r.weighted(&[2, 2, 7])];
    let via_cache = r.chance(1, 2);
    let rollup_start = match r.weighted(&[3, 4, 2]) {
        0 => 1,
        1 => r.range(2, 20),
        _ => *r.pick(&[1000u64, 65_536, 4_000_000]),
    };
    let seq_start = match r.weighted(&[2, 4, 2]) {
        0 => 1,
        1 => r.range(2, 60),
        _ => *r.pick(&[1000u64, 65_536, 3_000_000]),
    };
    let init_soft = if r.chance(2, 5) { 0 } else { r.range(1, 6) };
    let init_firm = if mode == fake::MODE_FIRM_ONLY || r.chance(1, 2) {
        init_soft
    } else {
        r.range(0, init_soft)
    };
    let look_ahead = match r.weighted(&[6, 2, 1]) {
        0 => r.range(1, 5),
        1 => r.range(6, 12),
        _ => 64,
    };
    let lat_max_ms = match r.weighted(&[2, 5, 2, 1]) {
        0 => 0,
        1 => r.range(1, 20),
        2 => r.range(50, 400),
        _ => r.range(1000, 12_000),
    };
    let cfg = Cfg {
        mode,
        via_cache,
        rollup_start,
        seq_start,
        init_soft,
        init_firm,
        look_ahead,
        celestia_base: r.range(1, 1000),
        lat_max_ms,
        salt: r.below(4),
        settle_ms: 240_000,
    };
    let anomalies = r.chance(3, 5);
    let mut g = Gen {
        lat: lat_max_ms.min(2000) as u32,
        wait_style: r.weighted(&[2, 4, 3, 2]) as u8,
        fault_rate: *r.pick(&[0u64, 0, 3, 8, 20]),
        allow_fatal: r.chance(1, 3),
        r: r.fork(7),
        ops: Vec::new(),
        next_id: 0,
    };
    let restarts = g.r.weighted(&[5, 3, 2]) as u64;
    let mut budget: i32 = 40;
    for seg in 0..=restarts {
        let left = restarts - seg + 1;
        let max_m = (budget / left as i32).max(1);
        let m = g.r.range(1, max_m as u64) as i32;
        budget -= m;
        let start = g.ops.len();
        g.segment(&cfg, m, anomalies);
        if seg < restarts {
            // the crash may come anywhere inside the segment, not only after it
            if g.r.chance(1, 2) && g.ops.len() > start + 1 {
                let keep = start + 1 + g.r.below_usize(g.ops.len() - start - 1);
                g.ops.truncate(keep);
            }
            let id = g.id();
            let k = match g.r.below(4) {
                0 => 0,
                1 => g.r.range(1, 6) as u32,
                2 => g.r.range(1, 40) as u32,
                _ => g.r.range(20, 400) as u32,
            };
            g.ops.push(Op::Restart {
                id,
                k,
            });
        }
    }
    if g.r.chance(1, 8) && !g.ops.is_empty() {
        let at = g.r.below_usize(g.ops.len() + 1);
        let id = g.id();
        g.ops.insert(
            at,
            Op::Shutdown {
                id,
            },
        );
        if g.r.chance(1, 2) {
            let id = g.id();
            g.ops.insert(
                at + 1,
                Op::Restart {
                    id,
                    k: 0,
                },
            );
        }
    }
    Scenario {
        cfg,
        ops: g.ops,
    }
}

// ---------------------------------------------------------------------------------------------
// engine glue
// ---------------------------------------------------------------------------------------------

pub(crate) struct ConductorExec;

impl Engine for ConductorExec {
    type Scenario = Scenario;

    const NAME: &'static str = "conductor-exec";

    fn generate(profile: &str, tier: &str, seed: u64) -> Scenario {
        generate(profile, tier, seed)
    }

    fn run(scenario: &Scenario) -> Outcome {
        sim::run(scenario)
    }

    fn len(scenario: &Scenario) -> usize {
        scenario.ops.len()
    }

    fn retain(scenario: &Scenario, keep: &[bool]) -> Scenario {
        Scenario {
            cfg: scenario.cfg.clone(),
            ops: scenario
                .ops
                .iter()
                .zip(keep)
                .filter(|(_, k)| **k)
                .map(|(o, _)| o.clone())
                .collect(),
        }
    }

    fn simplify(sc: &Scenario) -> Vec<Scenario> {
        let mut out = Vec::new();
        let mut with_cfg = |f: &dyn Fn(&mut Cfg) -> bool| {
            let mut c = sc.clone();
            if f(&mut c.cfg) {
                out.push(c);
            }
        };
        with_cfg(&|c| std::mem::replace(&mut c.lat_max_ms, 0) != 0);
        with_cfg(&|c| std::mem::replace(&mut c.rollup_start, 1) != 1);
        with_cfg(&|c| std::mem::replace(&mut c.seq_start, 1) != 1);
        with_cfg(&|c| {
            let changed = c.init_soft != 0 || c.init_firm != 0;
            c.init_soft = 0;
            c.init_firm = 0;
            changed
        });
        with_cfg(&|c| {
            let changed = c.init_firm != c.init_soft;
            c.init_firm = c.init_soft;
            changed
        });
        with_cfg(&|c| std::mem::replace(&mut c.salt, 0) != 0);
        with_cfg(&|c| std::mem::replace(&mut c.celestia_base, 1) != 1);
        for (i, op) in sc.ops.iter().enumerate() {
            let simpler = match op {
                Op::Wait {
                    id,
                    ms,
                } if *ms > 1 => Some(Op::Wait {
                    id: *id,
                    ms: if *ms > 100 { 100 } else { 1 },
                }),
                Op::RpcFault {
                    id,
                    rpc,
                    n,
                    code,
                    after_apply,
                } if *n > 1 || *after_apply => Some(Op::RpcFault {
                    id: *id,
                    rpc: *rpc,
                    n: 1,
                    code: *code,
                    after_apply: false,
                }),
                Op::Restart {
                    id,
                    k,
                } if *k > 0 => Some(Op::Restart {
                    id: *id,
                    k: k / 2,
                }),
                _ => None,
            };
            if let Some(s) = simpler {
                let mut c = sc.clone();
                c.ops[i] = s;
                out.push(c);
            }
        }
        out
    }

    fn summarize(sc: &Scenario) -> serde_json::Value {
        let mut ops = String::new();
        for op in &sc.ops {
            if ops.len() > 1400 {
                ops.push_str(" …");
                break;
            }
            if !ops.is_empty() {
                ops.push(' ');
            }
            ops.push_str(&op.short());
        }
        serde_json::json!({
            "cfg": sc.cfg,
            "n_ops": sc.ops.len(),
            "ops": ops,
            "legend": "sN/fN soft/firm block N heights above the session's first expected height; \
                       wN wait ms; E<rpc>x<n>c<code> RPC fault; L latency cap; R<k> kill at k-th \
                       suspension + new session; Q shutdown",
        })
    }
}
