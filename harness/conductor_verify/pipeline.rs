//! Profiles `default` (C09) and `c07`: the real decode -> verify -> reconstruct pipeline of several
//! Celestia heights runs concurrently against the fake sequencer RPC under a paused tokio clock;
//! the outputs are judged by the reference model.

use std::{
    sync::{
        Arc,
        Mutex,
    },
    time::Duration,
};

use astria_core::generated::astria::execution::v2 as rawexec;

use super::{
    common::{
        self,
        Outcome,
        Stats,
        Trace,
        Violations,
    },
    scenario::{
        MetaKind,
        Op,
        RollKind,
        RpcFault,
        Scenario,
    },
    simclient::{
        FaultPlan,
        Net,
        SimClient,
    },
    world::{
        total_within_comet_bound,
        VariantId,
        World,
    },
};
use crate::celestia::{
    convert::decode_raw_blobs,
    fetch::RawBlobs,
    reconstruct::reconstruct_blocks_from_verified_blobs,
    verify::{
        verify_metadata,
        BlobVerifier,
    },
    ReconstructedBlock,
};

struct OutBlock {
    height: u64,
    hash: [u8; 32],
    header: astria_core::sequencerblock::v1::block::SequencerBlockHeader,
    txs: Vec<Vec<u8>>,
    celestia_height: u64,
}

enum TaskEnd {
    Done(Vec<OutBlock>),
    Panicked(String),
    Stuck,
}

fn make_state(world: &World) -> crate::state::State {
    let meta = |number: u64| rawexec::ExecutedBlockMetadata {
        number,
        hash: common::hex(&[42u8; 32]),
        parent_hash: common::hex(&[41u8; 32]),
        timestamp: Some(pbjson_types::Timestamp {
            seconds: 123_456,
            nanos: 789,
        }),
        sequencer_block_hash: String::new(),
    };
    let params = rawexec::ExecutionSessionParameters {
        rollup_id: Some(world.rollup_ids[0].into_raw()),
        rollup_start_block_number: 1,
        rollup_end_block_number: 0,
        sequencer_chain_id: world.chain_id.clone(),
        sequencer_start_block_height: world.next_firm,
        celestia_chain_id: "sim-celestia".to_string(),
        celestia_search_height_max_look_ahead: 90,
    };
    let commitment = rawexec::CommitmentState {
        soft_executed_block_metadata: Some(meta(0)),
        firm_executed_block_metadata: Some(meta(0)),
        lowest_celestia_search_height: 1,
    };
    crate::test_utils::make_rollup_state("sim-session".to_string(), params, commitment)
}

fn convert(b: ReconstructedBlock) -> OutBlock {
    OutBlock {
        height: b.header.height().value(),
        hash: *b.block_hash.as_bytes(),
        header: b.header,
        txs: b.transactions.iter().map(|t| t.to_vec()).collect(),
        celestia_height: b.celestia_height,
    }
}

pub fn run(sc: &Scenario) -> Outcome {
    let world = World::build(sc);
    let cfg = &sc.cfg;
    let mut violations = Violations::default();

    // ---- fake sequencer ----------------------------------------------------------------------
    let mut net = Net {
        seed: sc.seed,
        lat_max_ms: u64::from(cfg.lat_max_ms),
        highest_height: world.blocks.last().map(|b| b.height).unwrap_or(0),
        trace: Trace::new(),
        stats: Stats::default(),
        ..Net::default()
    };
    for (i, b) in world.blocks.iter().enumerate() {
        let j = world.served_index(sc, b.height).unwrap_or(i);
        net.answers.insert((0, b.height), world.blocks[j].commit_json.clone());
        net.answers.insert((1, b.height), world.blocks[j].validators_json.clone());
    }
    for op in &sc.ops {
        if let Op::Rpc {
            blk,
            method,
            fault,
        } = op
        {
            let Some(b) = world.blocks.get(*blk as usize) else {
                continue;
            };
            let plan: &mut FaultPlan = net.faults.entry((*method % 2, b.height)).or_default();
            match fault {
                RpcFault::RetryTimeout(n) => plan.retry_timeout += u32::from(*n).min(6),
                RpcFault::RetryHttp(n) => plan.retry_http += u32::from(*n).min(6),
                RpcFault::Fatal(k) => plan.fatal_at.push(u32::from(*k)),
                RpcFault::Slow(ms) => plan.slow_ms += u64::from(*ms).min(120_000),
            }
        }
    }

    // ---- record the simulator's decisions ------------------------------------------------------
    net.trace.ev(&format!(
        "cfg vals={} rollups={} base={} firm={} rps={} celestia={} lat={} blocks={}",
        cfg.n_vals,
        cfg.n_other_rollups,
        cfg.base_height,
        world.next_firm,
        cfg.rps,
        cfg.n_celestia,
        cfg.lat_max_ms,
        cfg.blocks.len()
    ));
    let mut any_near_boundary = false;
    for (i, b) in world.blocks.iter().enumerate() {
        let m = &b.model;
        let spec = &cfg.blocks[i];
        net.trace.ev(&format!(
            "block {i} h={} hash={} total={} valid={} mult={} entries={} quorum={} near={} clean={} \
             dh={} vh={} other={:?}",
            b.height,
            common::short_hex(&b.tv.hash),
            m.total,
            m.distinct_valid,
            m.with_multiplicity,
            m.n_entries,
            m.quorum(),
            m.near_boundary(),
            m.clean,
            spec.commit_height_delta,
            spec.valset_height_delta,
            spec.serve_other,
        ));
        net.trace.abs(&format!(
            "blk q={} nb={} dup={} forged={} out={} na={} mod3={} dh={} vh={} so={}",
            m.quorum(),
            m.near_boundary(),
            m.has_duplicate,
            m.has_forged,
            m.has_outsider,
            m.has_nil_or_absent,
            m.total % 3,
            spec.commit_height_delta,
            spec.valset_height_delta,
            spec.serve_other.is_some(),
        ));
        net.stats.probe(&format!("commit.total-mod3-{}", m.total % 3));
        net.stats.probe(if m.quorum() {
            "commit.quorum"
        } else {
            "commit.no-quorum"
        });
        if m.near_boundary() {
            any_near_boundary = true;
            net.stats.probe("commit.within-one-unit-of-two-thirds");
            if m.distinct_valid == m.q() && m.total % 3 == 0 {
                net.stats.probe("commit.exactly-two-thirds");
            }
        }
        if m.total > u128::from(u64::MAX) {
            net.stats.probe("commit.total-overflows-u64");
        }
        if m.has_duplicate {
            net.stats.fault("commit.duplicate-entry");
        }
        if m.has_forged {
            net.stats.fault("commit.forged-signature");
        }
        if m.has_outsider {
            net.stats.fault("commit.non-member-entry");
        }
        if m.has_nil_or_absent {
            net.stats.fault("commit.nil-or-absent");
        }
        if spec.commit_height_delta != 0 {
            net.stats.fault("commit.wrong-height");
        }
        if spec.valset_height_delta != 0 {
            net.stats.fault("valset.wrong-height");
        }
        if spec.serve_other.is_some() {
            net.stats.fault("rpc.serves-other-height");
        }
        if spec.round != 0 {
            net.stats.probe("commit.nonzero-round");
        }
    }
    for (ci, cw) in world.celestia.iter().enumerate() {
        let mut seen_meta: Vec<(u8, u8)> = Vec::new();
        for m in &cw.metas {
            net.trace.ev(&format!(
                "post c={ci} meta blk={} kind={:?} hash={} h={} wf={} good={} genuine={:?}",
                m.blk,
                m.kind,
                common::short_hex(&m.posted_hash),
                m.posted_height,
                m.well_formed,
                m.in_good_blob,
                m.genuine_of
            ));
            net.trace.abs(&format!("pm {ci} {:?} {}", m.kind, m.in_good_blob));
            if m.genuine_of.is_none() {
                net.stats.fault(&format!("blob.meta.{:?}", m.kind));
            } else {
                if seen_meta.contains(&(m.blk, 0)) {
                    net.stats.fault("blob.duplicate");
                }
                seen_meta.push((m.blk, 0));
                if (ci as u8) > 0
                    && world.celestia[..ci]
                        .iter()
                        .any(|p| p.metas.iter().any(|x| x.genuine_of == m.genuine_of))
                {
                    net.stats.fault("blob.replay-at-later-height");
                }
            }
        }
        for r in &cw.rolls {
            net.trace.ev(&format!(
                "post c={ci} roll blk={} kind={:?} hash={} wf={} good={} genuine={:?}",
                r.blk,
                r.kind,
                common::short_hex(&r.posted_hash),
                r.well_formed,
                r.in_good_blob,
                r.genuine_of
            ));
            net.trace.abs(&format!("pr {ci} {:?} {}", r.kind, r.in_good_blob));
            if r.genuine_of.is_none() {
                net.stats.fault(&format!("blob.roll.{:?}", r.kind));
            } else {
                if seen_meta.contains(&(r.blk, 1)) {
                    net.stats.fault("blob.duplicate");
                }
                seen_meta.push((r.blk, 1));
            }
        }
        net.trace.ev(&format!(
            "celestia c={ci} header_blobs={} rollup_blobs={} delay={}",
            cw.header_blobs.len(),
            cw.rollup_blobs.len(),
            cw.start_delay_ms
        ));
    }
    for op in &sc.ops {
        if let Op::Junk {
            kind, ..
        } = op
        {
            net.stats.fault(&format!("blob.junk.{kind:?}"));
        }
    }
    if world.skipped_ops > 0 {
        net.stats.probe_n("ops.nothing-to-act-on", world.skipped_ops as u64);
    }

    let net = Arc::new(Mutex::new(net));

    // ---- run the real pipeline ---------------------------------------------------------------
    let rt = tokio::runtime::Builder::new_current_thread()
        .enable_all()
        .start_paused(true)
        .build()
        .expect("runtime");
    let n_tasks = world.celestia.len();
    let mut raws: Vec<Option<RawBlobs>> = world
        .celestia
        .iter()
        .map(|cw| {
            Some(RawBlobs {
                celestia_height: cw.height,
                header_blobs: cw.header_blobs.clone(),
                rollup_blobs: cw.rollup_blobs.clone(),
            })
        })
        .collect();
    let delays: Vec<u64> = world.celestia.iter().map(|c| c.start_delay_ms).collect();
    let rollup_id = world.rollup_ids[0];
    let (rollup_ns, seq_ns) = (world.rollup_ns, world.seq_ns);
    let state = make_state(&world);
    let rps = cfg.rps.max(1);

    let (ends, sim_ms): (Vec<(usize, TaskEnd)>, u64) = rt.block_on(async {
        let started = tokio::time::Instant::now();
        net.lock().unwrap().started = Some(started);
        let (_state_tx, state_rx) = crate::state::channel(state);
        let verifier = Arc::new(
            BlobVerifier::try_new(SimClient::new(net.clone()), rps).expect("blob verifier"),
        );
        let running = Arc::new(Mutex::new(0u32));
        let mut handles = Vec::new();
        for ci in 0..n_tasks {
            let raw = raws[ci].take().unwrap();
            let verifier = verifier.clone();
            let state_rx = state_rx.clone();
            let net = net.clone();
            let running = running.clone();
            let delay = delays[ci];
            handles.push(tokio::spawn(async move {
                if delay > 0 {
                    tokio::time::sleep(Duration::from_millis(delay)).await;
                }
                {
                    let mut r = running.lock().unwrap();
                    *r += 1;
                    let mut n = net.lock().unwrap();
                    if *r > 1 {
                        n.stats.fault("celestia.heights-in-flight-concurrently");
                    }
                    n.ev(&format!("task c={ci} start"));
                }
                let decoded = decode_raw_blobs(raw, rollup_ns, seq_ns);
                net.lock().unwrap().ev(&format!(
                    "task c={ci} decoded metadata={} rollup={}",
                    decoded.len_headers(),
                    decoded.len_rollup_data_entries()
                ));
                let verified = verify_metadata(verifier, decoded, state_rx).await;
                net.lock().unwrap().ev(&format!(
                    "task c={ci} verified metadata={} rollup={}",
                    verified.len_header_blobs(),
                    verified.len_rollup_blobs()
                ));
                let blocks = reconstruct_blocks_from_verified_blobs(verified, rollup_id);
                *running.lock().unwrap() -= 1;
                blocks.into_iter().map(convert).collect::<Vec<_>>()
            }));
        }
        let mut ends = Vec::new();
        let mut pending: Vec<(usize, tokio::task::JoinHandle<Vec<OutBlock>>)> =
            handles.into_iter().enumerate().collect();
        // completion order matters for the abstract signature: poll all, record as they finish
        let deadline = started + Duration::from_secs(500_000);
        while !pending.is_empty() {
            let futs = pending.iter_mut().map(|(_, h)| Box::pin(h));
            let sel = tokio::time::timeout_at(deadline, futures::future::select_all(futs)).await;
            match sel {
                Err(_) => {
                    for (ci, h) in pending.drain(..) {
                        h.abort();
                        ends.push((ci, TaskEnd::Stuck));
                    }
                }
                Ok((res, idx, _rest)) => {
                    let (ci, _h) = pending.remove(idx);
                    match res {
                        Ok(blocks) => ends.push((ci, TaskEnd::Done(blocks))),
                        Err(e) => {
                            let msg = common::take_last_panic().unwrap_or_else(|| e.to_string());
                            ends.push((ci, TaskEnd::Panicked(msg)));
                        }
                    }
                }
            }
        }
        let sim_ms = (tokio::time::Instant::now() - started).as_millis() as u64;
        (ends, sim_ms)
    });
    drop(rt);

    let mut guard = net.lock().unwrap();
    let net: &mut Net = &mut guard;
    let fatal_heights = net.fatal_fired.clone();

    // ---- oracles -------------------------------------------------------------------------------
    let c07_profile = sc.profile == "c07";
    let mut produced: Vec<Vec<usize>> = vec![Vec::new(); n_tasks]; // per task: blocks produced exactly as committed
    for (ci, end) in &ends {
        let ci = *ci;
        match end {
            TaskEnd::Stuck => {
                net.trace.ev(&format!("task c={ci} STUCK"));
                violations.push(
                    "C09",
                    "pipeline-continues",
                    "per-height-task-never-finished",
                    ci as u64,
                    format!("task for Celestia height index {ci} did not finish in 500000 simulated seconds"),
                );
            }
            TaskEnd::Panicked(msg) => {
                net.trace.ev(&format!("task c={ci} PANIC"));
                violations.push(
                    "C09",
                    "pipeline-continues",
                    "panic-in-per-height-task",
                    ci as u64,
                    format!("per-height task for Celestia height index {ci} panicked: {msg}"),
                );
            }
            TaskEnd::Done(blocks) => {
                let mut sorted: Vec<&OutBlock> = blocks.iter().collect();
                sorted.sort_by(|a, b| (a.height, a.hash, &a.txs).cmp(&(b.height, b.hash, &b.txs)));
                let mut classes = Vec::new();
                for ob in sorted {
                    let class = judge_block(sc, &world, ci, ob, &mut violations, net, c07_profile);
                    if let Some(i) = class.exact_block {
                        produced[ci].push(i);
                    }
                    net.trace.ev(&format!(
                        "task c={ci} out h={} hash={} ntx={} class={}",
                        ob.height,
                        common::short_hex(&ob.hash),
                        ob.txs.len(),
                        class.label
                    ));
                    classes.push(class.label);
                    net.stats.probe("block.reconstructed");
                    if ob.txs.is_empty() {
                        net.stats.probe("block.reconstructed-empty");
                    }
                    if ob.celestia_height != world.celestia[ci].height {
                        violations.push(
                            "C09",
                            "pipeline-continues",
                            "wrong-celestia-height-on-block",
                            ci as u64,
                            format!("block carries celestia height {}", ob.celestia_height),
                        );
                    }
                }
                net.trace.abs(&format!("done {ci} [{}]", classes.join(",")));
            }
        }
    }

    if let Some(msg) = &world.split_mismatch {
        violations.push(
            "C07",
            "split-for-celestia-matches-block",
            "published-data-differs-from-block",
            0,
            msg.clone(),
        );
    }

    // completeness: honest data present, clean quorum commit, no non-retryable RPC failure
    for (ci, cw) in world.celestia.iter().enumerate() {
        if !matches!(ends.iter().find(|e| e.0 == ci).map(|e| &e.1), Some(TaskEnd::Done(_))) {
            continue;
        }
        for (i, b) in world.blocks.iter().enumerate() {
            let spec = &cfg.blocks[i];
            let honest_meta = cw
                .metas
                .iter()
                .any(|m| m.genuine_of == Some(i as u8) && m.in_good_blob);
            if !honest_meta {
                continue;
            }
            let needs_roll = b.tv.expected.get(&0).map(|v| !v.is_empty()).unwrap_or(false);
            let honest_roll = cw
                .rolls
                .iter()
                .any(|r| r.genuine_of == Some(i as u8) && r.in_good_blob);
            // another acceptable-by-the-letter metadata entry claims the same committed hash
            let squatted = cw.metas.iter().any(|m| {
                m.genuine_of.is_none()
                    && m.in_good_blob
                    && m.posted_hash == b.tv.hash
                    && m.posted_height == b.height
                    && m.posted_chain == world.chain_id
            });
            let expect = b.height >= world.next_firm
                && spec.serve_other.is_none()
                && spec.commit_height_delta == 0
                && spec.valset_height_delta == 0
                && b.model.clean
                && b.model.json_ok
                && b.model.quorum()
                && total_within_comet_bound(b.model.total)
                && !fatal_heights.contains(&b.height)
                && (!needs_roll || honest_roll)
                && !squatted;
            if !expect {
                continue;
            }
            net.stats.probe("completeness.expected");
            if !produced[ci].contains(&i) {
                let msg = format!(
                    "honest metadata{} of block {i} (height {}, hash {}) was present at Celestia \
                     height index {ci}, its commit is clean with power {}/{} and no RPC failure \
                     was injected, but the block was not reconstructed with exactly its data",
                    if needs_roll {
                        " and rollup data"
                    } else {
                        ""
                    },
                    b.height,
                    common::short_hex(&b.tv.hash),
                    b.model.distinct_valid,
                    b.model.total
                );
                violations.push(
                    "C09",
                    "honest-block-produced",
                    "honest-block-missing",
                    ci as u64,
                    msg.clone(),
                );
                violations.push(
                    "C07",
                    "honest-data-delivered",
                    "honest-block-missing",
                    ci as u64,
                    msg,
                );
            }
        }
    }

    // cache effectiveness probe: fewer commit requests than metadata verifications
    let commit_requests: u32 = net.seen.iter().filter(|(k, _)| k.0 == 0).map(|(_, v)| *v).sum();
    let verifications: usize = world
        .celestia
        .iter()
        .map(|c| c.metas.iter().filter(|m| m.in_good_blob && m.posted_height >= world.next_firm).count())
        .sum();
    if (commit_requests as usize) < verifications {
        net.stats.probe("cache.shared-between-blobs");
    }

    let mut stats = std::mem::take(&mut net.stats);
    let trace = std::mem::take(&mut net.trace);
    if any_near_boundary || world.adversarial_posts > 0 {
        stats.mark_nontrivial("C09");
    }
    if world.rollup_tamperings > 0
        && world
            .blocks
            .iter()
            .any(|b| b.tv.expected.len() >= 2)
    {
        stats.mark_nontrivial("C07");
    }
    stats.steps = sc.ops.len() as u64 + net.requests;
    stats.sim_ms = sim_ms;
    for v in &violations.list {
        // violations are part of the observable history
        let _ = v;
    }
    stats.finish(&trace);
    Outcome {
        violations: violations.list,
        stats,
        trace_lines: trace.lines,
    }
}

struct Judged {
    label: String,
    /// Some(i): the block is exactly committed block i (hash, header and data).
    exact_block: Option<usize>,
}

fn data_class(world: &World, base: (u8, VariantId), txs: &[Vec<u8>]) -> &'static str {
    let b = &world.blocks[base.0 as usize];
    let v = if base.1 == VariantId::True {
        &b.tv
    } else {
        &b.av
    };
    if v.expected.iter().any(|(k, e)| *k != 0 && e[..] == *txs) {
        "other-rollup-data-attached"
    } else if txs.is_empty() {
        "rollup-data-missing"
    } else {
        "rollup-data-not-proven-for-this-rollup"
    }
}

fn judge_block(
    sc: &Scenario,
    world: &World,
    ci: usize,
    ob: &OutBlock,
    violations: &mut Violations,
    net: &mut Net,
    c07_profile: bool,
) -> Judged {
    let _ = c07_profile;
    let step = ci as u64;
    let mut ok = true;
    let Some(si) = world.served_index(sc, ob.height) else {
        violations.push(
            "C09",
            "commit-quorum",
            "no-commit-exists-for-height",
            step,
            format!(
                "block for height {} hash {} was produced but the sequencer has no commit for that height",
                ob.height,
                common::short_hex(&ob.hash)
            ),
        );
        return Judged {
            label: "no-commit".to_string(),
            exact_block: None,
        };
    };
    let sb = &world.blocks[si];
    let m = &sb.model;
    let served_commit_height = sb.commit.height.value();
    if served_commit_height != ob.height {
        ok = false;
        violations.push(
            "C09",
            "commit-is-for-height",
            "served-commit-is-for-another-height",
            step,
            format!(
                "metadata for height {} accepted against a commit whose height is {}",
                ob.height, served_commit_height
            ),
        );
    }
    if sb.validators.block_height.value() != served_commit_height {
        ok = false;
        violations.push(
            "C09",
            "commit-quorum",
            "validator-set-height-differs-from-commit",
            step,
            format!(
                "commit height {} but validator set height {}",
                served_commit_height,
                sb.validators.block_height.value()
            ),
        );
    }
    if !m.quorum() {
        ok = false;
        let sig = if m.has_duplicate && 3 * m.with_multiplicity > 2 * m.total {
            "duplicate-signer-entries-counted"
        } else if m.total % 3 == 2 && m.distinct_valid == m.q() && m.total >= 3 {
            "power-at-floor-two-thirds-total-mod3-is-2"
        } else if m.has_forged {
            "below-two-thirds-with-forged-entries"
        } else {
            "below-two-thirds"
        };
        violations.push(
            "C09",
            "commit-quorum",
            sig,
            step,
            format!(
                "block height {} hash {} accepted, but distinct validators with valid signatures \
                 hold {} of {} (3p > 2t fails; with multiplicity {}, entries {})",
                ob.height,
                common::short_hex(&ob.hash),
                m.distinct_valid,
                m.total,
                m.with_multiplicity,
                m.n_entries
            ),
        );
    }
    let commit_hash = sb.commit.block_id.hash.as_bytes();
    if commit_hash != ob.hash {
        ok = false;
        violations.push(
            "C09",
            "metadata-matches-commit",
            "block-hash-differs-from-commit",
            step,
            format!(
                "accepted metadata hash {} but the commit for height {} is for {}",
                common::short_hex(&ob.hash),
                ob.height,
                common::short_hex(commit_hash)
            ),
        );
    }
    if ob.header.chain_id().as_str() != sb.tm_header.chain_id.as_str() {
        ok = false;
        violations.push(
            "C09",
            "metadata-matches-commit",
            "chain-id-differs-from-commit",
            step,
            format!(
                "accepted metadata chain id `{}` but the commit says `{}`",
                ob.header.chain_id(),
                sb.tm_header.chain_id
            ),
        );
    }

    // which variant's data root does the accepted header carry?
    let mut base: Option<(u8, VariantId)> = None;
    for (i, b) in world.blocks.iter().enumerate() {
        if b.tv.header == ob.header {
            base = Some((i as u8, VariantId::True));
        } else if b.av.header == ob.header {
            base = Some((i as u8, VariantId::Alt));
        }
    }
    if base.is_none() {
        base = world.celestia[ci]
            .metas
            .iter()
            .find(|pm| pm.header.as_ref() == Some(&ob.header))
            .map(|pm| pm.base);
    }
    let mut label = String::new();
    match base {
        None => {
            ok = false;
            violations.push(
                "C09",
                "rollup-data-bound",
                "header-not-from-any-posted-metadata",
                step,
                format!("block height {} carries a header nobody posted", ob.height),
            );
            label.push_str("unknown-header");
        }
        Some(base) => {
            let bb = &world.blocks[base.0 as usize];
            let v = if base.1 == VariantId::True {
                &bb.tv
            } else {
                &bb.av
            };
            let want: &[Vec<u8>] = v.expected.get(&0).map(|x| &x[..]).unwrap_or(&[]);
            if want != &ob.txs[..] {
                ok = false;
                let sig = data_class(world, base, &ob.txs);
                violations.push(
                    "C09",
                    "rollup-data-bound",
                    sig,
                    step,
                    format!(
                        "block height {} hash {}: {} transactions attached, but the data proven \
                         for this rollup against the accepted header's root has {}",
                        ob.height,
                        common::short_hex(&ob.hash),
                        ob.txs.len(),
                        want.len()
                    ),
                );
            }
            label.push_str(&format!("b{}{}", base.0, if base.1 == VariantId::True { "t" } else { "a" }));
        }
    }

    // C07 receiver clause: what comes out under a committed hash is exactly that block's data
    let mut exact = None;
    if commit_hash == ob.hash {
        let header_ok = sb.tv.header == ob.header;
        let want: &[Vec<u8>] = sb.tv.expected.get(&0).map(|x| &x[..]).unwrap_or(&[]);
        let data_ok = want == &ob.txs[..];
        if !header_ok {
            violations.push(
                "C07",
                "header-bound-to-commit",
                "forged-header-under-committed-hash",
                step,
                format!(
                    "block height {} hash {} was reconstructed from a header that is not the \
                     committed block's header (its data root is not the committed one)",
                    ob.height,
                    common::short_hex(&ob.hash)
                ),
            );
            net.stats.probe("c07.forged-header-accepted");
        }
        if !data_ok {
            let sig = if !header_ok {
                "forged-data-under-committed-hash"
            } else {
                data_class(world, (si as u8, VariantId::True), &ob.txs)
            };
            violations.push(
                "C07",
                "rollup-data-exact",
                sig,
                step,
                format!(
                    "block height {} hash {}: delivered {} transactions, the committed block has \
                     {} for this rollup (or they differ in content/order)",
                    ob.height,
                    common::short_hex(&ob.hash),
                    ob.txs.len(),
                    want.len()
                ),
            );
        }
        if header_ok && data_ok && ok {
            exact = Some(si);
            label.push_str(":exact");
        } else if !header_ok {
            label.push_str(":forged-header");
        } else if !data_ok {
            label.push_str(":wrong-data");
        }
    } else {
        label.push_str(":uncommitted-hash");
    }
    if !ok {
        label.push_str(":unsound");
    }
    Judged {
        label,
        exact_block: exact,
    }
}

/// Kinds used only for the summaries.
pub fn op_kind_name(op: &Op) -> String {
    match op {
        Op::Sig {
            flag,
            kind,
            ..
        } => format!("sig.{flag}.{kind:?}"),
        Op::Meta {
            kind, ..
        } => format!("meta.{kind:?}"),
        Op::Roll {
            kind, ..
        } => format!("roll.{kind:?}"),
        Op::Junk {
            kind, ..
        } => format!("junk.{kind:?}"),
        Op::Rpc {
            fault, ..
        } => match fault {
            RpcFault::RetryTimeout(_) => "rpc.retry-timeout".to_string(),
            RpcFault::RetryHttp(_) => "rpc.retry-http".to_string(),
            RpcFault::Fatal(_) => "rpc.fatal".to_string(),
            RpcFault::Slow(_) => "rpc.slow".to_string(),
        },
        Op::Delay {
            ..
        } => "delay".to_string(),
        Op::EnumCommit {
            ..
        } => "enum".to_string(),
    }
}

#[allow(unused)]
fn _kinds(_: MetaKind, _: RollKind) {}
