//! Materialises a scenario: keys, sequencer blocks (committed and adversarial variants), CometBFT
//! headers, commits and validator sets served by the fake sequencer, the Celestia blobs of every
//! simulated height, and the ground-truth bookkeeping the oracles read.
//!
//! Nothing here calls the conductor code under test. Blocks are produced with astria-core's public
//! builder (`ConfigureSequencerBlock`), split with `SequencerBlock::split_for_celestia` and packed
//! exactly like the relayer's `conversion.rs` does (protobuf list -> brotli -> `Blob::new`).

use std::collections::BTreeMap;

use astria_core::{
    brotli::compress_bytes,
    crypto::SigningKey,
    generated::astria::sequencerblock::v1 as raw,
    primitive::v1::RollupId,
    protocol::test_utils::ConfigureSequencerBlock,
    sequencerblock::v1::{
        block::{
            self,
            SequencerBlockHeader,
        },
        celestia::UncheckedSubmittedMetadata,
        SubmittedMetadata,
        SubmittedRollupData,
    },
    Protobuf as _,
};
use bytes::Bytes;
use celestia_types::{
    nmt::Namespace,
    Blob,
};
use prost::Message as _;
use sequencer_client::{
    tendermint::{
        self,
        account,
        block::{
            Commit,
            CommitSig,
        },
        validator,
    },
    tendermint_rpc::endpoint::validators,
};

use super::{
    common::Rng,
    scenario::{
        BlockSpec,
        Config,
        JunkKind,
        MetaKind,
        Op,
        RollKind,
        Scenario,
        SigKind,
        Sub,
        COMET_MAX_TOTAL,
    },
};

pub const CHAIN_ID: &str = "sim-sequencer-1";

// ---------------------------------------------------------------------------------------------
// canonical vote sign bytes, encoded by hand from the CometBFT protobuf definition
// ---------------------------------------------------------------------------------------------

fn varint(mut v: u64, out: &mut Vec<u8>) {
    loop {
        let b = (v & 0x7f) as u8;
        v >>= 7;
        if v == 0 {
            out.push(b);
            return;
        }
        out.push(b | 0x80);
    }
}

pub struct VoteFields<'a> {
    pub vote_type: u8,
    pub height: i64,
    pub round: i64,
    /// (hash, part set total, part set hash); `None` = nil vote
    pub block_id: Option<(&'a [u8], u32, &'a [u8])>,
    pub secs: i64,
    pub nanos: i32,
    pub chain_id: &'a str,
}

/// Length-delimited `CanonicalVote` (what a validator signs).
pub fn canonical_vote_sign_bytes(f: &VoteFields<'_>) -> Vec<u8> {
    let mut msg = Vec::new();
    if f.vote_type != 0 {
        msg.push(0x08);
        varint(u64::from(f.vote_type), &mut msg);
    }
    if f.height != 0 {
        msg.push(0x11);
        msg.extend_from_slice(&f.height.to_le_bytes());
    }
    if f.round != 0 {
        msg.push(0x19);
        msg.extend_from_slice(&f.round.to_le_bytes());
    }
    if let Some((hash, total, phash)) = f.block_id {
        let mut psh = Vec::new();
        if total != 0 {
            psh.push(0x08);
            varint(u64::from(total), &mut psh);
        }
        if !phash.is_empty() {
            psh.push(0x12);
            varint(phash.len() as u64, &mut psh);
            psh.extend_from_slice(phash);
        }
        let mut bid = Vec::new();
        if !hash.is_empty() {
            bid.push(0x0a);
            varint(hash.len() as u64, &mut bid);
            bid.extend_from_slice(hash);
        }
        bid.push(0x12);
        varint(psh.len() as u64, &mut bid);
        bid.extend_from_slice(&psh);
        msg.push(0x22);
        varint(bid.len() as u64, &mut msg);
        msg.extend_from_slice(&bid);
    }
    {
        let mut ts = Vec::new();
        if f.secs != 0 {
            ts.push(0x08);
            varint(f.secs as u64, &mut ts);
        }
        if f.nanos != 0 {
            ts.push(0x10);
            varint(f.nanos as i64 as u64, &mut ts);
        }
        msg.push(0x2a);
        varint(ts.len() as u64, &mut msg);
        msg.extend_from_slice(&ts);
    }
    if !f.chain_id.is_empty() {
        msg.push(0x32);
        varint(f.chain_id.len() as u64, &mut msg);
        msg.extend_from_slice(f.chain_id.as_bytes());
    }
    let mut out = Vec::new();
    varint(msg.len() as u64, &mut out);
    out.extend_from_slice(&msg);
    out
}

/// Harness self-test: the hand encoder agrees with tendermint-rs on a sample (run once).
pub fn self_test_sign_bytes() {
    static ONCE: std::sync::Once = std::sync::Once::new();
    ONCE.call_once(|| {
        use sequencer_client::tendermint_proto;
        for (round, secs, nanos, nil) in [(0u16, 1_700_000_123i64, 456_000u32, false), (3, 0, 0, true)] {
            let hash = [7u8; 32];
            let phash = [9u8; 32];
            let block_id = tendermint::block::Id {
                hash: tendermint::Hash::Sha256(hash),
                part_set_header: tendermint::block::parts::Header::new(
                    1,
                    tendermint::Hash::Sha256(phash),
                )
                .unwrap(),
            };
            let cv = tendermint::vote::CanonicalVote {
                vote_type: tendermint::vote::Type::Precommit,
                height: 77u32.into(),
                round: round.into(),
                block_id: if nil {
                    None
                } else {
                    Some(block_id)
                },
                timestamp: Some(tendermint::Time::from_unix_timestamp(secs, nanos).unwrap()),
                chain_id: CHAIN_ID.try_into().unwrap(),
            };
            let theirs = tendermint_proto::types::CanonicalVote::from(cv)
                .encode_length_delimited_to_vec();
            let ours = canonical_vote_sign_bytes(&VoteFields {
                vote_type: 2,
                height: 77,
                round: i64::from(round),
                block_id: if nil {
                    None
                } else {
                    Some((&hash, 1, &phash))
                },
                secs,
                nanos: nanos as i32,
                chain_id: CHAIN_ID,
            });
            assert_eq!(ours, theirs, "harness sign-bytes encoder disagrees with tendermint-rs");
        }
    });
}

// ---------------------------------------------------------------------------------------------
// world
// ---------------------------------------------------------------------------------------------

#[derive(Clone, Copy, Debug, PartialEq, Eq, PartialOrd, Ord)]
pub enum VariantId {
    True,
    Alt,
}

pub struct Variant {
    pub header: SequencerBlockHeader,
    /// Hash of this variant's own CometBFT header.
    pub hash: [u8; 32],
    pub meta: UncheckedSubmittedMetadata,
    /// Genuine Celestia rollup blobs of this variant by rollup index.
    pub rolls: BTreeMap<u8, SubmittedRollupData>,
    /// Expected rollup transactions by rollup index, encoded by the harness from the submissions.
    pub expected: BTreeMap<u8, Vec<Vec<u8>>>,
}

/// What the reference model knows about a served commit. All arithmetic is exact (u128).
#[derive(Clone, Debug, Default)]
pub struct CommitModel {
    pub total: u128,
    /// Power of the distinct members with at least one valid block signature.
    pub distinct_valid: u128,
    /// Power of valid entries counted with multiplicity (diagnostics only).
    pub with_multiplicity: u128,
    pub has_duplicate: bool,
    pub has_forged: bool,
    pub has_outsider: bool,
    pub has_nil_or_absent: bool,
    /// No forged, duplicate, non-member or otherwise irregular entry.
    pub clean: bool,
    /// The JSON-RPC response can be decoded by a tendermint-rs client.
    pub json_ok: bool,
    pub n_entries: usize,
}

impl CommitModel {
    pub fn quorum(&self) -> bool {
        3 * self.distinct_valid > 2 * self.total
    }

    /// Largest power that is *not* a quorum.
    pub fn q(&self) -> u128 {
        2 * self.total / 3
    }

    pub fn near_boundary(&self) -> bool {
        let q = self.q();
        self.total > 0 && (self.distinct_valid == q || self.distinct_valid == q + 1)
    }
}

pub struct BlockW {
    pub height: u64,
    pub tv: Variant,
    pub av: Variant,
    pub commit: Commit,
    pub tm_header: tendermint::block::Header,
    pub validators: validators::Response,
    pub commit_json: String,
    pub validators_json: String,
    pub model: CommitModel,
}

pub struct PostedMeta {
    pub op: usize,
    pub c: u8,
    pub blk: u8,
    pub kind: MetaKind,
    pub posted_hash: [u8; 32],
    pub posted_height: u64,
    pub posted_chain: String,
    /// Header as posted (None if the entry is malformed at the protobuf level).
    pub header: Option<SequencerBlockHeader>,
    /// The variant whose data root the posted header carries.
    pub base: (u8, VariantId),
    /// Byte-identical to the genuine metadata of block j (committed variant).
    pub genuine_of: Option<u8>,
    pub well_formed: bool,
    pub in_good_blob: bool,
}

pub struct PostedRoll {
    pub op: usize,
    pub c: u8,
    pub blk: u8,
    pub kind: RollKind,
    pub posted_hash: [u8; 32],
    /// Byte-identical to the genuine blob of the conductor's rollup of block j (committed variant).
    pub genuine_of: Option<u8>,
    pub well_formed: bool,
    pub in_good_blob: bool,
}

#[derive(Default)]
pub struct CelestiaW {
    pub height: u64,
    pub header_blobs: Vec<Blob>,
    pub rollup_blobs: Vec<Blob>,
    pub metas: Vec<PostedMeta>,
    pub rolls: Vec<PostedRoll>,
    pub start_delay_ms: u64,
}

pub struct World {
    pub chain_id: String,
    pub rollup_ids: Vec<RollupId>,
    pub rollup_ns: Namespace,
    pub seq_ns: Namespace,
    pub keys: Vec<SigningKey>,
    pub outsiders: Vec<SigningKey>,
    pub blocks: Vec<BlockW>,
    pub celestia: Vec<CelestiaW>,
    pub next_firm: u64,
    /// ops that had nothing to act on (e.g. tampering of data a block does not have)
    pub skipped_ops: usize,
    pub adversarial_posts: usize,
    pub rollup_tamperings: usize,
    /// `split_for_celestia` output differs from the harness's own expectation (C07, relayer side)
    pub split_mismatch: Option<String>,
}

pub fn key_from(seed: u64, tag: u64) -> SigningKey {
    SigningKey::from(Rng::new(seed).fork(tag).array32())
}

pub fn tm_pubkey(k: &SigningKey) -> tendermint::PublicKey {
    tendermint::PublicKey::from_raw_ed25519(k.verification_key().as_ref()).unwrap()
}

pub fn tm_address(k: &SigningKey) -> account::Id {
    account::Id::from(tm_pubkey(k))
}

fn sub_bytes(s: &Sub) -> Vec<u8> {
    vec![s.fill; s.len as usize]
}

/// `astria.sequencerblock.v1.RollupData { sequenced_data = 1 }`, encoded by hand.
fn expected_rollup_tx(payload: &[u8]) -> Vec<u8> {
    let mut out = vec![0x0a];
    varint(payload.len() as u64, &mut out);
    out.extend_from_slice(payload);
    out
}

fn make_deposit(
    rollup_ids: &[RollupId],
    blk: usize,
    k: usize,
    d: &super::scenario::Dep,
) -> astria_core::sequencerblock::v1::block::Deposit {
    astria_core::sequencerblock::v1::block::Deposit {
        bridge_address: astria_core::primitive::v1::Address::builder()
            .array([0xB0 + d.rid; 20])
            .prefix("astria")
            .try_build()
            .unwrap(),
        rollup_id: rollup_ids[d.rid as usize % rollup_ids.len()],
        amount: u128::from(d.amount),
        asset: "nria".parse().unwrap(),
        destination_chain_address: format!("0xdest{blk}x{k}"),
        source_transaction_id: astria_core::primitive::v1::TransactionId::new(
            [(blk * 16 + k) as u8; 32],
        ),
        source_action_index: k as u64,
    }
}

pub fn block_time(cfg: &Config, blk: usize, alt: bool) -> (i64, u32) {
    (
        1_700_000_000 + i64::from(cfg.base_height) + 10 * blk as i64 + i64::from(alt),
        0,
    )
}

pub fn sig_time(ts: u32) -> (i64, u32) {
    (1_700_000_500 + i64::from(ts), ts * 1000)
}

fn build_variant(
    sc: &Scenario,
    rollup_ids: &[RollupId],
    proposer: &SigningKey,
    blk: usize,
    alt: bool,
    height: u64,
) -> (Variant, [u8; 32]) {
    let spec = &sc.cfg.blocks[blk];
    let subs = if alt {
        &spec.alt_subs
    } else {
        &spec.subs
    };
    let (secs, nanos) = block_time(&sc.cfg, blk, alt);
    let block = ConfigureSequencerBlock {
        block_hash: Some(block::Hash::new([0u8; 32])),
        chain_id: Some(CHAIN_ID.to_string()),
        height: height as u32,
        proposer_address: Some(tm_address(proposer)),
        signing_key: Some(key_from(sc.seed, 0xA000 + blk as u64)),
        sequence_data: subs
            .iter()
            .map(|s| (rollup_ids[s.rid as usize], sub_bytes(s)))
            .collect(),
        deposits: if alt {
            vec![]
        } else {
            spec.deps
                .iter()
                .enumerate()
                .map(|(k, d)| make_deposit(rollup_ids, blk, k, d))
                .collect()
        },
        unix_timestamp: (secs, nanos).into(),
        use_data_items: true,
        with_aspen: false,
        with_extended_commit_info: spec.ext,
    }
    .make();
    let header = block.header().clone();
    let data_hash = *header.data_hash();
    let (meta, rolls) = block.split_for_celestia();
    let mut roll_map = BTreeMap::new();
    for r in rolls {
        let idx = rollup_ids
            .iter()
            .position(|id| *id == r.rollup_id())
            .expect("rollup id of the block is one of the world's") as u8;
        roll_map.insert(idx, r);
    }
    let mut expected: BTreeMap<u8, Vec<Vec<u8>>> = BTreeMap::new();
    for s in subs {
        expected
            .entry(s.rid)
            .or_default()
            .push(expected_rollup_tx(&sub_bytes(s)));
    }
    if !alt {
        // a rollup's deposits follow its sequenced data, in execution order
        for (k, d) in spec.deps.iter().enumerate() {
            let raw_deposit = make_deposit(rollup_ids, blk, k, d).into_raw().encode_to_vec();
            let mut tx = vec![0x12];
            varint(raw_deposit.len() as u64, &mut tx);
            tx.extend_from_slice(&raw_deposit);
            expected.entry(d.rid).or_default().push(tx);
        }
    }
    (
        Variant {
            header,
            hash: [0u8; 32],
            meta: meta.into_unchecked(),
            rolls: roll_map,
            expected,
        },
        data_hash,
    )
}

fn sha(h: [u8; 32]) -> tendermint::Hash {
    tendermint::Hash::Sha256(h)
}

fn set_variant_hash(v: &mut Variant, hash: [u8; 32]) {
    v.hash = hash;
    v.meta.block_hash = block::Hash::new(hash);
    for r in v.rolls.values_mut() {
        let mut u = r.clone().into_unchecked();
        u.sequencer_block_hash = block::Hash::new(hash);
        *r = u.into_celestia_rollup_blob();
    }
}

pub fn validator_infos(keys: &[SigningKey], powers: &[u64]) -> Vec<validator::Info> {
    let mut v = Vec::new();
    for (i, p) in powers.iter().enumerate() {
        if *p > 0 {
            v.push(validator::Info::new(
                tm_pubkey(&keys[i]),
                tendermint::vote::Power::try_from(*p).expect("power fits i64"),
            ));
        }
    }
    v
}

pub struct SignCtx<'a> {
    pub chain_id: &'a str,
    pub height: u64,
    pub round: u16,
    pub hash: [u8; 32],
    pub part_total: u32,
    pub part_hash: [u8; 32],
}

/// Produces the signature bytes of one commit entry. Returns `None` for `SigKind::Empty`.
pub fn make_signature(
    seed: u64,
    keys: &[SigningKey],
    outsiders: &[SigningKey],
    who: u8,
    kind: SigKind,
    ts: u32,
    ctx: &SignCtx<'_>,
    tag: u64,
) -> Option<Vec<u8>> {
    let key_of = |w: u8| -> &SigningKey {
        if (w as usize) < keys.len() {
            &keys[w as usize]
        } else {
            &outsiders[(w as usize - keys.len().min(w as usize)) % outsiders.len()]
        }
    };
    let signer: &SigningKey = if who >= 100 {
        &outsiders[(who - 100) as usize % outsiders.len()]
    } else {
        &keys[who as usize % keys.len()]
    };
    let (secs, nanos) = sig_time(ts);
    let mut f = VoteFields {
        vote_type: 2,
        height: ctx.height as i64,
        round: i64::from(ctx.round),
        block_id: Some((&ctx.hash, ctx.part_total, &ctx.part_hash)),
        secs,
        nanos: nanos as i32,
        chain_id: ctx.chain_id,
    };
    let other_hash = {
        let mut h = ctx.hash;
        h[0] ^= 0xff;
        h
    };
    let sig = match kind {
        SigKind::Empty => return None,
        SigKind::Random => Rng::new(seed).fork(0x5160_0000 + tag).bytes(64),
        SigKind::Valid => signer.sign(&canonical_vote_sign_bytes(&f)).to_bytes().to_vec(),
        SigKind::BitFlip => {
            let mut s = signer.sign(&canonical_vote_sign_bytes(&f)).to_bytes().to_vec();
            s[(tag % 64) as usize] ^= 1 << (tag % 8);
            s
        }
        SigKind::OverOtherHeight => {
            f.height += 1;
            signer.sign(&canonical_vote_sign_bytes(&f)).to_bytes().to_vec()
        }
        SigKind::OverOtherRound => {
            f.round += 1;
            signer.sign(&canonical_vote_sign_bytes(&f)).to_bytes().to_vec()
        }
        SigKind::OverOtherBlockId => {
            f.block_id = Some((&other_hash, ctx.part_total, &ctx.part_hash));
            signer.sign(&canonical_vote_sign_bytes(&f)).to_bytes().to_vec()
        }
        SigKind::OverOtherChain => {
            f.chain_id = "sim-sequencer-2";
            signer.sign(&canonical_vote_sign_bytes(&f)).to_bytes().to_vec()
        }
        SigKind::OverOtherTimestamp => {
            f.secs += 1;
            signer.sign(&canonical_vote_sign_bytes(&f)).to_bytes().to_vec()
        }
        SigKind::OverPrevote => {
            f.vote_type = 1;
            signer.sign(&canonical_vote_sign_bytes(&f)).to_bytes().to_vec()
        }
        SigKind::OverNil => {
            f.block_id = None;
            signer.sign(&canonical_vote_sign_bytes(&f)).to_bytes().to_vec()
        }
        SigKind::ByOtherKey(k) => key_of(k)
            .sign(&canonical_vote_sign_bytes(&f))
            .to_bytes()
            .to_vec(),
    };
    Some(sig)
}

/// True if `kind` yields a signature that verifies for `who` (by construction).
pub fn sig_is_valid_for(who: u8, kind: SigKind, n_keys: usize) -> bool {
    match kind {
        SigKind::Valid => true,
        SigKind::ByOtherKey(k) => who < 100 && (k as usize) < n_keys && k == who,
        _ => false,
    }
}

pub struct BuiltCommit {
    pub commit: Commit,
    pub model: CommitModel,
}

/// Builds the `Commit` of a block from its `Sig` entries and, independently, the reference model's
/// view of it.
pub fn build_commit(
    seed: u64,
    keys: &[SigningKey],
    outsiders: &[SigningKey],
    powers: &[u64],
    entries: &[(usize, u8, u8, SigKind, u32)], // (op index, who, flag, kind, ts)
    ctx: &SignCtx<'_>,
) -> BuiltCommit {
    let mut sigs = Vec::new();
    let mut model = CommitModel {
        total: powers.iter().map(|p| u128::from(*p)).sum(),
        clean: true,
        json_ok: true,
        n_entries: entries.len(),
        ..CommitModel::default()
    };
    let mut seen_valid = vec![false; keys.len()];
    let mut seen_any: Vec<u8> = Vec::new();
    for (op_idx, who, flag, kind, ts) in entries.iter().copied() {
        let member = who < 100 && (who as usize) < powers.len() && powers[who as usize] > 0;
        let address = if who >= 100 {
            tm_address(&outsiders[(who - 100) as usize % outsiders.len()])
        } else {
            tm_address(&keys[who as usize % keys.len()])
        };
        let (secs, nanos) = sig_time(ts);
        let timestamp = tendermint::Time::from_unix_timestamp(secs, nanos).unwrap();
        match flag {
            0 => {
                sigs.push(CommitSig::BlockIdFlagAbsent);
                model.has_nil_or_absent = true;
            }
            1 | 2 => {
                let bytes =
                    make_signature(seed, keys, outsiders, who, kind, ts, ctx, op_idx as u64);
                let signature = match &bytes {
                    None => None,
                    Some(b) => tendermint::Signature::new(b).unwrap(),
                };
                if bytes.is_none() {
                    model.json_ok = false;
                }
                if seen_any.contains(&who) {
                    model.has_duplicate = true;
                    model.clean = false;
                }
                seen_any.push(who);
                if flag == 1 {
                    let valid = sig_is_valid_for(who, kind, keys.len());
                    if !member {
                        model.has_outsider = true;
                        model.clean = false;
                    } else if valid {
                        let p = u128::from(powers[who as usize]);
                        model.with_multiplicity += p;
                        if !seen_valid[who as usize] {
                            seen_valid[who as usize] = true;
                            model.distinct_valid += p;
                        }
                    }
                    if !valid {
                        model.has_forged = true;
                        model.clean = false;
                    }
                    sigs.push(CommitSig::BlockIdFlagCommit {
                        validator_address: address,
                        timestamp,
                        signature,
                    });
                } else {
                    model.has_nil_or_absent = true;
                    if !(member && kind == SigKind::OverNil) {
                        model.clean = false;
                    }
                    sigs.push(CommitSig::BlockIdFlagNil {
                        validator_address: address,
                        timestamp,
                        signature,
                    });
                }
            }
            _ => {}
        }
    }
    let commit = Commit {
        height: tendermint::block::Height::try_from(ctx.height).unwrap(),
        round: ctx.round.into(),
        block_id: tendermint::block::Id {
            hash: sha(ctx.hash),
            part_set_header: tendermint::block::parts::Header::new(
                ctx.part_total,
                sha(ctx.part_hash),
            )
            .unwrap(),
        },
        signatures: sigs,
    };
    BuiltCommit {
        commit,
        model,
    }
}

fn rpc_envelope<T: serde::Serialize>(result: &T) -> String {
    serde_json::json!({"jsonrpc": "2.0", "id": 0, "result": result}).to_string()
}

fn tm_header_for(
    chain_id: &str,
    height: u64,
    time: (i64, u32),
    data_hash: [u8; 32],
    validators: &[validator::Info],
    proposer: account::Id,
) -> tendermint::block::Header {
    // (`validator::Set` refuses totals above CometBFT's maximum, which the simulator does produce;
    // the conductor never looks at this field)
    let vhash = {
        use sha2::Digest as _;
        let mut h = sha2::Sha256::new();
        for v in validators {
            h.update(v.pub_key.to_bytes());
            h.update(v.power().to_le_bytes());
        }
        sha(h.finalize().into())
    };
    tendermint::block::Header {
        version: tendermint::block::header::Version {
            block: 11,
            app: 0,
        },
        chain_id: chain_id.try_into().unwrap(),
        height: tendermint::block::Height::try_from(height).unwrap(),
        time: tendermint::Time::from_unix_timestamp(time.0, time.1).unwrap(),
        last_block_id: None,
        last_commit_hash: None,
        data_hash: Some(sha(data_hash)),
        validators_hash: vhash,
        next_validators_hash: vhash,
        consensus_hash: sha([1u8; 32]),
        app_hash: tendermint::AppHash::try_from(vec![2u8; 32]).unwrap(),
        last_results_hash: None,
        evidence_hash: None,
        proposer_address: proposer,
    }
}

fn hash_bytes(h: tendermint::Hash) -> [u8; 32] {
    let mut out = [0u8; 32];
    out.copy_from_slice(h.as_bytes());
    out
}

fn meta_with_header(
    base: &UncheckedSubmittedMetadata,
    edit: impl FnOnce(&mut raw::SequencerBlockHeader),
) -> raw::SubmittedMetadata {
    let mut r = SubmittedMetadata::try_from_unchecked(base.clone())
        .expect("variant metadata is self-consistent")
        .into_raw();
    if let Some(h) = r.header.as_mut() {
        edit(h);
    }
    r
}

fn raw_meta(u: &UncheckedSubmittedMetadata) -> raw::SubmittedMetadata {
    meta_with_header(u, |_| {})
}

fn posted_header(r: &raw::SubmittedMetadata) -> Option<SequencerBlockHeader> {
    r.header
        .clone()
        .and_then(|h| SequencerBlockHeader::try_from_raw(h).ok())
}

fn arr32(b: &[u8]) -> [u8; 32] {
    let mut out = [0u8; 32];
    if b.len() == 32 {
        out.copy_from_slice(b);
    }
    out
}

impl World {
    pub fn build(sc: &Scenario) -> World {
        self_test_sign_bytes();
        let cfg = &sc.cfg;
        let n_blocks = cfg.blocks.len();
        let keys: Vec<SigningKey> = (0..cfg.n_vals as u64)
            .map(|i| key_from(sc.seed, 0x1000 + i))
            .collect();
        let outsiders: Vec<SigningKey> =
            (0..2u64).map(|i| key_from(sc.seed, 0x2000 + i)).collect();
        let rollup_ids: Vec<RollupId> = (0..=u64::from(cfg.n_other_rollups))
            .map(|i| RollupId::new(Rng::new(sc.seed).fork(0x3000 + i).array32()))
            .collect();
        let rollup_ns = astria_core::celestia::namespace_v0_from_rollup_id(rollup_ids[0]);
        let seq_ns = astria_core::celestia::namespace_v0_from_sha256_of_bytes(CHAIN_ID.as_bytes());

        // ---- blocks, headers, commits --------------------------------------------------------
        let mut blocks: Vec<BlockW> = Vec::new();
        for b in 0..n_blocks {
            let spec: &BlockSpec = &cfg.blocks[b];
            let height = u64::from(cfg.base_height) + b as u64;
            let infos = validator_infos(&keys, &spec.powers);
            let proposer_idx = spec.powers.iter().position(|p| *p > 0).unwrap_or(0);
            let proposer = &keys[proposer_idx];
            let (mut tv, data_hash) = build_variant(sc, &rollup_ids, proposer, b, false, height);
            let (mut av, alt_data_hash) = build_variant(sc, &rollup_ids, proposer, b, true, height);
            let served_height = (height as i64 + i64::from(spec.commit_height_delta)).max(1) as u64;
            let tm_header = tm_header_for(
                CHAIN_ID,
                served_height,
                block_time(cfg, b, false),
                data_hash,
                &infos,
                tm_address(proposer),
            );
            let hash = hash_bytes(tm_header.hash());
            let alt_header = tm_header_for(
                CHAIN_ID,
                height,
                block_time(cfg, b, true),
                alt_data_hash,
                &infos,
                tm_address(proposer),
            );
            let alt_hash = hash_bytes(alt_header.hash());
            set_variant_hash(&mut tv, hash);
            set_variant_hash(&mut av, alt_hash);

            let entries: Vec<(usize, u8, u8, SigKind, u32)> = sc
                .ops
                .iter()
                .enumerate()
                .filter_map(|(i, op)| match op {
                    Op::Sig {
                        blk,
                        who,
                        flag,
                        kind,
                        ts,
                    } if *blk as usize == b => Some((i, *who, *flag, *kind, *ts)),
                    _ => None,
                })
                .collect();
            let part_hash = Rng::new(sc.seed).fork(0x4000 + b as u64).array32();
            let ctx = SignCtx {
                chain_id: CHAIN_ID,
                height: served_height,
                round: spec.round,
                hash,
                part_total: 1,
                part_hash,
            };
            let built = build_commit(sc.seed, &keys, &outsiders, &spec.powers, &entries, &ctx);
            let vheight = (height as i64 + i64::from(spec.valset_height_delta)).max(1) as u64;
            let validators = validators::Response::new(
                tendermint::block::Height::try_from(vheight).unwrap(),
                infos.clone(),
                infos.len() as i32,
            );
            let commit_json = rpc_envelope(&serde_json::json!({
                "signed_header": {"header": &tm_header, "commit": &built.commit},
                "canonical": true,
            }));
            let validators_json = rpc_envelope(&validators);
            blocks.push(BlockW {
                height,
                tv,
                av,
                commit: built.commit,
                tm_header,
                validators,
                commit_json,
                validators_json,
                model: built.model,
            });
        }

        // ---- Celestia heights ----------------------------------------------------------------
        let mut world = World {
            chain_id: CHAIN_ID.to_string(),
            rollup_ids,
            rollup_ns,
            seq_ns,
            keys,
            outsiders,
            blocks,
            celestia: Vec::new(),
            next_firm: u64::from(cfg.base_height) + u64::from(cfg.firm_offset),
            skipped_ops: 0,
            adversarial_posts: 0,
            rollup_tamperings: 0,
            split_mismatch: None,
        };
        for (i, b) in world.blocks.iter().enumerate() {
            for v in [&b.tv, &b.av] {
                let ids_with_data: Vec<u8> = v.expected.keys().copied().collect();
                let ids_in_blobs: Vec<u8> = v.rolls.keys().copied().collect();
                let mut bad = ids_with_data != ids_in_blobs;
                for (rid, r) in &v.rolls {
                    let got: Vec<Vec<u8>> = r.transactions().iter().map(|t| t.to_vec()).collect();
                    if v.expected.get(rid) != Some(&got) {
                        bad = true;
                    }
                }
                if bad && world.split_mismatch.is_none() {
                    world.split_mismatch = Some(format!(
                        "block {i}: rollups with data {ids_with_data:?}, rollup blobs {ids_in_blobs:?}, \
                         or their transactions differ from submissions-then-deposits order"
                    ));
                }
            }
        }
        for c in 0..cfg.n_celestia {
            let cw = world.build_celestia_height(sc, c);
            world.celestia.push(cw);
        }
        world
    }

    pub fn block_index_of_height(&self, h: u64) -> Option<usize> {
        self.blocks.iter().position(|b| b.height == h)
    }

    /// Index of the block whose commit and validators the fake sequencer serves for height `h`.
    pub fn served_index(&self, sc: &Scenario, h: u64) -> Option<usize> {
        let i = self.block_index_of_height(h)?;
        Some(match sc.cfg.blocks[i].serve_other {
            Some(j) if (j as usize) < self.blocks.len() => j as usize,
            _ => i,
        })
    }

    fn genuine_meta_bytes(&self, b: usize) -> Vec<u8> {
        raw_meta(&self.blocks[b].tv.meta).encode_to_vec()
    }

    fn genuine_roll_bytes(&self, b: usize) -> Option<Vec<u8>> {
        self.blocks[b]
            .tv
            .rolls
            .get(&0)
            .map(|r| r.clone().into_raw().encode_to_vec())
    }

    fn build_celestia_height(&mut self, sc: &Scenario, c: u8) -> CelestiaW {
        let n_blocks = self.blocks.len();
        let mut cw = CelestiaW {
            height: sc.cfg.celestia_base + u64::from(c),
            ..CelestiaW::default()
        };
        // (batch id, entries) in order of first appearance; junk blobs interleaved by position
        enum Slot {
            MetaBatch(u8, Vec<(raw::SubmittedMetadata, usize)>),
            RollBatch(u8, Vec<(raw::SubmittedRollupData, usize)>),
            RawHeader(Blob),
            RawRollup(Blob),
        }
        let mut slots: Vec<Slot> = Vec::new();
        for (i, op) in sc.ops.iter().enumerate() {
            match op {
                Op::Delay {
                    c: oc,
                    ms,
                } if *oc == c => cw.start_delay_ms = u64::from(*ms),
                Op::Meta {
                    c: oc,
                    batch,
                    blk,
                    kind,
                    arg,
                } if *oc == c && (*blk as usize) < n_blocks => {
                    let b = *blk as usize;
                    let (raw_entry, base) = self.make_meta(sc, b, *kind, *arg, i);
                    let header = posted_header(&raw_entry);
                    let well_formed = {
                        let e = raw_entry.clone();
                        super::common::catch(move || SubmittedMetadata::try_from_raw(e).is_ok())
                            .unwrap_or(false)
                    };
                    let bytes = raw_entry.encode_to_vec();
                    let genuine_of =
                        (0..n_blocks).find(|j| self.genuine_meta_bytes(*j) == bytes).map(|j| j as u8);
                    if genuine_of.is_none() {
                        self.adversarial_posts += 1;
                    }
                    cw.metas.push(PostedMeta {
                        op: i,
                        c,
                        blk: *blk,
                        kind: *kind,
                        posted_hash: arr32(&raw_entry.block_hash),
                        posted_height: raw_entry.header.as_ref().map(|h| h.height).unwrap_or(0),
                        posted_chain: raw_entry
                            .header
                            .as_ref()
                            .map(|h| h.chain_id.clone())
                            .unwrap_or_default(),
                        header,
                        base,
                        genuine_of,
                        well_formed,
                        in_good_blob: false,
                    });
                    let pos = slots.iter().position(
                        |s| matches!(s, Slot::MetaBatch(id, _) if *id == *batch),
                    );
                    let idx = cw.metas.len() - 1;
                    match pos {
                        Some(p) => {
                            if let Slot::MetaBatch(_, v) = &mut slots[p] {
                                v.push((raw_entry, idx));
                            }
                        }
                        None => slots.push(Slot::MetaBatch(*batch, vec![(raw_entry, idx)])),
                    }
                }
                Op::Roll {
                    c: oc,
                    batch,
                    blk,
                    rid,
                    kind,
                    arg,
                } if *oc == c && (*blk as usize) < n_blocks => {
                    let b = *blk as usize;
                    let Some(raw_entry) = self.make_roll(sc, b, *rid, *kind, *arg, i) else {
                        self.skipped_ops += 1;
                        continue;
                    };
                    let well_formed = {
                        let e = raw_entry.clone();
                        super::common::catch(move || SubmittedRollupData::try_from_raw(e).is_ok())
                            .unwrap_or(false)
                    };
                    let bytes = raw_entry.encode_to_vec();
                    let genuine_of = (0..n_blocks)
                        .find(|j| self.genuine_roll_bytes(*j).as_deref() == Some(&bytes[..]))
                        .map(|j| j as u8);
                    if genuine_of.is_none() {
                        self.adversarial_posts += 1;
                        self.rollup_tamperings += 1;
                    }
                    cw.rolls.push(PostedRoll {
                        op: i,
                        c,
                        blk: *blk,
                        kind: *kind,
                        posted_hash: arr32(&raw_entry.sequencer_block_hash),
                        genuine_of,
                        well_formed,
                        in_good_blob: false,
                    });
                    let idx = cw.rolls.len() - 1;
                    let pos = slots.iter().position(
                        |s| matches!(s, Slot::RollBatch(id, _) if *id == *batch),
                    );
                    match pos {
                        Some(p) => {
                            if let Slot::RollBatch(_, v) = &mut slots[p] {
                                v.push((raw_entry, idx));
                            }
                        }
                        None => slots.push(Slot::RollBatch(*batch, vec![(raw_entry, idx)])),
                    }
                }
                Op::Junk {
                    c: oc,
                    ns,
                    kind,
                    arg,
                } if *oc == c => {
                    self.adversarial_posts += 1;
                    let namespace = if *ns == 0 {
                        self.seq_ns
                    } else {
                        self.rollup_ns
                    };
                    let blob = self.make_junk(sc, namespace, *ns, *kind, *arg, i);
                    if *ns == 0 {
                        slots.push(Slot::RawHeader(blob));
                    } else {
                        slots.push(Slot::RawRollup(blob));
                    }
                }
                _ => {}
            }
        }
        for slot in slots {
            match slot {
                Slot::MetaBatch(_, entries) => {
                    let good = entries.iter().all(|(_, idx)| cw.metas[*idx].well_formed);
                    for (_, idx) in &entries {
                        cw.metas[*idx].in_good_blob = good;
                    }
                    let list = raw::SubmittedMetadataList {
                        entries: entries.into_iter().map(|e| e.0).collect(),
                    };
                    cw.header_blobs.push(pack(self.seq_ns, &list.encode_to_vec()));
                }
                Slot::RollBatch(_, entries) => {
                    let good = entries.iter().all(|(_, idx)| cw.rolls[*idx].well_formed);
                    for (_, idx) in &entries {
                        cw.rolls[*idx].in_good_blob = good;
                    }
                    let list = raw::SubmittedRollupDataList {
                        entries: entries.into_iter().map(|e| e.0).collect(),
                    };
                    cw.rollup_blobs.push(pack(self.rollup_ns, &list.encode_to_vec()));
                }
                Slot::RawHeader(b) => cw.header_blobs.push(b),
                Slot::RawRollup(b) => cw.rollup_blobs.push(b),
            }
        }
        cw
    }

    fn make_meta(
        &self,
        sc: &Scenario,
        b: usize,
        kind: MetaKind,
        arg: u8,
        op_idx: usize,
    ) -> (raw::SubmittedMetadata, (u8, VariantId)) {
        let n = self.blocks.len();
        let blk = &self.blocks[b];
        let mut rng = Rng::new(sc.seed).fork(0x6000_0000 + op_idx as u64);
        match kind {
            MetaKind::Honest => (raw_meta(&blk.tv.meta), (b as u8, VariantId::True)),
            MetaKind::WrongHash => {
                let mut r = raw_meta(&blk.tv.meta);
                let h: [u8; 32] = match arg % 3 {
                    1 => blk.av.hash,
                    2 if n > 1 => self.blocks[(b + 1) % n].tv.hash,
                    _ => rng.array32(),
                };
                r.block_hash = Bytes::copy_from_slice(&h);
                (r, (b as u8, VariantId::True))
            }
            MetaKind::WrongChain => {
                let r = meta_with_header(&blk.tv.meta, |h| {
                    h.chain_id = match arg % 3 {
                        0 => "sim-sequencer-2".to_string(),
                        1 => "SIM-SEQUENCER-1".to_string(),
                        _ => format!("{CHAIN_ID}x"),
                    };
                });
                (r, (b as u8, VariantId::True))
            }
            MetaKind::WrongHeight => {
                let target: u64 = match arg % 6 {
                    0 if n > 1 => self.blocks[(b + 1) % n].height,
                    0 | 1 => self.blocks[n - 1].height + 1 + u64::from(arg),
                    2 => 0,
                    3 => blk.height.saturating_sub(1),
                    4 => u64::from(u32::MAX) + 7,
                    _ => i64::MAX as u64,
                };
                let r = meta_with_header(&blk.tv.meta, |h| h.height = target);
                (r, (b as u8, VariantId::True))
            }
            MetaKind::AltOwn => (raw_meta(&blk.av.meta), (b as u8, VariantId::Alt)),
            MetaKind::AltSquat => {
                let mut r = raw_meta(&blk.av.meta);
                r.block_hash = Bytes::copy_from_slice(&blk.tv.hash);
                (r, (b as u8, VariantId::Alt))
            }
            MetaKind::CrossSquat => {
                let t = (b + 1) % n;
                let target_height = self.blocks[t].height;
                let target_hash = self.blocks[t].tv.hash;
                let mut r = meta_with_header(&blk.tv.meta, |h| h.height = target_height);
                r.block_hash = Bytes::copy_from_slice(&target_hash);
                (r, (b as u8, VariantId::True))
            }
            MetaKind::Malformed => {
                let mut r = raw_meta(&blk.tv.meta);
                match arg % 10 {
                    6 => {
                        // audit path longer than the tree is deep
                        if let Some(p) = r.rollup_transactions_proof.as_mut() {
                            let mut path = p.audit_path.to_vec();
                            path.extend_from_slice(&rng.bytes(32 * (1 + arg as usize % 3)));
                            p.audit_path = path.into();
                        }
                    }
                    7 => {
                        if let Some(p) = r.rollup_ids_proof.as_mut() {
                            p.leaf_index = u64::MAX - u64::from(arg % 2);
                        }
                    }
                    8 => {
                        if let Some(p) = r.rollup_transactions_proof.as_mut() {
                            p.tree_size = if arg % 2 == 0 { u64::MAX } else { 0 };
                        }
                    }
                    9 => {
                        if let Some(p) = r.rollup_ids_proof.as_mut() {
                            let mut path = p.audit_path.to_vec();
                            path.extend_from_slice(&rng.bytes(32 * 70));
                            p.audit_path = path.into();
                        }
                    }
                    0 => r.header = None,
                    1 => r.block_hash = Bytes::copy_from_slice(&blk.tv.hash[..31]),
                    2 => r.rollup_transactions_proof = None,
                    3 => {
                        if let Some(h) = r.header.as_mut() {
                            let mut d = h.data_hash.to_vec();
                            d[0] ^= 1;
                            h.data_hash = d.into();
                        }
                    }
                    4 => {
                        // drop or add a rollup id without repairing the proof
                        if r.rollup_ids.is_empty() {
                            r.rollup_ids.push(RollupId::new([0xEE; 32]).into_raw());
                        } else {
                            r.rollup_ids.pop();
                        }
                    }
                    _ => {
                        if let Some(h) = r.header.as_mut() {
                            let d = h.rollup_transactions_root.to_vec();
                            h.rollup_transactions_root = d[..31].to_vec().into();
                        }
                    }
                }
                (r, (b as u8, VariantId::True))
            }
        }
    }

    fn make_roll(
        &self,
        sc: &Scenario,
        b: usize,
        rid: u8,
        kind: RollKind,
        arg: u8,
        op_idx: usize,
    ) -> Option<raw::SubmittedRollupData> {
        let n = self.blocks.len();
        let blk = &self.blocks[b];
        let mut rng = Rng::new(sc.seed).fork(0x7000_0000 + op_idx as u64);
        let genuine0 = blk.tv.rolls.get(&0).map(|r| r.clone().into_raw());
        Some(match kind {
            RollKind::Honest => genuine0?,
            RollKind::OtherRollup => {
                if rid == 0 {
                    return None;
                }
                blk.tv.rolls.get(&rid)?.clone().into_raw()
            }
            RollKind::WrongProof => {
                let mut r = genuine0?;
                let donor = match if arg >= 4 { 9 } else { arg % 4 } {
                    0 => blk
                        .tv
                        .rolls
                        .iter()
                        .find(|(k, _)| **k != 0)
                        .map(|(_, v)| v.clone().into_raw().proof),
                    1 => self.blocks[(b + 1) % n]
                        .tv
                        .rolls
                        .get(&0)
                        .map(|v| v.clone().into_raw().proof),
                    _ => None,
                };
                match donor {
                    Some(p) => r.proof = p,
                    None if arg >= 4 => {
                        if let Some(p) = r.proof.as_mut() {
                            match arg % 5 {
                                0 => {
                                    let mut path = p.audit_path.to_vec();
                                    path.extend_from_slice(&rng.bytes(32));
                                    p.audit_path = path.into();
                                }
                                1 => {
                                    let mut path = p.audit_path.to_vec();
                                    path.extend_from_slice(&rng.bytes(32 * 66));
                                    p.audit_path = path.into();
                                }
                                2 => p.leaf_index = 1u64 << 63,
                                3 => p.tree_size = u64::MAX,
                                _ => {
                                    let path = p.audit_path.to_vec();
                                    let keep = path.len().saturating_sub(32);
                                    p.audit_path = path[..keep].to_vec().into();
                                }
                            }
                        }
                    }
                    None => {
                        if let Some(p) = r.proof.as_mut() {
                            if arg % 4 == 3 || p.audit_path.is_empty() {
                                p.leaf_index = p.leaf_index.wrapping_add(1);
                            } else {
                                let mut path = p.audit_path.to_vec();
                                let k = rng.below_usize(path.len());
                                path[k] ^= 0x10;
                                p.audit_path = path.into();
                            }
                        }
                    }
                }
                r
            }
            RollKind::OtherBlockHash => {
                let mut r = genuine0?;
                let h: [u8; 32] = match arg % 3 {
                    0 if n > 1 => self.blocks[(b + 1) % n].tv.hash,
                    1 => blk.av.hash,
                    _ => rng.array32(),
                };
                r.sequencer_block_hash = Bytes::copy_from_slice(&h);
                r
            }
            RollKind::Alter => {
                let mut r = genuine0?;
                if r.transactions.is_empty() {
                    r.transactions.push(Bytes::from_static(&[1]));
                } else {
                    let k = arg as usize % r.transactions.len();
                    let mut t = r.transactions[k].to_vec();
                    if t.is_empty() {
                        t.push(1);
                    } else {
                        let j = rng.below_usize(t.len());
                        t[j] ^= 0x01;
                    }
                    r.transactions[k] = t.into();
                }
                r
            }
            RollKind::Reorder => {
                let mut r = genuine0?;
                if r.transactions.len() >= 2 {
                    r.transactions.rotate_left(1);
                }
                r
            }
            RollKind::Truncate => {
                let mut r = genuine0?;
                r.transactions.pop();
                r
            }
            RollKind::Extend => {
                let mut r = genuine0?;
                let extra = if arg % 2 == 0 {
                    r.transactions.first().cloned().unwrap_or_default()
                } else {
                    Bytes::from(rng.bytes(1 + arg as usize))
                };
                if arg % 3 == 0 {
                    r.transactions.insert(0, extra);
                } else {
                    r.transactions.push(extra);
                }
                r
            }
            RollKind::Reattribute => {
                if rid == 0 {
                    let mut r = genuine0?;
                    let other = if self.rollup_ids.len() > 1 {
                        self.rollup_ids[1 + arg as usize % (self.rollup_ids.len() - 1)]
                    } else {
                        RollupId::new(rng.array32())
                    };
                    r.rollup_id = Some(other.into_raw());
                    r
                } else {
                    let mut r = blk.tv.rolls.get(&rid)?.clone().into_raw();
                    r.rollup_id = Some(self.rollup_ids[0].into_raw());
                    r
                }
            }
            RollKind::Alt => {
                let mut r = blk.av.rolls.get(&0)?.clone().into_raw();
                if arg % 2 == 1 {
                    r.sequencer_block_hash = Bytes::copy_from_slice(&blk.tv.hash);
                }
                r
            }
            RollKind::Cross => {
                let mut r = genuine0?;
                r.sequencer_block_hash =
                    Bytes::copy_from_slice(&self.blocks[(b + 1) % n].tv.hash);
                r
            }
            RollKind::Malformed => {
                let mut r = match genuine0 {
                    Some(r) => r,
                    None => raw::SubmittedRollupData {
                        sequencer_block_hash: Bytes::copy_from_slice(&blk.tv.hash),
                        rollup_id: Some(self.rollup_ids[0].into_raw()),
                        transactions: vec![],
                        proof: None,
                    },
                };
                match arg % 5 {
                    0 => r.rollup_id = None,
                    1 => r.sequencer_block_hash = Bytes::copy_from_slice(&blk.tv.hash[..31]),
                    2 => r.proof = None,
                    3 => {
                        if let Some(p) = r.proof.as_mut() {
                            let mut path = p.audit_path.to_vec();
                            path.push(7);
                            p.audit_path = path.into();
                        } else {
                            r.rollup_id = None;
                        }
                    }
                    _ => {
                        if let Some(id) = r.rollup_id.as_mut() {
                            let inner = id.inner.to_vec();
                            id.inner = inner[..31].to_vec().into();
                        }
                    }
                }
                r
            }
        })
    }

    fn make_junk(
        &self,
        sc: &Scenario,
        namespace: Namespace,
        ns: u8,
        kind: JunkKind,
        arg: u16,
        op_idx: usize,
    ) -> Blob {
        let mut rng = Rng::new(sc.seed).fork(0x8000_0000 + op_idx as u64);
        let honest_list: Vec<u8> = if ns == 0 {
            raw::SubmittedMetadataList {
                entries: vec![raw_meta(&self.blocks[0].tv.meta)],
            }
            .encode_to_vec()
        } else {
            raw::SubmittedRollupDataList {
                entries: self.blocks[0]
                    .tv
                    .rolls
                    .get(&0)
                    .map(|r| vec![r.clone().into_raw()])
                    .unwrap_or_default(),
            }
            .encode_to_vec()
        };
        match kind {
            JunkKind::NotBrotli => raw_blob(namespace, rng.bytes(1 + arg as usize)),
            JunkKind::BrotliOfGarbage => {
                raw_blob(namespace, compress_bytes(&rng.bytes(1 + arg as usize)).unwrap())
            }
            JunkKind::Empty => {
                let mut b = raw_blob(namespace, vec![0]);
                b.data = Vec::new();
                b
            }
            JunkKind::TruncatedBrotli => {
                let mut data = compress_bytes(&honest_list).unwrap();
                let keep = (arg as usize % data.len().max(1)).max(1).min(data.len());
                data.truncate(keep.saturating_sub(1).max(1));
                raw_blob(namespace, data)
            }
            JunkKind::WrongNamespace => {
                let other = astria_core::celestia::namespace_v0_from_sha256_of_bytes(
                    rng.bytes(8),
                );
                raw_blob(other, compress_bytes(&honest_list).unwrap())
            }
            JunkKind::EmptyList => raw_blob(namespace, compress_bytes(&[]).unwrap()),
        }
    }
}

fn raw_blob(namespace: Namespace, data: Vec<u8>) -> Blob {
    Blob::new(namespace, data, celestia_types::AppVersion::V3).expect("blob")
}

/// Relayer encoding: protobuf list -> brotli -> blob in the namespace.
fn pack(namespace: Namespace, encoded_list: &[u8]) -> Blob {
    raw_blob(namespace, compress_bytes(encoded_list).expect("brotli"))
}

pub fn total_within_comet_bound(total: u128) -> bool {
    total <= u128::from(COMET_MAX_TOTAL)
}
