//! conductor-verify engine (stub for first build)
#![allow(dead_code, unreachable_pub, clippy::all, clippy::pedantic)]

#[path = "/verif/harness/common/mod.rs"]
pub(crate) mod common;

#[path = "/verif/harness/conductor_verify/simclient.rs"]
mod simclient;
pub(crate) use simclient::SimClient;

#[test]
fn verif_main() {
    let Some(job) = common::read_job() else {
        return;
    };
    panic!("unknown engine {}", job.engine);
}
