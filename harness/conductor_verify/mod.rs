//! Engine `conductor-verify`: the firm-data path of astria-conductor (Celestia blobs -> decode ->
//! verify against sequencer commits -> reconstruct) under deterministic simulation.
//!
//! Mounted inside `astria_conductor::celestia::verify` (see the hook at the end of `verify.rs`).
//!
//! Profiles:
//!   * `default` - C09: adversarial namespace contents, adversarial commits, RPC faults, several
//!     Celestia heights in flight concurrently;
//!   * `c07`     - C07 receiver clause: honest commits, every kind of tampering of rollup data;
//!   * `enum`    - C09: exhaustive enumeration of the commit space of small validator sets against
//!     `ensure_commit_has_quorum`.
#![allow(dead_code, unreachable_pub, unused_imports, clippy::all, clippy::pedantic)]

#[path = "/verif/harness/common/mod.rs"]
pub(crate) mod common;

#[path = "/verif/harness/conductor_verify/enumrun.rs"]
mod enumrun;
#[path = "/verif/harness/conductor_verify/pipeline.rs"]
mod pipeline;
#[path = "/verif/harness/conductor_verify/scenario.rs"]
mod scenario;
#[path = "/verif/harness/conductor_verify/simclient.rs"]
mod simclient;
#[path = "/verif/harness/conductor_verify/world.rs"]
mod world;

use std::collections::BTreeMap;

use scenario::{
    Op,
    Scenario,
};
pub(crate) use simclient::SimClient;

pub struct ConductorVerify;

impl common::Engine for ConductorVerify {
    type Scenario = Scenario;

    const NAME: &'static str = "conductor-verify";

    fn generate(profile: &str, tier: &str, seed: u64) -> Scenario {
        scenario::generate(profile, tier, seed)
    }

    fn run(sc: &Scenario) -> common::Outcome {
        if sc.profile == "enum" {
            enumrun::run(sc)
        } else {
            pipeline::run(sc)
        }
    }

    fn len(sc: &Scenario) -> usize {
        sc.ops.len()
    }

    fn retain(sc: &Scenario, keep: &[bool]) -> Scenario {
        let mut out = sc.clone();
        out.ops = sc
            .ops
            .iter()
            .zip(keep.iter())
            .filter(|(_, k)| **k)
            .map(|(op, _)| op.clone())
            .collect();
        out
    }

    fn simplify(sc: &Scenario) -> Vec<Scenario> {
        let mut out = Vec::new();
        if sc.profile == "enum" {
            return out;
        }
        let cfg = &sc.cfg;
        if cfg.lat_max_ms != 0 {
            let mut s = sc.clone();
            s.cfg.lat_max_ms = 0;
            out.push(s);
        }
        if cfg.rps != 1000 {
            let mut s = sc.clone();
            s.cfg.rps = 1000;
            out.push(s);
        }
        if cfg.firm_offset != 0 {
            let mut s = sc.clone();
            s.cfg.firm_offset = 0;
            out.push(s);
        }
        // drop the last block if nothing refers to it
        if cfg.blocks.len() > 1 {
            let last = (cfg.blocks.len() - 1) as u8;
            let referenced = sc.ops.iter().any(|op| match op {
                Op::Sig {
                    blk, ..
                }
                | Op::Meta {
                    blk, ..
                }
                | Op::Roll {
                    blk, ..
                }
                | Op::Rpc {
                    blk, ..
                } => *blk == last,
                _ => false,
            }) || cfg.blocks.iter().any(|b| b.serve_other == Some(last));
            if !referenced {
                let mut s = sc.clone();
                s.cfg.blocks.pop();
                out.push(s);
            }
        }
        // everything onto one Celestia height
        if cfg.n_celestia > 1 {
            let mut s = sc.clone();
            s.cfg.n_celestia = 1;
            for op in &mut s.ops {
                match op {
                    Op::Meta {
                        c, ..
                    }
                    | Op::Roll {
                        c, ..
                    }
                    | Op::Junk {
                        c, ..
                    }
                    | Op::Delay {
                        c, ..
                    } => *c = 0,
                    _ => {}
                }
            }
            out.push(s);
        }
        for (bi, b) in cfg.blocks.iter().enumerate() {
            if b.round != 0 {
                let mut s = sc.clone();
                s.cfg.blocks[bi].round = 0;
                out.push(s);
            }
            if b.ext {
                let mut s = sc.clone();
                s.cfg.blocks[bi].ext = false;
                out.push(s);
            }
            if b.subs.len() > 1 {
                let mut s = sc.clone();
                s.cfg.blocks[bi].subs.pop();
                out.push(s);
            }
            if !b.alt_subs.is_empty() {
                let mut s = sc.clone();
                s.cfg.blocks[bi].alt_subs.pop();
                out.push(s);
            }
            for (si, sub) in b.subs.iter().enumerate() {
                if sub.len > 1 {
                    let mut s = sc.clone();
                    s.cfg.blocks[bi].subs[si].len = 1;
                    out.push(s);
                }
            }
            // smaller powers with the same shape
            if b.powers.iter().any(|p| *p > 9) {
                let mut s = sc.clone();
                for p in &mut s.cfg.blocks[bi].powers {
                    if *p > 9 {
                        *p = 1 + *p % 9;
                    }
                }
                out.push(s);
            }
        }
        for (i, op) in sc.ops.iter().enumerate() {
            if let Op::Delay {
                c,
                ms,
            } = op
            {
                if *ms != 0 {
                    let mut s = sc.clone();
                    s.ops[i] = Op::Delay {
                        c: *c,
                        ms: 0,
                    };
                    out.push(s);
                }
            }
        }
        out
    }

    fn summarize(sc: &Scenario) -> serde_json::Value {
        let mut kinds: BTreeMap<String, u64> = BTreeMap::new();
        for op in &sc.ops {
            *kinds.entry(pipeline::op_kind_name(op)).or_default() += 1;
        }
        let blocks: Vec<serde_json::Value> = sc
            .cfg
            .blocks
            .iter()
            .take(4)
            .map(|b| {
                serde_json::json!({
                    "powers": b.powers, "subs": b.subs.len(), "round": b.round,
                    "dh": b.commit_height_delta, "vh": b.valset_height_delta,
                    "serve_other": b.serve_other,
                })
            })
            .collect();
        serde_json::json!({
            "profile": sc.profile,
            "vals": sc.cfg.n_vals, "other_rollups": sc.cfg.n_other_rollups,
            "base_height": sc.cfg.base_height, "firm_offset": sc.cfg.firm_offset,
            "rps": sc.cfg.rps, "celestia_heights": sc.cfg.n_celestia,
            "lat_max_ms": sc.cfg.lat_max_ms,
            "blocks": blocks,
            "ops": sc.ops.len(),
            "op_kinds": kinds,
            "first_ops": sc.ops.iter().take(if sc.profile == "enum" { 2 } else { 8 }).collect::<Vec<_>>(),
        })
    }
}

#[test]
fn verif_main() {
    let Some(job) = common::read_job() else {
        return;
    };
    match job.engine.as_str() {
        "conductor-verify" => common::engine_main::<ConductorVerify>(&job),
        other => panic!("unknown engine {other}"),
    }
}
