//! Scenario types (config + symbolic op list) and the seeded generator.
//!
//! Everything random is drawn here. Ops refer to blocks, validators, rollups and Celestia heights
//! by stable index so that each op keeps its meaning when other ops are removed.

use serde::{
    Deserialize,
    Serialize,
};

use super::common::Rng;

#[derive(Serialize, Deserialize, Clone, Debug)]
pub struct Scenario {
    pub profile: String,
    /// Seeds key material and per-request latency sub-streams.
    pub seed: u64,
    pub cfg: Config,
    pub ops: Vec<Op>,
}

#[derive(Serialize, Deserialize, Clone, Debug)]
pub struct Config {
    /// Number of validator keys (1..=7).
    pub n_vals: u8,
    /// Rollups other than the conductor's (rollup index 0 is the conductor's).
    pub n_other_rollups: u8,
    /// Sequencer height of block 0; block i has height base_height + i.
    pub base_height: u32,
    /// next expected firm sequencer height = base_height + firm_offset.
    pub firm_offset: u8,
    /// `sequencer_requests_per_second` handed to the real `BlobVerifier`.
    pub rps: u32,
    pub n_celestia: u8,
    pub celestia_base: u64,
    /// Upper bound of the per-request latency the fake sequencer draws (virtual ms).
    pub lat_max_ms: u32,
    pub blocks: Vec<BlockSpec>,
}

#[derive(Serialize, Deserialize, Clone, Debug)]
pub struct Sub {
    /// Rollup index (0 = conductor's rollup).
    pub rid: u8,
    pub len: u16,
    pub fill: u8,
}

#[derive(Serialize, Deserialize, Clone, Debug)]
pub struct Dep {
    pub rid: u8,
    pub amount: u64,
}

#[derive(Serialize, Deserialize, Clone, Debug)]
pub struct BlockSpec {
    /// Rollup data submissions of the committed block, in block order.
    pub subs: Vec<Sub>,
    /// Bridge deposits of the committed block, in execution order.
    #[serde(default)]
    pub deps: Vec<Dep>,
    /// Contents of the adversary's alternative block for the same height.
    pub alt_subs: Vec<Sub>,
    pub ext: bool,
    /// Voting power per validator key (0 = not in the set at this height).
    pub powers: Vec<u64>,
    pub round: u16,
    /// Served commit (and header) carry height + delta.
    pub commit_height_delta: i8,
    /// Served validator set carries block_height + delta.
    pub valset_height_delta: i8,
    /// The fake sequencer answers requests for this height with block j's commit and validators.
    pub serve_other: Option<u8>,
}

#[derive(Serialize, Deserialize, Clone, Copy, Debug, PartialEq, Eq)]
pub enum SigKind {
    /// Signed by the named key over the canonical precommit of the served commit.
    Valid,
    /// 64 PRNG bytes.
    Random,
    /// Valid signature with one bit flipped.
    BitFlip,
    OverOtherHeight,
    OverOtherRound,
    OverOtherBlockId,
    OverOtherChain,
    OverOtherTimestamp,
    /// Prevote instead of precommit.
    OverPrevote,
    /// Signed over nil block id (what a nil vote carries).
    OverNil,
    /// Signed by another key (arg = key index) but attributed to `who`.
    ByOtherKey(u8),
    /// No signature at all (only reachable by direct call; JSON-RPC decoding rejects it).
    Empty,
}

#[derive(Serialize, Deserialize, Clone, Copy, Debug, PartialEq, Eq)]
pub enum MetaKind {
    Honest,
    /// True metadata, block hash replaced (arg: 0 random, 1 alt block's hash, 2 next block's hash).
    WrongHash,
    /// True metadata and hash, chain id in the header replaced.
    WrongChain,
    /// True metadata and hash, header height replaced (arg selects the target height).
    WrongHeight,
    /// The adversary's self-consistent alternative block under its own hash.
    AltOwn,
    /// The adversary's self-consistent alternative block claiming the committed hash.
    AltSquat,
    /// True header of block `blk` re-labelled with another block's height and committed hash.
    CrossSquat,
    /// Entry that does not survive `try_from_raw` (arg selects the defect).
    Malformed,
}

#[derive(Serialize, Deserialize, Clone, Copy, Debug, PartialEq, Eq)]
pub enum RollKind {
    Honest,
    /// Another rollup's genuine blob (rollup index `rid`) posted into the conductor's namespace.
    OtherRollup,
    /// Genuine data, proof replaced (arg: 0 other rollup's, 1 other block's, 2 path bit flip,
    /// 3 leaf index shifted).
    WrongProof,
    /// Genuine blob re-labelled with another block hash (arg: 0 next block, 1 alt hash, 2 random).
    OtherBlockHash,
    Alter,
    Reorder,
    Truncate,
    Extend,
    /// Genuine blob of rollup `rid` with the rollup-id field rewritten (to the conductor's id if
    /// rid != 0, to another id if rid == 0).
    Reattribute,
    /// The alternative block's data for the conductor's rollup (arg: 0 own hash, 1 committed hash).
    Alt,
    /// Genuine blob of block `blk` re-labelled with the hash of block `blk + 1` (pairs with
    /// `MetaKind::CrossSquat`).
    Cross,
    Malformed,
}

#[derive(Serialize, Deserialize, Clone, Copy, Debug, PartialEq, Eq)]
pub enum JunkKind {
    NotBrotli,
    BrotliOfGarbage,
    Empty,
    TruncatedBrotli,
    /// A well-formed honest batch, but the blob carries a foreign namespace.
    WrongNamespace,
    /// Valid brotli of a valid protobuf list with zero entries.
    EmptyList,
}

#[derive(Serialize, Deserialize, Clone, Copy, Debug, PartialEq, Eq)]
pub enum RpcFault {
    /// The first `n` requests fail with a retryable transport error (timeout).
    RetryTimeout(u8),
    /// The first `n` requests fail with a retryable HTTP status error.
    RetryHttp(u8),
    /// Request number `k` (0-based) fails with a non-retryable error.
    Fatal(u8),
    /// Every request takes `ms` longer.
    Slow(u32),
}

#[derive(Serialize, Deserialize, Clone, Debug, PartialEq, Eq)]
pub enum Op {
    /// One entry of `commit.signatures` of block `blk`. `who` < 100: validator key index;
    /// `who` >= 100: outsider key. flag: 0 absent, 1 commit, 2 nil.
    Sig {
        blk: u8,
        who: u8,
        flag: u8,
        kind: SigKind,
        ts: u32,
    },
    /// Metadata entry posted to the sequencer namespace at Celestia height index `c`; entries
    /// with equal (c, batch) share one blob.
    Meta {
        c: u8,
        batch: u8,
        blk: u8,
        kind: MetaKind,
        arg: u8,
    },
    /// Rollup-data entry posted to the conductor's rollup namespace.
    Roll {
        c: u8,
        batch: u8,
        blk: u8,
        rid: u8,
        kind: RollKind,
        arg: u8,
    },
    /// A raw blob that is not a well-formed batch. ns: 0 sequencer namespace, 1 rollup namespace.
    Junk {
        c: u8,
        ns: u8,
        kind: JunkKind,
        arg: u16,
    },
    /// RPC fault on the fake sequencer. method: 0 commit, 1 validators.
    Rpc {
        blk: u8,
        method: u8,
        fault: RpcFault,
    },
    /// The per-height task of Celestia height `c` starts `ms` after the run starts.
    Delay {
        c: u8,
        ms: u32,
    },
    /// `enum` profile: one enumerated commit. Base-5 digit per validator (0 absent, 1 nil,
    /// 2 valid, 3 valid twice, 4 forged) and a final base-3 digit (0 nothing, 1 outsider entry,
    /// 2 member entry without signature).
    EnumCommit {
        code: u32,
    },
}

pub const MAX_POWER: u64 = i64::MAX as u64;
/// CometBFT's `MaxTotalVotingPower`.
pub const COMET_MAX_TOTAL: u64 = (i64::MAX / 8) as u64;

#[derive(Clone, Copy)]
struct Swarm {
    adv_meta: bool,
    adv_roll: bool,
    junk: bool,
    commit_faults: bool,
    boundary: bool,
    edge_powers: bool,
    rpc_retry: bool,
    rpc_fatal: bool,
    rpc_slow: bool,
    delays: bool,
    serve_other: bool,
    height_delta: bool,
    dup_posts: bool,
    shuffle: bool,
    squat: bool,
    replay: bool,
}

fn gen_subs(rng: &mut Rng, n_other: u8, want_r0: bool, fill_base: u8) -> Vec<Sub> {
    let mut subs = Vec::new();
    let n = rng.below(6) as usize;
    for k in 0..n {
        let rid = if n_other == 0 || rng.chance(1, 2) {
            0
        } else {
            1 + rng.below(u64::from(n_other)) as u8
        };
        let len = match rng.below(10) {
            0 => 0,
            1 => 1,
            2..=7 => 1 + rng.below(40) as u16,
            _ => 100 + rng.below(900) as u16,
        };
        // duplicates: reuse the previous payload now and then
        let fill = if k > 0 && rng.chance(1, 6) {
            subs.last().map(|s: &Sub| s.fill).unwrap_or(fill_base)
        } else {
            fill_base.wrapping_add(rng.below(50) as u8)
        };
        subs.push(Sub {
            rid,
            len,
            fill,
        });
    }
    if want_r0 && !subs.iter().any(|s| s.rid == 0) {
        subs.push(Sub {
            rid: 0,
            len: 1 + rng.below(30) as u16,
            fill: fill_base,
        });
    }
    subs
}

/// Splits `total` into `n` positive parts (n >= 1, total >= n).
fn compose(rng: &mut Rng, total: u64, n: usize) -> Vec<u64> {
    assert!(n >= 1 && total >= n as u64);
    let mut parts = vec![1u64; n];
    let mut rest = total - n as u64;
    for i in 0..n {
        if i == n - 1 {
            parts[i] += rest;
        } else {
            let take = if rest == 0 {
                0
            } else if rng.chance(1, 3) {
                rng.range(0, rest)
            } else {
                rng.range(0, rest / (n - i) as u64 * 2)
                    .min(rest)
            };
            parts[i] += take;
            rest -= take;
        }
    }
    rng.shuffle(&mut parts);
    parts
}

/// Chooses powers for the member set and the subset of members that sign validly, aiming the
/// signed power at the 2/3 boundary.
fn gen_powers_and_signers(
    rng: &mut Rng,
    n_vals: usize,
    mode: u8,
    sw: &Swarm,
) -> (Vec<u64>, Vec<bool>) {
    // members
    let mut member = vec![false; n_vals];
    let n_members = 1 + rng.below(n_vals as u64) as usize;
    let mut idx: Vec<usize> = (0..n_vals).collect();
    rng.shuffle(&mut idx);
    for &i in idx.iter().take(n_members) {
        member[i] = true;
    }
    let members: Vec<usize> = (0..n_vals).filter(|i| member[*i]).collect();
    let mut powers = vec![0u64; n_vals];
    let mut signs = vec![false; n_vals];
    match mode {
        // honest: everybody (or a comfortable majority) signs
        0 => {
            for &i in &members {
                powers[i] = if sw.edge_powers && rng.chance(1, 4) {
                    COMET_MAX_TOTAL / members.len() as u64 - rng.below(3)
                } else {
                    1 + rng.below(20)
                };
                signs[i] = true;
            }
            // optionally let a small minority be absent while keeping a clear quorum
            if members.len() >= 4 && rng.chance(1, 2) {
                let total: u128 = members.iter().map(|i| u128::from(powers[*i])).sum();
                let victim = *rng.pick(&members);
                let rest = total - u128::from(powers[victim]);
                if 3 * rest > 2 * total + 3 {
                    signs[victim] = false;
                }
            }
        }
        // boundary: signed power p = floor(2t/3) + delta
        1 => {
            let n_sign = 1 + rng.below(members.len() as u64) as usize;
            let n_rest = members.len() - n_sign;
            let t: u64 = match rng.below(if sw.edge_powers { 6 } else { 3 }) {
                0 => rng.range(members.len() as u64, 12.max(members.len() as u64)),
                1 => rng.range(members.len() as u64 + 3, 200),
                2 => rng.range(1000, 1_000_000),
                3 => COMET_MAX_TOTAL - rng.below(4),
                4 => MAX_POWER - rng.below(4),
                _ => u64::MAX - rng.below(4),
            };
            let t = t.max(members.len() as u64);
            let q = (u128::from(t) * 2 / 3) as u64;
            let delta: i64 = *rng.pick(&[-1i64, 0, 0, 0, 1, 1, 2, -2]);
            let mut p = if delta < 0 {
                q.saturating_sub(delta.unsigned_abs())
            } else {
                q.saturating_add(delta as u64)
            };
            let lo = n_sign as u64;
            let hi = t - n_rest as u64;
            if n_rest == 0 {
                p = t;
            }
            p = p.clamp(lo, hi.max(lo));
            let sp = compose(rng, p, n_sign);
            let rp = if n_rest > 0 {
                compose(rng, t - p, n_rest)
            } else {
                Vec::new()
            };
            let mut order = members.clone();
            rng.shuffle(&mut order);
            for (k, &i) in order.iter().enumerate() {
                if k < n_sign {
                    powers[i] = sp[k].min(MAX_POWER);
                    signs[i] = true;
                } else {
                    powers[i] = rp[k - n_sign].min(MAX_POWER);
                }
            }
        }
        // random small
        _ => {
            for &i in &members {
                powers[i] = match rng.below(8) {
                    0 if sw.edge_powers => MAX_POWER - rng.below(2),
                    1 if sw.edge_powers => MAX_POWER / 2 + rng.below(3),
                    _ => 1 + rng.below(6),
                };
                signs[i] = rng.chance(2, 3);
            }
        }
    }
    (powers, signs)
}

fn forged_kind(rng: &mut Rng, n_vals: u8) -> SigKind {
    match rng.below(10) {
        0 => SigKind::Random,
        1 => SigKind::BitFlip,
        2 => SigKind::OverOtherHeight,
        3 => SigKind::OverOtherRound,
        4 => SigKind::OverOtherBlockId,
        5 => SigKind::OverOtherChain,
        6 => SigKind::OverOtherTimestamp,
        7 => SigKind::OverPrevote,
        8 => SigKind::OverNil,
        _ => SigKind::ByOtherKey(rng.below(u64::from(n_vals) + 2) as u8),
    }
}

pub fn generate(profile: &str, tier: &str, seed: u64) -> Scenario {
    match profile {
        "enum" => generate_enum(seed),
        "c07" => generate_pipeline(profile, tier, seed, true),
        _ => generate_pipeline(profile, tier, seed, false),
    }
}

fn generate_pipeline(profile: &str, tier: &str, seed: u64, c07: bool) -> Scenario {
    let mut rng = Rng::new(seed);
    let thorough = tier == "thorough";
    let mut flag = |num: u64, den: u64| rng.chance(num, den);
    let sw = if c07 {
        Swarm {
            adv_meta: flag(1, 3),
            adv_roll: true,
            junk: flag(1, 3),
            commit_faults: false,
            boundary: false,
            edge_powers: false,
            rpc_retry: false,
            rpc_fatal: false,
            rpc_slow: flag(1, 2),
            delays: flag(1, 2),
            serve_other: false,
            height_delta: false,
            dup_posts: flag(1, 2),
            shuffle: flag(2, 3),
            squat: flag(1, 6),
            replay: flag(1, 3),
        }
    } else {
        Swarm {
            adv_meta: flag(3, 4),
            adv_roll: flag(2, 3),
            junk: flag(1, 2),
            commit_faults: flag(2, 3),
            boundary: flag(3, 4),
            edge_powers: flag(1, 3),
            rpc_retry: flag(1, 2),
            rpc_fatal: flag(1, 4),
            rpc_slow: flag(1, 2),
            delays: flag(2, 3),
            serve_other: flag(1, 8),
            height_delta: flag(1, 6),
            dup_posts: flag(1, 2),
            shuffle: flag(2, 3),
            squat: flag(1, 8),
            replay: flag(1, 3),
        }
    };
    let n_vals = (*rng.pick(&[1u8, 1, 2, 2, 3, 3, 3, 4, 4, 4, 5, 5, 6, 7])).max(1);
    let n_other_rollups = if c07 {
        1 + rng.below(3) as u8
    } else {
        rng.below(4) as u8
    };
    let n_blocks = 1 + rng.below(if thorough { 6 } else { 4 }) as usize;
    let n_celestia = 1 + rng.below(if thorough { 4 } else { 3 }) as u8;
    let base_height = match rng.below(6) {
        0 => 1,
        1 => 2 + rng.below(5) as u32,
        _ => 10 + rng.below(100_000) as u32,
    };
    let mut cfg = Config {
        n_vals,
        n_other_rollups,
        base_height,
        firm_offset: if !c07 && rng.chance(1, 8) {
            rng.below(n_blocks as u64) as u8
        } else {
            0
        },
        rps: *rng.pick(&[1u32, 2, 3, 5, 10, 100, 1000]),
        n_celestia,
        celestia_base: 1 + rng.below(1_000_000),
        lat_max_ms: *rng.pick(&[0u32, 3, 40, 400, 2500]),
        blocks: Vec::new(),
    };
    let mut ops: Vec<Op> = Vec::new();

    // ---- blocks and their commits ------------------------------------------------------------
    for b in 0..n_blocks {
        let want_r0 = if c07 { true } else { rng.chance(3, 4) };
        let subs = gen_subs(&mut rng, n_other_rollups, want_r0, 0x10);
        let alt_r0 = rng.chance(3, 4);
        let alt_subs = gen_subs(&mut rng, n_other_rollups, alt_r0, 0x90);
        let mode: u8 = if c07 {
            0
        } else {
            let w_boundary = if sw.boundary { 35 } else { 0 };
            [0u8, 1, 2][rng.weighted(&[45, w_boundary, 20])]
        };
        let (powers, signs) = gen_powers_and_signers(&mut rng, n_vals as usize, mode, &sw);
        let mut deps = Vec::new();
        if rng.chance(1, 3) {
            for _ in 0..1 + rng.below(3) {
                deps.push(Dep {
                    rid: rng.below(u64::from(n_other_rollups) + 1) as u8,
                    amount: 1 + rng.below(1_000_000),
                });
            }
        }
        let mut spec = BlockSpec {
            subs,
            deps,
            alt_subs,
            ext: rng.chance(1, 2),
            powers: powers.clone(),
            round: if rng.chance(1, 4) {
                rng.below(5) as u16
            } else {
                0
            },
            commit_height_delta: 0,
            valset_height_delta: 0,
            serve_other: None,
        };
        if sw.height_delta && rng.chance(1, 5) {
            let d = *rng.pick(&[-1i8, 1, 2]);
            match rng.below(3) {
                0 => spec.commit_height_delta = d,
                1 => spec.valset_height_delta = d,
                _ => {
                    spec.commit_height_delta = d;
                    spec.valset_height_delta = d;
                }
            }
        }
        if sw.serve_other && n_blocks > 1 && rng.chance(1, 4) {
            let mut j = rng.below(n_blocks as u64) as u8;
            if j as usize == b {
                j = ((b + 1) % n_blocks) as u8;
            }
            spec.serve_other = Some(j);
        }
        cfg.blocks.push(spec);

        // signature entries in validator order (then optionally perturbed)
        let mut sigs: Vec<Op> = Vec::new();
        let faulty = sw.commit_faults && mode != 0 && rng.chance(2, 3);
        for v in 0..n_vals as usize {
            if powers[v] == 0 {
                // non-member: sometimes shows up anyway
                if faulty && rng.chance(1, 10) {
                    sigs.push(Op::Sig {
                        blk: b as u8,
                        who: v as u8,
                        flag: 1,
                        kind: SigKind::Valid,
                        ts: rng.below(1000) as u32,
                    });
                }
                continue;
            }
            let ts = rng.below(1000) as u32;
            if signs[v] {
                sigs.push(Op::Sig {
                    blk: b as u8,
                    who: v as u8,
                    flag: 1,
                    kind: SigKind::Valid,
                    ts,
                });
                if faulty && rng.chance(1, 5) {
                    // duplicate entry (same or fresh timestamp)
                    let n_dup = 1 + rng.below(2);
                    for _ in 0..n_dup {
                        sigs.push(Op::Sig {
                            blk: b as u8,
                            who: v as u8,
                            flag: 1,
                            kind: SigKind::Valid,
                            ts: if rng.chance(1, 2) {
                                ts
                            } else {
                                rng.below(1000) as u32
                            },
                        });
                    }
                }
            } else {
                let choice = if faulty {
                    rng.weighted(&[30, 25, 35, 10])
                } else {
                    rng.weighted(&[60, 40, 0, 0])
                };
                match choice {
                    0 => sigs.push(Op::Sig {
                        blk: b as u8,
                        who: v as u8,
                        flag: 0,
                        kind: SigKind::Valid,
                        ts: 0,
                    }),
                    1 => sigs.push(Op::Sig {
                        blk: b as u8,
                        who: v as u8,
                        flag: 2,
                        kind: if rng.chance(3, 4) {
                            SigKind::OverNil
                        } else {
                            SigKind::Valid
                        },
                        ts,
                    }),
                    2 => sigs.push(Op::Sig {
                        blk: b as u8,
                        who: v as u8,
                        flag: 1,
                        kind: forged_kind(&mut rng, n_vals),
                        ts,
                    }),
                    _ => {}
                }
            }
        }
        if faulty && rng.chance(1, 6) {
            sigs.push(Op::Sig {
                blk: b as u8,
                who: 100 + rng.below(2) as u8,
                flag: 1,
                kind: if rng.chance(1, 2) {
                    SigKind::Valid
                } else {
                    forged_kind(&mut rng, n_vals)
                },
                ts: rng.below(1000) as u32,
            });
        }
        if rng.chance(1, 4) {
            rng.shuffle(&mut sigs);
        }
        ops.extend(sigs);
    }

    // ---- Celestia posts ----------------------------------------------------------------------
    // honest relayer: blocks in order, non-decreasing Celestia height, one batch per height
    let mut posts: Vec<Vec<Op>> = vec![Vec::new(); n_celestia as usize];
    let mut c_of_block = Vec::new();
    let mut c_cur = 0u8;
    for b in 0..n_blocks {
        if b > 0 && c_cur + 1 < n_celestia && rng.chance(1, 2) {
            c_cur += 1 + rng.below(u64::from(n_celestia - c_cur - 1).max(1)) as u8;
            c_cur = c_cur.min(n_celestia - 1);
        }
        c_of_block.push(c_cur);
        // a block the relayer never published (rare)
        if !c07 && rng.chance(1, 15) {
            continue;
        }
        posts[c_cur as usize].push(Op::Meta {
            c: c_cur,
            batch: 0,
            blk: b as u8,
            kind: MetaKind::Honest,
            arg: 0,
        });
        if cfg.blocks[b].subs.iter().any(|s| s.rid == 0) {
            // very rarely the rollup blob is missing or lands one height later
            let roll_c = if !c07 && c_cur + 1 < n_celestia && rng.chance(1, 20) {
                c_cur + 1
            } else {
                c_cur
            };
            if c07 || !rng.chance(1, 25) {
                posts[roll_c as usize].push(Op::Roll {
                    c: roll_c,
                    batch: 0,
                    blk: b as u8,
                    rid: 0,
                    kind: RollKind::Honest,
                    arg: 0,
                });
            }
        }
    }
    // adversarial posts
    let mut next_batch = vec![1u8; n_celestia as usize];
    let n_adv = if sw.adv_meta || sw.adv_roll {
        rng.below(if thorough { 10 } else { 7 }) as usize
    } else {
        0
    };
    for _ in 0..n_adv {
        let b = rng.below(n_blocks as u64) as u8;
        let c = if rng.chance(2, 3) {
            c_of_block[b as usize]
        } else {
            rng.below(u64::from(n_celestia)) as u8
        };
        let batch = {
            let nb = &mut next_batch[c as usize];
            if *nb > 1 && rng.chance(1, 4) {
                1 + rng.below(u64::from(*nb - 1)) as u8
            } else {
                let v = *nb;
                *nb = nb.saturating_add(1);
                v
            }
        };
        let meta_turn = if sw.adv_meta && sw.adv_roll {
            rng.chance(1, 2)
        } else {
            sw.adv_meta
        };
        if meta_turn {
            let mut kinds = vec![
                (MetaKind::WrongHash, 30u32),
                (MetaKind::WrongChain, 15),
                (MetaKind::WrongHeight, 20),
                (MetaKind::AltOwn, 20),
                (MetaKind::Malformed, 8),
                (MetaKind::Honest, 8),
            ];
            if sw.squat {
                kinds.push((MetaKind::AltSquat, 25));
                kinds.push((MetaKind::CrossSquat, 10));
            }
            let w: Vec<u32> = kinds.iter().map(|k| k.1).collect();
            let kind = kinds[rng.weighted(&w)].0;
            posts[c as usize].push(Op::Meta {
                c,
                batch,
                blk: b,
                kind,
                arg: rng.below(12) as u8,
            });
            // a forged header usually comes with matching forged data
            if matches!(kind, MetaKind::AltOwn | MetaKind::AltSquat) && rng.chance(3, 4) {
                posts[c as usize].push(Op::Roll {
                    c,
                    batch,
                    blk: b,
                    rid: 0,
                    kind: RollKind::Alt,
                    arg: u8::from(kind == MetaKind::AltSquat),
                });
            }
            if kind == MetaKind::CrossSquat && rng.chance(3, 4) {
                posts[c as usize].push(Op::Roll {
                    c,
                    batch,
                    blk: b,
                    rid: 0,
                    kind: RollKind::Cross,
                    arg: 0,
                });
            }
        } else {
            let kinds = [
                (RollKind::OtherRollup, 25u32),
                (RollKind::WrongProof, 15),
                (RollKind::OtherBlockHash, 12),
                (RollKind::Alter, 10),
                (RollKind::Reorder, 8),
                (RollKind::Truncate, 8),
                (RollKind::Extend, 8),
                (RollKind::Reattribute, 12),
                (RollKind::Alt, 6),
                (RollKind::Malformed, 6),
                (RollKind::Honest, 6),
            ];
            let w: Vec<u32> = kinds.iter().map(|k| k.1).collect();
            let kind = kinds[rng.weighted(&w)].0;
            let rid = match kind {
                RollKind::OtherRollup if n_other_rollups > 0 => {
                    1 + rng.below(u64::from(n_other_rollups)) as u8
                }
                RollKind::Reattribute => rng.below(u64::from(n_other_rollups) + 1) as u8,
                _ => 0,
            };
            posts[c as usize].push(Op::Roll {
                c,
                batch,
                blk: b,
                rid,
                kind,
                arg: rng.below(12) as u8,
            });
        }
    }
    // replays of older honest blobs at a later Celestia height
    if sw.replay && n_celestia > 1 {
        for _ in 0..1 + rng.below(2) {
            let b = rng.below(n_blocks as u64) as u8;
            let c0 = c_of_block[b as usize];
            if c0 + 1 < n_celestia {
                let c = c0 + 1 + rng.below(u64::from(n_celestia - c0 - 1)) as u8;
                let batch = next_batch[c as usize];
                next_batch[c as usize] = batch.saturating_add(1);
                posts[c as usize].push(Op::Meta {
                    c,
                    batch,
                    blk: b,
                    kind: MetaKind::Honest,
                    arg: 0,
                });
                if rng.chance(2, 3) {
                    posts[c as usize].push(Op::Roll {
                        c,
                        batch,
                        blk: b,
                        rid: 0,
                        kind: RollKind::Honest,
                        arg: 0,
                    });
                }
            }
        }
    }
    if sw.junk {
        for _ in 0..1 + rng.below(3) {
            let c = rng.below(u64::from(n_celestia)) as u8;
            let kind = *rng.pick(&[
                JunkKind::NotBrotli,
                JunkKind::BrotliOfGarbage,
                JunkKind::Empty,
                JunkKind::TruncatedBrotli,
                JunkKind::WrongNamespace,
                JunkKind::EmptyList,
            ]);
            posts[c as usize].push(Op::Junk {
                c,
                ns: rng.below(2) as u8,
                kind,
                arg: rng.below(300) as u16,
            });
        }
    }
    for c in 0..n_celestia as usize {
        if sw.dup_posts && !posts[c].is_empty() && rng.chance(1, 3) {
            let k = rng.below_usize(posts[c].len());
            let mut dup = posts[c][k].clone();
            // the duplicate travels in its own blob
            let batch = next_batch[c];
            next_batch[c] = batch.saturating_add(1);
            match &mut dup {
                Op::Meta {
                    batch: b, ..
                }
                | Op::Roll {
                    batch: b, ..
                } => *b = batch,
                _ => {}
            }
            posts[c].push(dup);
        }
        if sw.shuffle && rng.chance(1, 2) {
            rng.shuffle(&mut posts[c]);
        }
        ops.extend(posts[c].drain(..));
    }

    // ---- RPC faults and task start offsets ---------------------------------------------------
    for b in 0..n_blocks as u8 {
        for method in 0..2u8 {
            if sw.rpc_retry && rng.chance(1, 4) {
                let n = 1 + rng.below(4) as u8;
                ops.push(Op::Rpc {
                    blk: b,
                    method,
                    fault: if rng.chance(1, 2) {
                        RpcFault::RetryTimeout(n)
                    } else {
                        RpcFault::RetryHttp(n)
                    },
                });
            }
            if sw.rpc_fatal && rng.chance(1, 6) {
                ops.push(Op::Rpc {
                    blk: b,
                    method,
                    fault: RpcFault::Fatal(rng.below(3) as u8),
                });
            }
            if sw.rpc_slow && rng.chance(1, 4) {
                ops.push(Op::Rpc {
                    blk: b,
                    method,
                    fault: RpcFault::Slow(*rng.pick(&[10u32, 200, 1500, 12_000, 60_000])),
                });
            }
        }
    }
    if sw.delays {
        for c in 0..n_celestia {
            if rng.chance(2, 3) {
                ops.push(Op::Delay {
                    c,
                    ms: *rng.pick(&[1u32, 10, 100, 700, 3000, 20_000]) + rng.below(50) as u32,
                });
            }
        }
    }

    Scenario {
        profile: profile.to_string(),
        seed,
        cfg,
        ops,
    }
}

fn generate_enum(seed: u64) -> Scenario {
    let mut rng = Rng::new(seed);
    let n_vals = *rng.pick(&[1u8, 2, 2, 3, 3, 3, 4, 4]);
    let mut powers = Vec::new();
    let style = rng.below(6);
    for _ in 0..n_vals {
        powers.push(match style {
            0 | 1 | 2 => 1 + rng.below(5),
            3 => 1 + rng.below(40),
            4 => COMET_MAX_TOTAL / u64::from(n_vals) - rng.below(4),
            _ => {
                // u64-edge: the total may overflow u64
                if rng.chance(1, 2) {
                    MAX_POWER - rng.below(3)
                } else {
                    MAX_POWER / 2 - rng.below(3)
                }
            }
        });
    }
    let cfg = Config {
        n_vals,
        n_other_rollups: 0,
        base_height: 1 + rng.below(1_000_000) as u32,
        firm_offset: 0,
        rps: 1,
        n_celestia: 0,
        celestia_base: 0,
        lat_max_ms: 0,
        blocks: vec![BlockSpec {
            subs: Vec::new(),
            deps: Vec::new(),
            alt_subs: Vec::new(),
            ext: false,
            powers,
            round: rng.below(3) as u16,
            commit_height_delta: 0,
            valset_height_delta: 0,
            serve_other: None,
        }],
    };
    let n_codes = 5u32.pow(u32::from(n_vals)) * 3;
    let ops = (0..n_codes)
        .map(|code| Op::EnumCommit {
            code,
        })
        .collect();
    Scenario {
        profile: "enum".to_string(),
        seed,
        cfg,
        ops,
    }
}
