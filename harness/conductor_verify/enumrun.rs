//! Profile `enum`: for one validator set (<= 4 validators, powers from the seed) every commit of
//! the space {absent, nil, valid, valid twice, forged}^n x {-, non-member entry, entry without
//! signature} is handed to the real `ensure_commit_has_quorum` and compared with the reference
//! model (exact u128 arithmetic over distinct validators with valid signatures).

use sequencer_client::{
    tendermint,
    tendermint_rpc::endpoint::validators,
};

use super::{
    common::{
        self,
        Outcome,
        Rng,
        Stats,
        Trace,
        Violations,
    },
    scenario::{
        Op,
        Scenario,
        SigKind,
    },
    world::{
        build_commit,
        key_from,
        self_test_sign_bytes,
        total_within_comet_bound,
        validator_infos,
        SignCtx,
        CHAIN_ID,
    },
};
use crate::celestia::block_verifier::ensure_commit_has_quorum;

pub fn decode(code: u32, n: usize) -> (Vec<u8>, u8) {
    let mut digits = Vec::with_capacity(n);
    let mut c = code;
    for _ in 0..n {
        digits.push((c % 5) as u8);
        c /= 5;
    }
    (digits, (c % 3) as u8)
}

pub fn run(sc: &Scenario) -> Outcome {
    self_test_sign_bytes();
    let mut trace = Trace::new();
    let mut stats = Stats::default();
    let mut violations = Violations::default();
    let cfg = &sc.cfg;
    let n = cfg.n_vals as usize;
    let spec = &cfg.blocks[0];
    let keys: Vec<_> = (0..n as u64).map(|i| key_from(sc.seed, 0x1000 + i)).collect();
    let outsiders: Vec<_> = (0..2u64).map(|i| key_from(sc.seed, 0x2000 + i)).collect();
    let height = u64::from(cfg.base_height);
    let hash = Rng::new(sc.seed).fork(0x4100).array32();
    let part_hash = Rng::new(sc.seed).fork(0x4000).array32();
    let ctx = SignCtx {
        chain_id: CHAIN_ID,
        height,
        round: spec.round,
        hash,
        part_total: 1,
        part_hash,
    };
    let infos = validator_infos(&keys, &spec.powers);
    let valset = validators::Response::new(
        tendermint::block::Height::try_from(height).unwrap(),
        infos.clone(),
        infos.len() as i32,
    );
    let chain_id: tendermint::chain::Id = CHAIN_ID.try_into().unwrap();
    let total: u128 = spec.powers.iter().map(|p| u128::from(*p)).sum();
    trace.ev(&format!("enum n={n} powers={:?} total={total} round={}", spec.powers, spec.round));
    trace.abs(&format!("enum n={n} mod3={} powers={:?}", total % 3, {
        let mut p = spec.powers.clone();
        p.sort_unstable();
        p
    }));
    stats.probe(&format!("enum.total-mod3-{}", total % 3));
    if total > u128::from(u64::MAX) {
        stats.probe("enum.total-overflows-u64");
    }
    let mut near = false;
    let mut accepted = 0u64;
    let mut rejected = 0u64;
    let (mut seen_dup, mut seen_forged, mut seen_outsider, mut seen_nil) = (0u64, 0u64, 0u64, 0u64);
    for (opi, op) in sc.ops.iter().enumerate() {
        let Op::EnumCommit {
            code,
        } = op
        else {
            continue;
        };
        let (digits, extra) = decode(*code, n);
        // entries: (op index used as sub-stream tag, who, flag, kind, ts)
        let mut entries: Vec<(usize, u8, u8, SigKind, u32)> = Vec::new();
        for (v, d) in digits.iter().enumerate() {
            let tag = (*code as usize) * 16 + v;
            let ts = 10 * v as u32;
            match d {
                0 => entries.push((tag, v as u8, 0, SigKind::Valid, 0)),
                1 => entries.push((tag, v as u8, 2, SigKind::OverNil, ts)),
                2 => entries.push((tag, v as u8, 1, SigKind::Valid, ts)),
                3 => {
                    entries.push((tag, v as u8, 1, SigKind::Valid, ts));
                    entries.push((tag + 8, v as u8, 1, SigKind::Valid, ts + 1));
                }
                _ => {
                    let kinds = [
                        SigKind::Random,
                        SigKind::BitFlip,
                        SigKind::OverOtherHeight,
                        SigKind::OverOtherRound,
                        SigKind::OverOtherBlockId,
                        SigKind::OverOtherChain,
                        SigKind::OverOtherTimestamp,
                        SigKind::OverPrevote,
                        SigKind::OverNil,
                        SigKind::ByOtherKey(((v + 1) % (n + 1)) as u8),
                    ];
                    let k = kinds[(*code as usize + v) % kinds.len()];
                    entries.push((tag, v as u8, 1, k, ts));
                }
            }
        }
        match extra {
            1 => entries.push(((*code as usize) * 16 + 14, 100, 1, SigKind::Valid, 77)),
            2 => entries.push(((*code as usize) * 16 + 15, 0, 1, SigKind::Empty, 78)),
            _ => {}
        }
        let built = build_commit(sc.seed, &keys, &outsiders, &spec.powers, &entries, &ctx);
        let m = &built.model;
        seen_dup += u64::from(m.has_duplicate);
        seen_forged += u64::from(m.has_forged);
        seen_outsider += u64::from(m.has_outsider);
        seen_nil += u64::from(m.has_nil_or_absent);
        if m.near_boundary() {
            near = true;
            stats.probe("enum.commit-within-one-unit-of-two-thirds");
        }
        let res = common::catch(|| ensure_commit_has_quorum(&built.commit, &valset, &chain_id));
        let verdict = match &res {
            Ok(Ok(())) => "ok".to_string(),
            Ok(Err(e)) => format!("err:{}", error_class(&e.to_string())),
            Err(_) => "panic".to_string(),
        };
        trace.ev(&format!(
            "commit {code} valid={} mult={} quorum={} clean={} -> {verdict}",
            m.distinct_valid,
            m.with_multiplicity,
            m.quorum(),
            m.clean
        ));
        stats.probe("enum.commits");
        match res {
            Err(msg) => violations.push(
                "C09",
                "pipeline-continues",
                "panic-in-ensure-commit-has-quorum",
                opi as u64,
                format!("commit code {code}: {msg}"),
            ),
            Ok(Ok(())) => {
                accepted += 1;
                if !m.quorum() {
                    let sig = if m.has_duplicate && 3 * m.with_multiplicity > 2 * m.total {
                        "duplicate-signer-entries-counted"
                    } else if m.total % 3 == 2 && m.distinct_valid == m.q() && m.total >= 3 {
                        "power-at-floor-two-thirds-total-mod3-is-2"
                    } else if m.has_forged {
                        "below-two-thirds-with-forged-entries"
                    } else {
                        "below-two-thirds"
                    };
                    violations.push(
                        "C09",
                        "commit-quorum",
                        sig,
                        opi as u64,
                        format!(
                            "ensure_commit_has_quorum accepted commit code {code} (digits {digits:?}, \
                             extra {extra}) with powers {:?}: distinct valid power {} of {} \
                             (with multiplicity {})",
                            spec.powers, m.distinct_valid, m.total, m.with_multiplicity
                        ),
                    );
                }
            }
            Ok(Err(e)) => {
                rejected += 1;
                if m.clean && m.quorum() && total_within_comet_bound(m.total) {
                    violations.push(
                        "C09",
                        "honest-commit-accepted",
                        "clean-quorum-commit-rejected",
                        opi as u64,
                        format!(
                            "ensure_commit_has_quorum rejected clean commit code {code} with powers \
                             {:?}: valid power {} of {}: {e}",
                            spec.powers, m.distinct_valid, m.total
                        ),
                    );
                }
            }
        }
    }
    trace.abs(&format!("acc={accepted} rej={rejected}"));
    for (flag, name) in [
        (seen_dup, "commit.duplicate-entry"),
        (seen_forged, "commit.forged-signature"),
        (seen_outsider, "commit.non-member-entry"),
        (seen_nil, "commit.nil-or-absent"),
    ] {
        if flag > 0 {
            *stats.faults.entry(name.to_string()).or_default() += flag;
        }
    }
    if near {
        stats.mark_nontrivial("C09");
    }
    stats.steps = sc.ops.len() as u64;
    stats.sim_ms = 0;
    stats.finish(&trace);
    Outcome {
        violations: violations.list,
        stats,
        trace_lines: trace.lines,
    }
}

fn error_class(msg: &str) -> &'static str {
    if msg.contains("less than 2/3") {
        "no-quorum"
    } else if msg.contains("greater than total") {
        "exceeds-total"
    } else if msg.contains("not in validator set") {
        "no-such-validator"
    } else if msg.contains("empty signature") {
        "empty-signature"
    } else if msg.contains("overflowed") {
        "total-overflow"
    } else if msg.contains("verify vote signature") {
        "bad-signature"
    } else {
        "other"
    }
}
