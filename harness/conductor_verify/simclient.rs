//! Fake sequencer CometBFT JSON-RPC endpoint.
//!
//! `SimClient` implements `tendermint_rpc::Client::perform`: the request is serialised to its
//! JSON-RPC form, method and height are read from it (the random request id is ignored and never
//! logged), the simulator decides latency / error / answer from the scenario, sleeps on the paused
//! tokio clock and answers with a JSON-RPC document that goes through the ordinary
//! `Response::from_string` decoding of tendermint-rpc.

use std::{
    collections::BTreeMap,
    sync::{
        Arc,
        Mutex,
    },
    time::Duration,
};

use sequencer_client::tendermint_rpc::{
    self,
    request::RequestMessage as _,
    Response as _,
    SimpleRequest,
};

use super::common::{
    Rng,
    Stats,
    Trace,
};

#[derive(Clone, Debug, Default)]
pub(crate) struct FaultPlan {
    /// first n requests fail with a retryable timeout
    pub retry_timeout: u32,
    /// first n requests fail with a retryable HTTP status
    pub retry_http: u32,
    /// request numbers (0-based) that fail with a non-retryable error
    pub fatal_at: Vec<u32>,
    pub slow_ms: u64,
}

#[derive(Default)]
pub(crate) struct Net {
    pub seed: u64,
    pub lat_max_ms: u64,
    /// (method, height) -> JSON-RPC response document
    pub answers: BTreeMap<(u8, u64), String>,
    /// (method, height) -> fault plan
    pub faults: BTreeMap<(u8, u64), FaultPlan>,
    /// (method, height) -> number of requests seen
    pub seen: BTreeMap<(u8, u64), u32>,
    /// heights for which a non-retryable error was returned
    pub fatal_fired: Vec<u64>,
    pub highest_height: u64,
    pub trace: Trace,
    pub stats: Stats,
    pub started: Option<tokio::time::Instant>,
    pub requests: u64,
}

impl Net {
    pub fn now_ms(&self) -> u64 {
        self.started
            .map(|s| (tokio::time::Instant::now() - s).as_millis() as u64)
            .unwrap_or(0)
    }

    pub fn ev(&mut self, line: &str) {
        let t = self.now_ms();
        self.trace.ev(&format!("t={t} {line}"));
    }
}

#[derive(Clone)]
pub(crate) struct SimClient {
    net: Option<Arc<Mutex<Net>>>,
}

enum Decision {
    Answer(String),
    RetryTimeout,
    RetryHttp,
    Fatal,
    UnknownHeight(u64),
    UnknownMethod(String),
}

impl SimClient {
    /// Used only by the hook in `RunningReader::from_parts` so that the crate compiles in the
    /// harness build; a client made this way answers every request with an error.
    pub(crate) fn from_http(_client: sequencer_client::HttpClient) -> Self {
        SimClient {
            net: None,
        }
    }

    pub(crate) fn new(net: Arc<Mutex<Net>>) -> Self {
        SimClient {
            net: Some(net),
        }
    }
}

fn method_code(name: &str) -> Option<u8> {
    match name {
        "commit" => Some(0),
        "validators" => Some(1),
        _ => None,
    }
}

#[async_trait::async_trait]
impl tendermint_rpc::Client for SimClient {
    async fn perform<R>(&self, request: R) -> Result<R::Output, tendermint_rpc::Error>
    where
        R: SimpleRequest,
    {
        let Some(net) = self.net.clone() else {
            return Err(tendermint_rpc::Error::server(
                "no simulation attached".to_string(),
            ));
        };
        let method_name = request.method().to_string();
        let json: serde_json::Value =
            serde_json::from_str(&request.into_json()).expect("request serialises to JSON");
        let height: u64 = json["params"]["height"]
            .as_str()
            .and_then(|s| s.parse().ok())
            .or_else(|| json["params"]["height"].as_u64())
            .unwrap_or(0);

        let (decision, latency_ms) = {
            let mut n = net.lock().unwrap();
            n.requests += 1;
            let Some(m) = method_code(&method_name) else {
                n.ev(&format!("rpc {method_name} -> unknown-method"));
                return Err(tendermint_rpc::Error::method_not_found(method_name));
            };
            let k = {
                let e = n.seen.entry((m, height)).or_default();
                let k = *e;
                *e += 1;
                k
            };
            let plan = n.faults.get(&(m, height)).cloned().unwrap_or_default();
            let mut lat = if n.lat_max_ms > 0 {
                Rng::new(n.seed)
                    .fork(0x9000_0000 ^ (u64::from(m) << 56) ^ (height << 8) ^ u64::from(k))
                    .range(0, n.lat_max_ms)
            } else {
                0
            };
            lat += plan.slow_ms;
            if plan.slow_ms > 0 {
                n.stats.fault("rpc.slow");
            }
            let decision = if !n.answers.contains_key(&(m, height)) {
                Decision::UnknownHeight(n.highest_height)
            } else if plan.fatal_at.contains(&k) {
                Decision::Fatal
            } else if k < plan.retry_timeout {
                Decision::RetryTimeout
            } else if k < plan.retry_timeout + plan.retry_http {
                Decision::RetryHttp
            } else {
                Decision::Answer(n.answers[&(m, height)].clone())
            };
            let what = match &decision {
                Decision::Answer(_) => "answer",
                Decision::RetryTimeout => {
                    n.stats.fault("rpc.retryable-timeout");
                    // a timeout takes its time
                    lat += 5_000;
                    "retryable-timeout"
                }
                Decision::RetryHttp => {
                    n.stats.fault("rpc.retryable-http-status");
                    "retryable-http"
                }
                Decision::Fatal => {
                    n.stats.fault("rpc.fatal-error");
                    n.fatal_fired.push(height);
                    "fatal"
                }
                Decision::UnknownHeight(_) => {
                    n.stats.probe("rpc.unknown-height");
                    "unknown-height"
                }
                Decision::UnknownMethod(_) => "unknown-method",
            };
            if lat > 0 {
                n.stats.fault("rpc.latency");
            }
            n.ev(&format!("rpc {method_name} h={height} k={k} -> {what} lat={lat}"));
            (decision, lat)
        };
        if latency_ms > 0 {
            tokio::time::sleep(Duration::from_millis(latency_ms)).await;
        }
        {
            let mut n = net.lock().unwrap();
            n.ev(&format!("rpc-done {method_name} h={height}"));
        }
        match decision {
            Decision::Answer(doc) => R::Response::from_string(doc).map(Into::into),
            Decision::RetryTimeout => Err(tendermint_rpc::Error::timeout(Duration::from_secs(5))),
            // the status type (http 0.2 via reqwest) cannot be named from this crate; infer it
            Decision::RetryHttp => Err(tendermint_rpc::Error::http_request_failed(
                502u16.try_into().expect("valid status"),
            )),
            Decision::Fatal => Err(tendermint_rpc::Error::server(
                "injected non-retryable failure".to_string(),
            )),
            Decision::UnknownHeight(cur) => {
                let doc = serde_json::json!({
                    "jsonrpc": "2.0",
                    "id": 0,
                    "error": {
                        "code": -32603,
                        "message": "Internal error",
                        "data": format!(
                            "height {height} must be less than or equal to the current blockchain height {cur}"
                        ),
                    }
                })
                .to_string();
                R::Response::from_string(doc).map(Into::into)
            }
            Decision::UnknownMethod(m) => Err(tendermint_rpc::Error::method_not_found(m)),
        }
    }
}
