//! Fake sequencer CometBFT JSON-RPC client (stub for first build).
use sequencer_client::tendermint_rpc::{
    self,
    SimpleRequest,
};

#[derive(Clone)]
pub(crate) struct SimClient;

impl SimClient {
    pub(crate) fn from_http(_client: sequencer_client::HttpClient) -> Self {
        SimClient
    }
}

#[async_trait::async_trait]
impl tendermint_rpc::Client for SimClient {
    async fn perform<R>(&self, _request: R) -> Result<R::Output, tendermint_rpc::Error>
    where
        R: SimpleRequest,
    {
        Err(tendermint_rpc::Error::server("no simulation attached".to_string()))
    }
}
