//! Deterministic generation of real `SequencerBlock`s plus the harness's own expectation of what
//! every rollup's data in that block is (C12 / C07 statement: payloads of that rollup's data
//! submissions in block order, followed by that rollup's deposits).
//!
//! A block is a pure function of `(BlockCfg, height)`, so ops in a scenario never have to carry
//! block contents and deleting ops never changes a block.

use astria_core::{
    crypto::SigningKey,
    primitive::v1::{
        Address,
        RollupId,
        TransactionId,
    },
    protocol::test_utils::ConfigureSequencerBlock,
    sequencerblock::v1::{
        block::{
            self,
            Deposit,
            RollupData,
        },
        SequencerBlock,
    },
    Protobuf as _,
};
use prost::Message as _;
use serde::{
    Deserialize,
    Serialize,
};
use sha2::{
    Digest as _,
    Sha256,
};

use super::common::Rng;

pub(crate) const SEQUENCER_CHAIN_ID: &str = "sim-sequencer-1";

/// How block contents are drawn. Everything is a function of `seed` and the height.
#[derive(Serialize, Deserialize, Clone, Debug, PartialEq, Eq)]
pub(crate) struct BlockCfg {
    pub seed: u64,
    /// Number of distinct rollups that may appear (1..=6). Rollup `i` has id sha256("rollup-i").
    pub n_rollups: u8,
    /// 0 = tiny payloads, 1 = small, 2 = medium (some kB), 3 = large incompressible (reaches the
    /// 1 MB limit within a few blocks).
    pub size_class: u8,
    /// Heights whose block alone exceeds the payload limit (incompressible payload > 1 MB).
    pub oversized: Vec<u64>,
    /// Per-mille chance that a block carries no rollup data at all.
    pub empty_permille: u16,
    /// Per-mille chance per block of deposits being present.
    pub deposit_permille: u16,
}

/// The harness's description of one block; the oracle's expectation is derived from this and
/// never from the relayer's output.
#[derive(Clone, Debug)]
pub(crate) struct BlockSpec {
    pub height: u64,
    pub block_hash: [u8; 32],
    /// `(rollup index, payload)` in transaction order.
    pub sequence_data: Vec<(u8, Vec<u8>)>,
    /// `(rollup index, amount, source action index)` in execution order.
    pub deposits: Vec<(u8, u128, u64)>,
}

pub(crate) fn rollup_id(idx: u8) -> RollupId {
    RollupId::new(Sha256::digest(format!("verif-rollup-{idx}").as_bytes()).into())
}

fn bridge_address(idx: u8) -> Address {
    Address::builder()
        .array([idx.wrapping_add(1); 20])
        .prefix("astria")
        .try_build()
        .expect("valid address")
}

pub(crate) fn spec(cfg: &BlockCfg, height: u64) -> BlockSpec {
    let mut rng = Rng::new(cfg.seed).fork(0xB10C_0000_0000 ^ height);
    let mut block_hash = [0u8; 32];
    block_hash.copy_from_slice(&Sha256::digest(
        [&b"verif-block"[..], &cfg.seed.to_le_bytes(), &height.to_le_bytes()].concat(),
    ));
    let n_rollups = cfg.n_rollups.clamp(1, 6);
    let mut sequence_data = Vec::new();
    let mut deposits = Vec::new();

    if cfg.oversized.contains(&height) {
        // one incompressible payload that alone exceeds the 1 MB compressed limit by a clear margin
        let extra = 2_000 + rng.below(40_000) as usize;
        sequence_data.push((rng.below(u64::from(n_rollups)) as u8, rng.bytes(1_000_000 + extra)));
        return BlockSpec {
            height,
            block_hash,
            sequence_data,
            deposits,
        };
    }

    let empty = rng.below(1000) < u64::from(cfg.empty_permille);
    if !empty {
        let n_items = match cfg.size_class {
            0 => rng.range(1, 3),
            1 => rng.range(1, 6),
            2 => rng.range(1, 8),
            _ => rng.range(1, 3),
        };
        let mut last: Option<Vec<u8>> = None;
        for _ in 0..n_items {
            let r = rng.below(u64::from(n_rollups)) as u8;
            let kind = rng.below(10);
            let payload = if kind == 0 {
                Vec::new() // empty payload
            } else if kind == 1 && last.is_some() {
                last.clone().unwrap() // duplicate payload (same or other rollup)
            } else {
                let len = match cfg.size_class {
                    0 => rng.range(1, 24),
                    1 => rng.range(1, 300),
                    2 => rng.range(100, 6_000),
                    // at most 3 items: the whole block stays clearly below the 1 MB limit
                    _ => rng.range(40_000, 280_000),
                } as usize;
                if cfg.size_class >= 3 || rng.chance(1, 2) {
                    rng.bytes(len) // incompressible
                } else {
                    vec![(height % 251) as u8; len] // highly compressible
                }
            };
            last = Some(payload.clone());
            sequence_data.push((r, payload));
        }
    }
    if rng.below(1000) < u64::from(cfg.deposit_permille) {
        let n = rng.range(1, 3);
        for i in 0..n {
            let r = rng.below(u64::from(n_rollups)) as u8;
            deposits.push((r, u128::from(rng.next_u64()) + 1, i));
        }
    }
    BlockSpec {
        height,
        block_hash,
        sequence_data,
        deposits,
    }
}

fn make_deposit(spec: &BlockSpec, r: u8, amount: u128, index: u64) -> Deposit {
    Deposit {
        bridge_address: bridge_address(r),
        rollup_id: rollup_id(r),
        amount,
        asset: "nria".parse().expect("valid denom"),
        destination_chain_address: format!("dest-{}-{}", spec.height, index),
        source_transaction_id: TransactionId::new(spec.block_hash),
        source_action_index: index,
    }
}

/// Builds the real block through the public astria-core builder.
pub(crate) fn build(spec: &BlockSpec) -> SequencerBlock {
    let height = u32::try_from(spec.height).expect("heights stay below 2^32 in simulation");
    ConfigureSequencerBlock {
        block_hash: Some(block::Hash::new(spec.block_hash)),
        chain_id: Some(SEQUENCER_CHAIN_ID.to_string()),
        height,
        proposer_address: None,
        // fixed key: `None` would draw from the OS RNG
        signing_key: Some(SigningKey::from([7u8; 32])),
        sequence_data: spec
            .sequence_data
            .iter()
            .map(|(r, data)| (rollup_id(*r), data.clone()))
            .collect(),
        deposits: spec
            .deposits
            .iter()
            .map(|(r, amount, index)| make_deposit(spec, *r, *amount, *index))
            .collect(),
        ..ConfigureSequencerBlock::default()
    }
    .make()
}

/// What the property says rollup `r`'s data in this block is, as the wire bytes a receiver sees:
/// the payloads of its data submissions in block order, then its deposits. `None` if the rollup
/// has nothing in this block.
pub(crate) fn expected_rollup_data(spec: &BlockSpec, r: u8) -> Option<Vec<Vec<u8>>> {
    let mut out: Vec<Vec<u8>> = spec
        .sequence_data
        .iter()
        .filter(|(idx, _)| *idx == r)
        .map(|(_, data)| {
            RollupData::SequencedData(data.clone().into())
                .into_raw()
                .encode_to_vec()
        })
        .collect();
    out.extend(
        spec.deposits
            .iter()
            .filter(|(idx, ..)| *idx == r)
            .map(|(idx, amount, index)| {
                RollupData::Deposit(Box::new(make_deposit(spec, *idx, *amount, *index)))
                    .into_raw()
                    .encode_to_vec()
            }),
    );
    if out.is_empty() {
        None
    } else {
        Some(out)
    }
}

/// Rollup indexes that have data in the block (sorted).
pub(crate) fn rollups_present(spec: &BlockSpec) -> Vec<u8> {
    let mut v: Vec<u8> = spec
        .sequence_data
        .iter()
        .map(|(r, _)| *r)
        .chain(spec.deposits.iter().map(|(r, ..)| *r))
        .collect();
    v.sort_unstable();
    v.dedup();
    v
}

/// Lower bound of incompressible bytes in the block (used only to classify "clearly oversized").
pub(crate) fn raw_payload_bytes(spec: &BlockSpec) -> usize {
    spec.sequence_data.iter().map(|(_, d)| d.len()).sum()
}

/// True if the block at `height` is one of the configured oversized ones *and* the rollup that
/// carries its single > 1 MB incompressible payload passes the filter (a filtered-out payload is
/// not part of the submission, so the block is then small).
pub(crate) fn oversized_effective(cfg: &BlockCfg, filter: &[u8], height: u64) -> bool {
    if !cfg.oversized.contains(&height) {
        return false;
    }
    let s = spec(cfg, height);
    s.sequence_data
        .iter()
        .any(|(r, data)| data.len() > 1_000_000 && (filter.is_empty() || filter.contains(r)))
}
