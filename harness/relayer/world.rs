//! The simulated world: virtual time, the fake Celestia app (a small model chain), the fault
//! plans looked up by request number, the kill switch, the independent reader of the submission
//! state file, and the C11 / C12 oracles that are evaluated on world events.
//!
//! Everything here is synchronous and owned by one `Mutex<World>`; the async shells (gRPC
//! services, driver, hooks) lock it, mutate it, and release it before any await.

use std::{
    collections::{
        BTreeMap,
        BTreeSet,
        HashMap,
    },
    path::PathBuf,
    sync::{
        Arc,
        Mutex,
    },
};

use astria_core::generated::{
    cosmos::tx::v1beta1::Tx,
    tendermint::types::BlobTx,
};
use celestia_types::nmt::Namespace;
use prost::Message as _;
use sha2::{
    Digest as _,
    Sha256,
};

use super::{
    blocks,
    common::{
        hex,
        Rng,
        Stats,
        Trace,
        Violations,
    },
    decode::{
        self,
        Decoded,
        RawBlob,
    },
    scenario::{
        Cfg,
        KillAt,
        Op,
        RpcFault,
        RpcKind,
        Scenario,
        TxOut,
        RPC_KINDS,
    },
};

pub(crate) type Shared = Arc<Mutex<World>>;

pub(crate) fn lock(shared: &Shared) -> std::sync::MutexGuard<'_, World> {
    shared.lock().unwrap_or_else(std::sync::PoisonError::into_inner)
}

pub(crate) const CELESTIA_CHAIN_ID: &str = "sim-celestia-1";
pub(crate) const CELESTIA_HOST: &str = "celestia.sim";
pub(crate) const SEQUENCER_HOST: &str = "sequencer.sim";
pub(crate) const STATE_FILE: &str = "submission-state.json";
/// 2024-01-01T00:00:00Z; the simulated wall clock starts here.
pub(crate) const WALL_EPOCH_MS: u64 = 1_704_067_200_000;

/// What a fake RPC handler has to do after the world decided.
pub(crate) enum Reply<T> {
    After(u64, Result<T, tonic::Status>),
    Never,
}

#[derive(Clone, Debug)]
pub(crate) struct TxInfo {
    /// Ordinal of the first broadcast of this tx (stable name in the trace; hashes are not logged
    /// because blob order inside a tx depends on `HashMap` iteration in the relayer).
    pub ord: u32,
    pub sequence: u64,
    pub fee: u64,
    pub heights: Vec<u64>,
    pub decoded: Decoded,
}

#[derive(Clone, Debug)]
struct PendingTx {
    hash: String,
    sequence: u64,
    include_at_ms: Option<u64>,
    evict_at_ms: Option<u64>,
}

#[derive(Clone, Debug, PartialEq, Eq)]
pub(crate) enum FileState {
    Fresh,
    Started {
        celestia_height: u64,
        sequencer_height: u64,
    },
    Prepared {
        sequencer_height: u64,
        last_celestia_height: u64,
        last_sequencer_height: u64,
        blob_tx_hash: String,
    },
    Unreadable(String),
}

impl FileState {
    pub(crate) fn tag(&self) -> &'static str {
        match self {
            FileState::Fresh => "fresh",
            FileState::Started {
                ..
            } => "started",
            FileState::Prepared {
                ..
            } => "prepared",
            FileState::Unreadable(_) => "unreadable",
        }
    }

    fn describe(&self) -> String {
        match self {
            FileState::Fresh => "fresh".into(),
            FileState::Started {
                celestia_height,
                sequencer_height,
            } => format!("started(seq={sequencer_height},cel={celestia_height})"),
            FileState::Prepared {
                sequencer_height,
                last_celestia_height,
                last_sequencer_height,
                ..
            } => format!(
                "prepared(seq={sequencer_height},last_seq={last_sequencer_height},\
                 last_cel={last_celestia_height})"
            ),
            FileState::Unreadable(why) => format!("unreadable({why})"),
        }
    }
}

/// Independent reading of the state file: plain JSON, field names from the documented format.
pub(crate) fn parse_state_file(contents: &[u8]) -> FileState {
    let Ok(v) = serde_json::from_slice::<serde_json::Value>(contents) else {
        return FileState::Unreadable("not json".into());
    };
    let get_u64 = |v: &serde_json::Value, k: &str| v.get(k).and_then(serde_json::Value::as_u64);
    match v.get("state").and_then(serde_json::Value::as_str) {
        Some("fresh") => FileState::Fresh,
        Some("started") => {
            let Some(ls) = v.get("last_submission") else {
                return FileState::Unreadable("started without last_submission".into());
            };
            match (get_u64(ls, "celestia_height"), get_u64(ls, "sequencer_height")) {
                (Some(c), Some(s)) => FileState::Started {
                    celestia_height: c,
                    sequencer_height: s,
                },
                _ => FileState::Unreadable("started with malformed last_submission".into()),
            }
        }
        Some("prepared") => {
            let Some(ls) = v.get("last_submission") else {
                return FileState::Unreadable("prepared without last_submission".into());
            };
            match (
                get_u64(&v, "sequencer_height"),
                get_u64(ls, "celestia_height"),
                get_u64(ls, "sequencer_height"),
                v.get("blob_tx_hash").and_then(serde_json::Value::as_str),
                v.get("at").and_then(serde_json::Value::as_str),
            ) {
                (Some(s), Some(lc), Some(lsq), Some(hash), Some(_)) => FileState::Prepared {
                    sequencer_height: s,
                    last_celestia_height: lc,
                    last_sequencer_height: lsq,
                    blob_tx_hash: hash.to_ascii_lowercase(),
                },
                _ => FileState::Unreadable("prepared with malformed fields".into()),
            }
        }
        _ => FileState::Unreadable("no known state tag".into()),
    }
}

pub(crate) struct Celestia {
    pub account_number: u64,
    /// Committed account sequence.
    pub sequence: u64,
    pub height: u64,
    pub next_block_ms: u64,
    mempool: Vec<PendingTx>,
    /// hash -> (celestia height).
    pub confirmed: HashMap<String, u64>,
    /// Every tx ever received (accepted or not), by hash.
    pub seen: HashMap<String, TxInfo>,
    /// Hashes that entered the mempool at some point.
    pub entered_mempool: BTreeSet<u32>,
    /// sequencer height -> number of confirmed txs carrying it.
    pub confirmed_heights: BTreeMap<u64, u32>,
    pub confirmed_txs: u32,
    local_min_fee: Option<u64>,
    /// Distinct height sets broadcast, in order of first appearance (C12 "submissions").
    pub submissions: Vec<Vec<u64>>,
}

pub(crate) struct World {
    pub cfg: Cfg,
    pub trace: Trace,
    pub stats: Stats,
    pub viol: Violations,
    pub step: u64,

    // ---- time -----------------------------------------------------------------------------
    /// Simulated ms at the start of the current incarnation (or "now" while the process is down).
    pub base_ms: u64,
    pub inc_start: Option<tokio::time::Instant>,
    pub wall_offset_ms: i64,

    // ---- process --------------------------------------------------------------------------
    pub incarnation: u32,
    pub killed: bool,
    pub kill_notify: Arc<tokio::sync::Notify>,
    /// Suspensions (`Poll::Pending`) of the root future in this incarnation.
    pub polls: u32,
    /// Kill at the end of the current root poll (set by the after-rename hook).
    pub kill_at_end_of_poll: bool,
    pub faults_on: bool,
    pub dir: PathBuf,
    pub dir_str: String,

    // ---- plans ----------------------------------------------------------------------------
    tx_plan: BTreeMap<u32, TxOut>,
    rpc_plan: BTreeMap<(RpcKind, u32), RpcFault>,
    /// (kind, nth) -> (after_effect, op index)
    rpc_kill: BTreeMap<(RpcKind, u32), (bool, usize)>,
    /// (nth write, point) -> (torn permille, op index)
    write_kill: BTreeMap<(u32, u8), (Option<u16>, usize)>,
    write_err: BTreeSet<(u32, u8)>,
    /// (incarnation, k) -> op index
    poll_kill: BTreeMap<(u32, u32), usize>,
    connect_refused: BTreeSet<u32>,
    /// Op indexes of kills that already fired (each kill op fires once).
    pub fired_kills: BTreeSet<usize>,
    pub last_kill_op: Option<usize>,

    // ---- counters -------------------------------------------------------------------------
    rpc_count: [u32; RPC_KINDS.len()],
    pub writes: u32,
    pub connects: u32,
    dir_snapshot: Option<BTreeMap<String, Vec<u8>>>,
    pub torn_pending: Option<u16>,

    // ---- transports -----------------------------------------------------------------------
    pub incoming: HashMap<
        String,
        tokio::sync::mpsc::UnboundedSender<Result<tokio::io::DuplexStream, std::io::Error>>,
    >,

    // ---- fake chains ----------------------------------------------------------------------
    pub cel: Celestia,
    /// Highest sequencer height that exists.
    pub tip: u64,
    /// Heights handed to the submitter in any incarnation.
    pub handed: BTreeSet<u64>,
    pub handed_this_incarnation: BTreeSet<u64>,
    /// Set when the process ended in the documented oversized-block error path.
    pub oversized_exit: bool,
    pub last_broadcast_ms: u64,
    pub kill_in_flight: bool,
    pub debug: bool,
    pub operator_restarts: u32,
    pub startup_refused: bool,
    /// A `State::write` is executing (from its first line to its return).
    pub in_write: bool,
    /// The process of this incarnation has entered its first `State::write` (before that it is in
    /// the startup read of the state file).
    pub first_write_begun: bool,
    pub writes_this_incarnation: u32,
    /// Layer B: blocks served to the reader in this incarnation before the submitter made its
    /// first account query (i.e. before it started to drain its channel).
    pub served_before_drain: u32,
    pub drain_started: bool,
}

impl World {
    pub(crate) fn new(sc: &Scenario, dir: PathBuf, extra_kill: Option<KillAt>) -> Self {
        let cfg = sc.cfg.clone();
        let mut w = World {
            trace: Trace::new(),
            stats: Stats::default(),
            viol: Violations::default(),
            step: 0,
            base_ms: 0,
            inc_start: None,
            wall_offset_ms: 0,
            incarnation: 0,
            killed: false,
            kill_notify: Arc::new(tokio::sync::Notify::new()),
            polls: 0,
            kill_at_end_of_poll: false,
            faults_on: true,
            dir_str: dir.to_string_lossy().into_owned(),
            dir,
            tx_plan: BTreeMap::new(),
            rpc_plan: BTreeMap::new(),
            rpc_kill: BTreeMap::new(),
            write_kill: BTreeMap::new(),
            write_err: BTreeSet::new(),
            poll_kill: BTreeMap::new(),
            connect_refused: BTreeSet::new(),
            fired_kills: BTreeSet::new(),
            last_kill_op: None,
            rpc_count: [0; RPC_KINDS.len()],
            writes: 0,
            connects: 0,
            dir_snapshot: None,
            torn_pending: None,
            incoming: HashMap::new(),
            cel: Celestia {
                account_number: 10 + cfg.seed % 90,
                sequence: cfg.seed % 1000,
                height: 1000 + cfg.seed % 100_000,
                next_block_ms: cfg.celestia_block_ms,
                mempool: Vec::new(),
                confirmed: HashMap::new(),
                seen: HashMap::new(),
                entered_mempool: BTreeSet::new(),
                confirmed_heights: BTreeMap::new(),
                confirmed_txs: 0,
                local_min_fee: None,
                submissions: Vec::new(),
            },
            tip: cfg.first_height - 1,
            handed: BTreeSet::new(),
            handed_this_incarnation: BTreeSet::new(),
            oversized_exit: false,
            last_broadcast_ms: 0,
            kill_in_flight: false,
            debug: std::env::var("VERIF_DEBUG").is_ok(),
            operator_restarts: 0,
            startup_refused: false,
            in_write: false,
            first_write_begun: false,
            writes_this_incarnation: 0,
            served_before_drain: 0,
            drain_started: false,
            cfg,
        };
        let extra = extra_kill.map(|when| Op::Kill {
            when,
            down_ms: 0,
            clock_jump_s: 0,
        });
        for (i, op) in sc.ops.iter().chain(extra.iter()).enumerate() {
            match op {
                Op::Tx {
                    nth,
                    out,
                } => {
                    w.tx_plan.entry(*nth).or_insert_with(|| out.clone());
                }
                Op::Rpc {
                    kind,
                    nth,
                    fault,
                } => {
                    w.rpc_plan.entry((*kind, *nth)).or_insert_with(|| fault.clone());
                }
                Op::Kill {
                    when, ..
                } if w.cfg.kills => match when {
                    KillAt::Poll {
                        inc,
                        k,
                    } => {
                        w.poll_kill.entry((*inc, *k)).or_insert(i);
                    }
                    KillAt::Rpc {
                        kind,
                        nth,
                        after_effect,
                    } => {
                        w.rpc_kill.entry((*kind, *nth)).or_insert((*after_effect, i));
                    }
                    KillAt::Write {
                        nth,
                        point,
                        torn_permille,
                    } => {
                        w.write_kill
                            .entry((*nth, *point))
                            .or_insert((if *point == 1 { *torn_permille } else { None }, i));
                    }
                    KillAt::Time {
                        ..
                    } => {}
                },
                Op::WriteError {
                    nth,
                    point,
                } if w.cfg.kills => {
                    w.write_err.insert((*nth, *point));
                }
                Op::ConnectRefused {
                    nth,
                } => {
                    w.connect_refused.insert(*nth);
                }
                _ => {}
            }
        }
        w
    }

    // ---- time ---------------------------------------------------------------------------------

    pub(crate) fn now_ms(&self) -> u64 {
        self.base_ms
            + self
                .inc_start
                .map_or(0, |s| u64::try_from(s.elapsed().as_millis()).unwrap_or(u64::MAX))
    }

    pub(crate) fn wall_now(&self) -> std::time::SystemTime {
        let ms = (WALL_EPOCH_MS + self.now_ms()).saturating_add_signed(self.wall_offset_ms);
        std::time::UNIX_EPOCH + std::time::Duration::from_millis(ms)
    }

    /// Brings the model chain up to the current instant.
    pub(crate) fn sync(&mut self) -> u64 {
        let t = self.now_ms();
        self.advance_chain_to(t);
        t
    }

    pub(crate) fn advance_chain_to(&mut self, t: u64) {
        while self.cel.next_block_ms <= t {
            let tb = self.cel.next_block_ms;
            self.produce_block(tb);
            self.cel.next_block_ms += self.cfg.celestia_block_ms;
        }
    }

    pub(crate) fn ev(&mut self, line: String) {
        self.step += 1;
        if self.debug {
            eprintln!("{line}");
        }
        self.trace.ev(&line);
    }

    pub(crate) fn sanitize(&self, s: &str) -> String {
        s.replace(&self.dir_str, "<dir>")
    }

    // ---- kill switch --------------------------------------------------------------------------

    pub(crate) fn request_kill(&mut self, why: &str, op: Option<usize>) {
        if self.killed {
            return;
        }
        self.killed = true;
        if let Some(op) = op {
            self.fired_kills.insert(op);
        }
        self.last_kill_op = op;
        let t = self.sync();
        // C11 non-triviality: was a BlobTx in flight (broadcast reached the node, outcome not yet
        // recorded as `started` in the file)?
        let file = self.read_state_file();
        let in_flight = match &file {
            FileState::Prepared {
                blob_tx_hash, ..
            } => self.cel.seen.get(blob_tx_hash).is_some_and(|info| {
                self.cel.entered_mempool.contains(&info.ord)
            }),
            _ => false,
        };
        if in_flight {
            self.kill_in_flight = true;
            self.stats.probe("kill_with_blobtx_in_flight");
        }
        let tx_status = self.blob_tx_status(&file);
        self.stats.fault(&format!("kill:{}", why.split('#').next().unwrap_or(why)));
        self.trace.abs(&format!("kill file={} tx={tx_status}", file.tag()));
        self.ev(format!(
            "t={t} KILL inc={} why={why} polls={} file={} tx={tx_status}",
            self.incarnation,
            self.polls,
            file.describe()
        ));
        self.check_state_file("at-kill");
        self.kill_notify.notify_one();
    }

    fn blob_tx_status(&self, file: &FileState) -> &'static str {
        match file {
            FileState::Prepared {
                blob_tx_hash, ..
            } => {
                if self.cel.confirmed.contains_key(blob_tx_hash) {
                    "confirmed"
                } else if self.cel.mempool.iter().any(|p| &p.hash == blob_tx_hash) {
                    "in-mempool"
                } else if self.cel.seen.contains_key(blob_tx_hash) {
                    "gone"
                } else {
                    "unknown-to-celestia"
                }
            }
            _ => "none",
        }
    }

    /// Called by the root future after every `Poll::Pending`.
    ///
    /// Suspensions while the process waits for a file operation (the startup read, anything inside
    /// `State::write`) are not counted: `tokio::fs` completes on a helper thread, so whether the
    /// await suspends at all depends on real time. Crash points inside the write are addressed by
    /// `KillAt::Write` instead.
    pub(crate) fn on_root_pending(&mut self) -> bool {
        if self.killed {
            return true;
        }
        if !self.first_write_begun || self.in_write {
            return false;
        }
        self.polls += 1;
        if self.kill_at_end_of_poll {
            self.kill_at_end_of_poll = false;
            return true;
        }
        if self.cfg.kills && self.faults_on {
            if let Some(op) = self.poll_kill.get(&(self.incarnation, self.polls)).copied() {
                if !self.fired_kills.contains(&op) {
                    self.request_kill(&format!("poll#{}", self.polls), Some(op));
                    return true;
                }
            }
        }
        false
    }

    // ---- hooks in submission.rs ---------------------------------------------------------------

    /// 0 = continue, 1 = injected io error, 2 = kill (never return).
    pub(crate) fn on_fault_point(&mut self, name: &str) -> u8 {
        if self.killed {
            return 2;
        }
        let point = match name {
            "state.write.before_tmp" => 0u8,
            "state.write.after_tmp" => 1,
            _ => return 0,
        };
        if point == 0 {
            self.writes += 1;
            self.writes_this_incarnation += 1;
        }
        let nth = self.writes;
        if !(self.cfg.kills && self.faults_on) {
            return 0;
        }
        if point == 0 && self.write_kill.get(&(nth, 1)).is_some_and(|(torn, _)| torn.is_some()) {
            self.dir_snapshot = Some(self.snapshot_dir());
        }
        if let Some((torn, op)) = self.write_kill.get(&(nth, point)).copied() {
            if !self.fired_kills.contains(&op) {
                if let Some(permille) = torn {
                    self.torn_pending = Some(permille);
                    self.request_kill(&format!("write-torn#{nth}"), Some(op));
                } else {
                    self.request_kill(&format!("write-p{point}#{nth}"), Some(op));
                }
                return 2;
            }
        }
        if self.write_err.remove(&(nth, point)) {
            let t = self.now_ms();
            self.stats.fault("io_error_in_state_write");
            self.ev(format!("t={t} inject io error in write#{nth} point={point}"));
            return 1;
        }
        0
    }

    /// Creation of the guard at the top of `State::write`.
    pub(crate) fn on_write_begin(&mut self) {
        self.in_write = true;
        self.first_write_begun = true;
    }

    /// Drop of the guard created at the top of `State::write` (the write returned or was
    /// cancelled).
    pub(crate) fn on_write_done(&mut self) {
        self.in_write = false;
        if self.killed {
            return;
        }
        let nth = self.writes;
        let file = self.read_state_file();
        let t = self.now_ms();
        self.ev(format!("t={t} write#{nth} done file={}", file.describe()));
        self.trace.abs(&format!("w:{}", file.tag()));
        self.check_state_file("after-write");
        if self.cfg.kills && self.faults_on {
            if let Some((_, op)) = self.write_kill.get(&(nth, 2)).copied() {
                if !self.fired_kills.contains(&op) {
                    self.request_kill(&format!("write-p2#{nth}"), Some(op));
                    self.kill_at_end_of_poll = true;
                }
            }
        }
    }

    fn snapshot_dir(&self) -> BTreeMap<String, Vec<u8>> {
        let mut m = BTreeMap::new();
        if let Ok(rd) = std::fs::read_dir(&self.dir) {
            for e in rd.flatten() {
                if let Ok(bytes) = std::fs::read(e.path()) {
                    m.insert(e.file_name().to_string_lossy().into_owned(), bytes);
                }
            }
        }
        m
    }

    /// After the process is gone: a crash *during* the write leaves every file the write touched
    /// as a prefix of its new content.
    pub(crate) fn apply_torn_write(&mut self) {
        let Some(permille) = self.torn_pending.take() else {
            return;
        };
        let before = self.dir_snapshot.take().unwrap_or_default();
        let after = self.snapshot_dir();
        let mut torn = Vec::new();
        for (name, bytes) in &after {
            if before.get(name) != Some(bytes) {
                let keep = bytes.len() * usize::from(permille) / 1000;
                let _ = std::fs::write(self.dir.join(name), &bytes[..keep]);
                torn.push(format!("{name}:{keep}/{}", bytes.len()));
            }
        }
        self.stats.fault("torn_write");
        let t = self.now_ms();
        self.ev(format!("t={t} torn write left {torn:?}"));
    }

    // ---- state file ---------------------------------------------------------------------------

    pub(crate) fn state_path(&self) -> PathBuf {
        self.dir.join(STATE_FILE)
    }

    pub(crate) fn read_state_file(&self) -> FileState {
        match std::fs::read(self.state_path()) {
            Ok(bytes) => parse_state_file(&bytes),
            Err(e) => FileState::Unreadable(format!("io: {:?}", e.kind())),
        }
    }

    fn covered_up_to(&self, h: u64) -> Option<u64> {
        (self.cfg.first_height..=h).find(|x| !self.cel.confirmed_heights.contains_key(x))
    }

    /// C11: "the state file is always readable" and "never records a height as submitted unless
    /// Celestia confirmed a transaction containing every height up to it".
    pub(crate) fn check_state_file(&mut self, ctx: &str) {
        let file = self.read_state_file();
        let step = self.step;
        match &file {
            FileState::Fresh => {}
            FileState::Unreadable(why) => {
                let msg = format!(
                    "state file unreadable ({ctx}): {why}; incarnation {} write#{}",
                    self.incarnation, self.writes
                );
                self.viol.push("C11", "state-file-unreadable", ctx, step, msg);
            }
            FileState::Started {
                sequencer_height, ..
            } => {
                if let Some(missing) = self.covered_up_to(*sequencer_height) {
                    let msg = format!(
                        "state file ({ctx}) is {} but sequencer height {missing} is not in any \
                         transaction confirmed by Celestia (first relayed {})",
                        file.describe(),
                        self.cfg.first_height
                    );
                    self.viol.push(
                        "C11",
                        "state-file-ahead-of-celestia",
                        "started-records-unconfirmed-height",
                        step,
                        msg,
                    );
                }
            }
            FileState::Prepared {
                last_sequencer_height,
                ..
            } => {
                if let Some(missing) = self.covered_up_to(*last_sequencer_height) {
                    let msg = format!(
                        "state file ({ctx}) is {} but sequencer height {missing} is not in any \
                         transaction confirmed by Celestia (first relayed {})",
                        file.describe(),
                        self.cfg.first_height
                    );
                    self.viol.push(
                        "C11",
                        "state-file-ahead-of-celestia",
                        "prepared-last-submission-unconfirmed",
                        step,
                        msg,
                    );
                }
            }
        }
    }

    /// C11: at an instant at which no BlobTx is pending, the confirmed heights are the interval
    /// [first relayed, latest confirmed].
    pub(crate) fn check_no_gap(&mut self, ctx: &str) {
        if !self.cel.mempool.is_empty() {
            return;
        }
        let Some(max) = self.cel.confirmed_heights.keys().next_back().copied() else {
            return;
        };
        if let Some(missing) = self.covered_up_to(max) {
            let msg = format!(
                "({ctx}) no BlobTx pending, latest confirmed sequencer height {max}, first \
                 relayed {}, but height {missing} is on no confirmed transaction",
                self.cfg.first_height
            );
            let step = self.step;
            self.viol.push("C11", "gap-on-celestia", "hole-below-latest-confirmed", step, msg);
        }
        if let Some(low) = self.cel.confirmed_heights.keys().next().copied() {
            if low < self.cfg.first_height {
                let msg = format!(
                    "({ctx}) height {low} below the first height to relay {} was published",
                    self.cfg.first_height
                );
                let step = self.step;
                self.viol.push("C11", "gap-on-celestia", "height-below-first", step, msg);
            }
        }
    }

    // ---- model chain --------------------------------------------------------------------------

    fn produce_block(&mut self, tb: u64) {
        self.cel.height += 1;
        let pending = std::mem::take(&mut self.cel.mempool);
        let mut events = Vec::new();
        for tx in pending {
            let ord = self.cel.seen.get(&tx.hash).map_or(0, |i| i.ord);
            if tx.evict_at_ms.is_some_and(|e| e <= tb) {
                events.push(format!("evict tx{ord}"));
                self.stats.fault("tx_evicted_from_mempool");
                continue;
            }
            if tx.sequence < self.cel.sequence {
                events.push(format!("drop-stale tx{ord}"));
                continue;
            }
            if tx.sequence == self.cel.sequence && tx.include_at_ms.is_some_and(|a| a <= tb) {
                self.cel.sequence += 1;
                self.cel.confirmed.insert(tx.hash.clone(), self.cel.height);
                self.cel.confirmed_txs += 1;
                let heights = self.cel.seen.get(&tx.hash).map(|i| i.heights.clone()).unwrap_or_default();
                for h in &heights {
                    *self.cel.confirmed_heights.entry(*h).or_default() += 1;
                }
                events.push(format!(
                    "include tx{ord} heights={}",
                    fmt_heights(&heights)
                ));
                continue;
            }
            self.cel.mempool.push(tx);
        }
        if !events.is_empty() {
            let h = self.cel.height;
            self.ev(format!("t={tb} celestia block {h}: {}", events.join(", ")));
            let dup = self.cel.confirmed_heights.values().any(|c| *c > 1);
            if dup {
                self.stats.probe("duplicate_height_on_celestia");
            }
            self.check_no_gap("after-celestia-block");
            self.check_state_file("after-celestia-block");
        }
    }

    pub(crate) fn all_confirmed(&self) -> bool {
        self.cfg.first_height > self.tip
            || (self.cfg.first_height..=self.tip).all(|h| self.cel.confirmed_heights.contains_key(&h))
    }

    // ---- RPC bookkeeping ----------------------------------------------------------------------

    fn latency(&self, kind: RpcKind, nth: u32) -> u64 {
        if self.cfg.latency_ms == 0 {
            0
        } else {
            Rng::new(self.cfg.seed)
                .fork(((kind.idx() as u64) << 32) | u64::from(nth))
                .below(self.cfg.latency_ms + 1)
        }
    }

    /// Common entry of every fake RPC: counts it, applies kill / fault plans.
    /// Returns `Err(reply)` if the request must not be processed normally.
    pub(crate) fn rpc_enter<T>(&mut self, kind: RpcKind) -> Result<(u32, u64, Option<usize>), Reply<T>> {
        if self.killed {
            return Err(Reply::Never);
        }
        let t = self.sync();
        let nth = self.rpc_count[kind.idx()];
        self.rpc_count[kind.idx()] += 1;
        let mut late_kill = None;
        if self.cfg.kills && self.faults_on {
            if let Some((after_effect, op)) = self.rpc_kill.get(&(kind, nth)).copied() {
                if !self.fired_kills.contains(&op) {
                    if after_effect {
                        late_kill = Some(op);
                    } else {
                        self.ev(format!("t={t} {}#{nth} arrives", kind.name()));
                        self.request_kill(&format!("rpc-{}-before#{nth}", kind.name()), Some(op));
                        return Err(Reply::Never);
                    }
                }
            }
        }
        if self.faults_on && kind != RpcKind::Broadcast {
            if let Some(fault) = self.rpc_plan.get(&(kind, nth)).cloned() {
                match fault {
                    RpcFault::Error => {
                        self.stats.fault(&format!("rpc_error:{}", kind.name()));
                        self.ev(format!("t={t} {}#{nth} -> injected Unavailable", kind.name()));
                        if let Some(op) = late_kill {
                            self.request_kill(&format!("rpc-{}-after#{nth}", kind.name()), Some(op));
                            return Err(Reply::Never);
                        }
                        return Err(Reply::After(
                            self.latency(kind, nth),
                            Err(tonic::Status::unavailable("injected fault")),
                        ));
                    }
                    RpcFault::Stall => {
                        self.stats.fault(&format!("rpc_stall:{}", kind.name()));
                        self.ev(format!("t={t} {}#{nth} -> stalls", kind.name()));
                        if let Some(op) = late_kill {
                            self.request_kill(&format!("rpc-{}-after#{nth}", kind.name()), Some(op));
                        }
                        return Err(Reply::Never);
                    }
                    RpcFault::Slow {
                        ms,
                    } => {
                        self.stats.fault(&format!("rpc_slow:{}", kind.name()));
                        return Ok((nth, ms, late_kill));
                    }
                }
            }
        }
        Ok((nth, self.latency(kind, nth), late_kill))
    }

    /// Finishes an RPC: applies an "after effect" kill, otherwise replies after `lat`.
    pub(crate) fn rpc_finish<T>(
        &mut self,
        kind: RpcKind,
        nth: u32,
        lat: u64,
        late_kill: Option<usize>,
        result: Result<T, tonic::Status>,
    ) -> Reply<T> {
        if let Some(op) = late_kill {
            self.request_kill(&format!("rpc-{}-after#{nth}", kind.name()), Some(op));
            return Reply::Never;
        }
        Reply::After(lat, result)
    }

    // ---- BroadcastTx / GetTx ------------------------------------------------------------------

    fn check_state_sequence(&self) -> u64 {
        self.cel.sequence + self.cel.mempool.len() as u64
    }

    /// Returns (code, log, txhash-uppercase) - code 0 = accepted - or `None` if no response is sent
    /// (`stall`), or a transport-level error.
    pub(crate) fn on_broadcast(
        &mut self,
        nth: u32,
        tx_bytes: &[u8],
    ) -> BroadcastVerdict {
        let t = self.now_ms();
        self.last_broadcast_ms = t;
        let Ok(blob_tx) = BlobTx::decode(tx_bytes) else {
            self.ev(format!("t={t} broadcast_tx#{nth}: undecodable BlobTx"));
            return BroadcastVerdict::Status(tonic::Status::invalid_argument("not a BlobTx"));
        };
        let hash = hex(&Sha256::digest(&blob_tx.tx));
        let Ok(tx) = Tx::decode(&*blob_tx.tx) else {
            self.ev(format!("t={t} broadcast_tx#{nth}: undecodable inner Tx"));
            return BroadcastVerdict::Status(tonic::Status::invalid_argument("not a Tx"));
        };
        let auth = tx.auth_info.unwrap_or_default();
        let sequence = auth.signer_infos.first().map_or(0, |s| s.sequence);
        let fee = auth
            .fee
            .as_ref()
            .and_then(|f| f.amount.first())
            .and_then(|c| c.amount.parse::<u64>().ok())
            .unwrap_or(0);

        // decode the blobs once per distinct tx
        if !self.cel.seen.contains_key(&hash) {
            let blobs: Vec<RawBlob> = blob_tx
                .blobs
                .iter()
                .filter_map(|b| {
                    Namespace::new_v0(&b.namespace_id).ok().map(|namespace| RawBlob {
                        namespace,
                        data: b.data.to_vec(),
                    })
                })
                .collect();
            let mut findings = Vec::new();
            if blobs.len() != blob_tx.blobs.len() {
                findings.push(decode::Finding {
                    oracle: "unexpected-blob",
                    signature: "bad-namespace-bytes".into(),
                    message: "a blob's namespace id is not a valid v0 namespace".into(),
                });
            }
            let filter = self.cfg.filter.clone();
            let decoded = decode::decode_and_check(&self.cfg.blocks, &filter, &blobs, &mut findings);
            let step = self.step;
            for f in findings {
                self.viol.push("C12", f.oracle, &f.signature, step, f.message);
            }
            let mut heights = decoded.heights.clone();
            heights.sort_unstable();
            if !self.cel.submissions.contains(&heights) {
                self.cel.submissions.push(heights.clone());
                self.on_new_submission(&heights, &decoded);
            }
            let ord = self.cel.seen.len() as u32;
            self.cel.seen.insert(
                hash.clone(),
                TxInfo {
                    ord,
                    sequence,
                    fee,
                    heights,
                    decoded,
                },
            );
        }
        let info = self.cel.seen.get(&hash).cloned().expect("just inserted");
        let ord = info.ord;
        let desc = format!(
            "t={t} broadcast_tx#{nth} tx{ord} seq={sequence} fee={fee} heights={} bytes={}",
            fmt_heights(&info.heights),
            info.decoded.compressed
        );

        let planned = if self.faults_on {
            self.tx_plan.get(&nth).cloned()
        } else {
            None
        };
        let default = TxOut::Include {
            delay_ms: 0,
        };
        let out = planned.unwrap_or(default);

        if let TxOut::ReqLost {
            stall,
        } = out
        {
            self.stats.fault("broadcast_request_lost");
            self.ev(format!("{desc} -> request lost (stall={stall})"));
            return if stall {
                BroadcastVerdict::Stall
            } else {
                BroadcastVerdict::Status(tonic::Status::unavailable("injected: connection reset"))
            };
        }

        let upper = hash.to_ascii_uppercase();
        // the node's own CheckTx rules
        if self.cel.confirmed.contains_key(&hash) || self.cel.mempool.iter().any(|p| p.hash == hash) {
            self.stats.probe("checktx_tx_already_in_cache");
            self.ev(format!("{desc} -> code 19 (already in cache)"));
            return BroadcastVerdict::Code(19, "tx already exists in cache".into(), upper);
        }
        let expected = self.check_state_sequence();
        if sequence != expected {
            self.stats.probe("checktx_sequence_mismatch");
            self.ev(format!("{desc} -> code 32 (expected seq {expected})"));
            return BroadcastVerdict::Code(
                32,
                format!(
                    "account sequence mismatch, expected {expected}, got {sequence}: incorrect \
                     account sequence"
                ),
                upper,
            );
        }
        if let Some(min) = self.cel.local_min_fee {
            if fee < min {
                self.stats.probe("checktx_fee_below_hint");
                self.ev(format!("{desc} -> code 13 (required {min})"));
                return BroadcastVerdict::Code(
                    13,
                    format!("insufficient fees; got: {fee}utia required: {min}utia: insufficient fee"),
                    upper,
                );
            }
        }
        let block_ms = self.cfg.celestia_block_ms;
        match out {
            TxOut::ReqLost {
                ..
            } => unreachable!(),
            TxOut::FeeReject {
                bump,
            } => {
                let required = fee + bump;
                self.cel.local_min_fee = Some(required);
                self.stats.fault("tx_rejected_fee_hint");
                self.ev(format!("{desc} -> code 13 (required {required})"));
                BroadcastVerdict::Code(
                    13,
                    format!(
                        "insufficient fees; got: {fee}utia required: {required}utia: insufficient fee"
                    ),
                    upper,
                )
            }
            TxOut::SeqReject => {
                self.stats.fault("tx_rejected_spurious_sequence");
                self.ev(format!("{desc} -> code 32 (spurious)"));
                BroadcastVerdict::Code(
                    32,
                    format!(
                        "account sequence mismatch, expected {}, got {sequence}: incorrect account \
                         sequence",
                        sequence + 1
                    ),
                    upper,
                )
            }
            TxOut::OtherReject {
                code,
            } => {
                self.stats.fault("tx_rejected_other_code");
                self.ev(format!("{desc} -> code {code}"));
                BroadcastVerdict::Code(code, "injected checktx failure".into(), upper)
            }
            TxOut::Include {
                delay_ms,
            } => {
                self.enter_mempool(&hash, sequence, Some(t + delay_ms), None, ord);
                if delay_ms > 60_000 {
                    self.stats.fault("tx_included_after_confirmation_timeout");
                } else if delay_ms > block_ms {
                    self.stats.fault("tx_included_late");
                }
                self.ev(format!("{desc} -> accepted, include after {delay_ms}ms"));
                BroadcastVerdict::Code(0, String::new(), upper)
            }
            TxOut::Lost {
                evict_ms,
            } => {
                self.enter_mempool(&hash, sequence, None, Some(t + evict_ms), ord);
                self.stats.fault("tx_lost_after_accept");
                self.ev(format!("{desc} -> accepted, will be evicted after {evict_ms}ms"));
                BroadcastVerdict::Code(0, String::new(), upper)
            }
            TxOut::RespLost {
                delay_ms,
                stall,
            } => {
                self.enter_mempool(&hash, sequence, Some(t + delay_ms), None, ord);
                self.stats.fault(if stall {
                    "tx_included_response_stalled"
                } else {
                    "tx_included_response_errored"
                });
                self.ev(format!(
                    "{desc} -> accepted (include after {delay_ms}ms) but response lost \
                     (stall={stall})"
                ));
                if stall {
                    BroadcastVerdict::Stall
                } else {
                    BroadcastVerdict::Status(tonic::Status::unavailable("injected: connection reset"))
                }
            }
        }
    }

    fn enter_mempool(
        &mut self,
        hash: &str,
        sequence: u64,
        include_at_ms: Option<u64>,
        evict_at_ms: Option<u64>,
        ord: u32,
    ) {
        self.cel.local_min_fee = None;
        self.cel.entered_mempool.insert(ord);
        self.cel.mempool.push(PendingTx {
            hash: hash.to_string(),
            sequence,
            include_at_ms,
            evict_at_ms,
        });
    }

    /// C12 bookkeeping when a height set is seen for the first time.
    fn on_new_submission(&mut self, heights: &[u64], decoded: &Decoded) {
        self.stats.probe("submissions");
        if heights.len() > 1 {
            self.stats.probe("submissions_multi_block");
        }
        if decoded.compressed > 500_000 {
            self.stats.probe("submissions_over_half_limit");
        }
        self.trace.abs(&format!("sub:{}", heights.len()));
    }

    /// `Some(height)` if confirmed.
    pub(crate) fn on_get_tx(&mut self, nth: u32, hash: &str) -> Option<u64> {
        let t = self.now_ms();
        let hash = hash.to_ascii_lowercase();
        let ord = self.cel.seen.get(&hash).map(|i| i.ord);
        let res = self.cel.confirmed.get(&hash).copied();
        let name = ord.map_or("unknown-tx".to_string(), |o| format!("tx{o}"));
        self.ev(format!(
            "t={t} get_tx#{nth} {name} -> {}",
            res.map_or("not found".to_string(), |h| format!("height {h}"))
        ));
        if res.is_some() {
            self.stats.probe("get_tx_confirmed");
        }
        if ord.is_none() {
            self.stats.probe("get_tx_for_tx_unknown_to_celestia");
        }
        res
    }

    pub(crate) fn mempool_len(&self) -> usize {
        self.cel.mempool.len()
    }

    pub(crate) fn on_connect(&mut self, host: &str) -> bool {
        let nth = self.connects;
        self.connects += 1;
        let t = self.now_ms();
        if self.faults_on && host == CELESTIA_HOST && self.connect_refused.contains(&nth) {
            self.stats.fault("connect_refused");
            self.ev(format!("t={t} connect#{nth} to {host} refused"));
            return false;
        }
        self.ev(format!("t={t} connect#{nth} to {host}"));
        true
    }

    // ---- end-of-run history checks ------------------------------------------------------------

    /// C12 over the whole run (profiles without kills): the distinct submissions partition the
    /// handed blocks, in increasing order.
    pub(crate) fn check_exactly_once(&mut self) {
        let step = self.step;
        let mut next = self.cfg.first_height;
        let subs = self.cel.submissions.clone();
        for (i, s) in subs.iter().enumerate() {
            if s.is_empty() {
                self.viol.push(
                    "C12",
                    "exactly-once",
                    "empty-submission",
                    step,
                    format!("submission {i} carries no block"),
                );
                continue;
            }
            let contiguous = s.windows(2).all(|w| w[1] == w[0] + 1);
            if s[0] != next || !contiguous {
                let sig = if s[0] < next {
                    "block-in-two-submissions"
                } else if s[0] > next || !contiguous {
                    "block-skipped-between-submissions"
                } else {
                    "unordered"
                };
                self.viol.push(
                    "C12",
                    "exactly-once",
                    sig,
                    step,
                    format!(
                        "submission {i} carries heights {} but the next height not yet in any \
                         submission was {next} (all submissions: {})",
                        fmt_heights(s),
                        subs.iter().map(|s| fmt_heights(s)).collect::<Vec<_>>().join(" ")
                    ),
                );
            }
            next = next.max(s.last().copied().unwrap_or(next) + 1);
        }
        // every handed block is in some submission (checked only when the run drained)
        for h in &self.handed.clone() {
            if !subs.iter().any(|s| s.contains(h)) && !self.oversized_exit {
                self.viol.push(
                    "C12",
                    "exactly-once",
                    "handed-block-in-no-submission",
                    step,
                    format!("height {h} was handed to the submitter but is in no submission"),
                );
                break;
            }
        }
    }
}

pub(crate) enum BroadcastVerdict {
    Code(u32, String, String),
    Status(tonic::Status),
    Stall,
}

pub(crate) fn fmt_heights(h: &[u64]) -> String {
    match (h.first(), h.last()) {
        (Some(a), Some(b)) if h.len() > 1 && h.windows(2).all(|w| w[1] == w[0] + 1) => {
            format!("[{a}..={b}]")
        }
        _ => format!("{h:?}"),
    }
}

/// Writes the initial state file in the documented format.
pub(crate) fn write_initial_state(w: &World) {
    let contents = if w.cfg.first_height <= 1 {
        "{\n  \"state\": \"fresh\"\n}".to_string()
    } else {
        format!(
            "{{\n  \"state\": \"started\",\n  \"last_submission\": {{\n    \"celestia_height\": \
             {},\n    \"sequencer_height\": {}\n  }}\n}}",
            w.cel.height - 1,
            w.cfg.first_height - 1
        )
    };
    std::fs::write(w.state_path(), contents).expect("write initial state file");
}

pub(crate) fn block_spec_for(w: &World, height: u64) -> blocks::BlockSpec {
    blocks::spec(&w.cfg.blocks, height)
}
