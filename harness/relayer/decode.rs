//! Receiver-side decoding of what the relayer publishes, done the way astria-conductor does it
//! (`celestia/convert.rs` + `celestia/reconstruct.rs`): brotli-decompress, protobuf-decode the
//! `SubmittedMetadataList` / `SubmittedRollupDataList`, `try_from_raw` every entry, then audit each
//! rollup entry's proof against the `rollup_transactions_root` of the metadata with the same block
//! hash. Re-implemented here with public astria-core APIs only (conductor is not a dependency of
//! the relayer). The Merkle tree hash of the transactions is computed by the harness itself
//! (RFC 6962), so the audit does not lean on the code that produced the proof.
//!
//! On top of the decode sits the C12 content oracle: what was decoded must be exactly what the
//! harness generated (`blocks::spec`), per block and per rollup, respecting the rollup filter.

use std::collections::BTreeMap;

use astria_core::{
    brotli::decompress_bytes,
    generated::astria::sequencerblock::v1::{
        SubmittedMetadataList,
        SubmittedRollupDataList,
    },
    sequencerblock::v1::{
        SubmittedMetadata,
        SubmittedRollupData,
    },
};
use celestia_types::nmt::Namespace;
use prost::Message as _;
use sha2::{
    Digest as _,
    Sha256,
};

use super::blocks::{
    self,
    BlockCfg,
};

/// The documented payload limit (C12: "never exceeds the configured maximum").
pub(crate) const MAX_PAYLOAD: usize = 1_000_000;

#[derive(Clone, Debug)]
pub(crate) struct Finding {
    pub oracle: &'static str,
    pub signature: String,
    pub message: String,
}

fn finding(oracle: &'static str, signature: &str, message: String) -> Finding {
    Finding {
        oracle,
        signature: signature.to_string(),
        message,
    }
}

/// One blob as the fake Celestia (or the conversion-level driver) sees it.
#[derive(Clone, Debug)]
pub(crate) struct RawBlob {
    pub namespace: Namespace,
    pub data: Vec<u8>,
}

/// Result of decoding one submission (the blobs of one BlobTx / one `take()`).
#[derive(Clone, Debug, Default)]
pub(crate) struct Decoded {
    /// Heights of the metadata entries in list order.
    pub heights: Vec<u64>,
    /// Sum of blob data lengths (= the compressed payload size).
    pub compressed: usize,
    pub n_blobs: usize,
    /// Number of (block, rollup) data entries found.
    pub rollup_entries: usize,
}

/// RFC 6962 Merkle tree hash.
pub(crate) fn mth(leaves: &[&[u8]]) -> [u8; 32] {
    match leaves.len() {
        0 => Sha256::digest(b"").into(),
        1 => {
            let mut h = Sha256::new();
            h.update([0u8]);
            h.update(leaves[0]);
            h.finalize().into()
        }
        n => {
            let mut k = 1usize;
            while k * 2 < n {
                k *= 2;
            }
            let mut h = Sha256::new();
            h.update([1u8]);
            h.update(mth(&leaves[..k]));
            h.update(mth(&leaves[k..]));
            h.finalize().into()
        }
    }
}

pub(crate) fn sequencer_namespace() -> Namespace {
    astria_core::celestia::namespace_v0_from_sha256_of_bytes(blocks::SEQUENCER_CHAIN_ID.as_bytes())
}

/// Decodes one submission and checks it against the generator's expectation.
///
/// `filter`: rollup indexes whose data must be published; empty = all.
pub(crate) fn decode_and_check(
    cfg: &BlockCfg,
    filter: &[u8],
    blobs: &[RawBlob],
    findings: &mut Vec<Finding>,
) -> Decoded {
    let mut out = Decoded {
        n_blobs: blobs.len(),
        compressed: blobs.iter().map(|b| b.data.len()).sum(),
        ..Decoded::default()
    };
    let seq_ns = sequencer_namespace();
    let n_rollups = cfg.n_rollups.clamp(1, 6);
    let included = |r: u8| filter.is_empty() || filter.contains(&r);

    // ---- metadata (header) blobs -------------------------------------------------------------
    let mut metadata: Vec<SubmittedMetadata> = Vec::new();
    let header_blobs: Vec<&RawBlob> = blobs.iter().filter(|b| b.namespace == seq_ns).collect();
    if header_blobs.len() != 1 {
        findings.push(finding(
            "metadata-blob-count",
            "not-exactly-one-sequencer-namespace-blob",
            format!(
                "submission has {} blobs in the sequencer namespace",
                header_blobs.len()
            ),
        ));
    }
    for blob in &header_blobs {
        let Ok(bytes) = decompress_bytes(&blob.data) else {
            findings.push(finding(
                "blob-undecodable",
                "metadata-decompress",
                "sequencer-namespace blob does not brotli-decompress".into(),
            ));
            continue;
        };
        let Ok(list) = SubmittedMetadataList::decode(&*bytes) else {
            findings.push(finding(
                "blob-undecodable",
                "metadata-protobuf",
                "sequencer-namespace blob is not a SubmittedMetadataList".into(),
            ));
            continue;
        };
        for raw in list.entries {
            match SubmittedMetadata::try_from_raw(raw) {
                Ok(m) => metadata.push(m),
                Err(e) => findings.push(finding(
                    "blob-undecodable",
                    "metadata-try-from-raw",
                    format!("metadata entry rejected by SubmittedMetadata::try_from_raw: {e}"),
                )),
            }
        }
    }
    out.heights = metadata.iter().map(|m| m.height().value()).collect();

    // ---- rollup blobs --------------------------------------------------------------------------
    let mut by_rollup: BTreeMap<u8, Vec<SubmittedRollupData>> = BTreeMap::new();
    let known_ns: Vec<(u8, Namespace)> = (0..n_rollups)
        .map(|r| {
            (
                r,
                astria_core::celestia::namespace_v0_from_rollup_id(blocks::rollup_id(r)),
            )
        })
        .collect();
    for blob in blobs.iter().filter(|b| b.namespace != seq_ns) {
        let Some((r, _)) = known_ns.iter().find(|(_, ns)| *ns == blob.namespace) else {
            findings.push(finding(
                "unexpected-blob",
                "unknown-namespace",
                "blob in a namespace that is neither the sequencer's nor any rollup's".into(),
            ));
            continue;
        };
        if by_rollup.contains_key(r) {
            findings.push(finding(
                "unexpected-blob",
                "two-blobs-same-rollup-namespace",
                format!("two blobs for rollup {r} in one submission"),
            ));
        }
        let Ok(bytes) = decompress_bytes(&blob.data) else {
            findings.push(finding(
                "blob-undecodable",
                "rollup-decompress",
                format!("rollup {r} blob does not brotli-decompress"),
            ));
            continue;
        };
        let Ok(list) = SubmittedRollupDataList::decode(&*bytes) else {
            findings.push(finding(
                "blob-undecodable",
                "rollup-protobuf",
                format!("rollup {r} blob is not a SubmittedRollupDataList"),
            ));
            continue;
        };
        let entries = by_rollup.entry(*r).or_default();
        for raw in list.entries {
            match SubmittedRollupData::try_from_raw(raw) {
                Ok(e) => entries.push(e),
                Err(e) => findings.push(finding(
                    "blob-undecodable",
                    "rollup-try-from-raw",
                    format!("rollup {r} entry rejected by SubmittedRollupData::try_from_raw: {e}"),
                )),
            }
        }
    }
    out.rollup_entries = by_rollup.values().map(Vec::len).sum();

    // ---- filter: nothing of an excluded rollup is published -----------------------------------
    for (r, entries) in &by_rollup {
        if !included(*r) {
            findings.push(finding(
                "filter-leak",
                "excluded-rollup-published",
                format!(
                    "rollup {r} is filtered out but {} entries were published",
                    entries.len()
                ),
            ));
        }
    }

    // ---- per block: metadata is the block's, every included rollup's data is exact -------------
    for m in &metadata {
        let h = m.height().value();
        let spec = blocks::spec(cfg, h);
        if m.block_hash().as_bytes() != &spec.block_hash
            || m.cometbft_chain_id().as_str() != blocks::SEQUENCER_CHAIN_ID
        {
            findings.push(finding(
                "metadata-mismatch",
                "hash-or-chain-id",
                format!("metadata for height {h} does not carry the block's hash / chain id"),
            ));
        }
        let present = blocks::rollups_present(&spec);
        let mut want_ids: Vec<[u8; 32]> =
            present.iter().map(|r| *blocks::rollup_id(*r).as_bytes()).collect();
        want_ids.sort_unstable();
        let mut got_ids: Vec<[u8; 32]> = m.rollup_ids().map(|id| *id.as_bytes()).collect();
        got_ids.sort_unstable();
        if want_ids != got_ids {
            findings.push(finding(
                "metadata-mismatch",
                "rollup-ids",
                format!(
                    "metadata for height {h} lists {} rollup ids, the block has {}",
                    got_ids.len(),
                    want_ids.len()
                ),
            ));
        }
        for r in 0..n_rollups {
            let expected = blocks::expected_rollup_data(&spec, r);
            let got: Vec<&SubmittedRollupData> = by_rollup
                .get(&r)
                .map(|v| {
                    v.iter()
                        .filter(|e| e.sequencer_block_hash().as_bytes() == &spec.block_hash)
                        .collect()
                })
                .unwrap_or_default();
            if !included(r) {
                // anything published for an excluded rollup is reported by `filter-leak` above
                continue;
            }
            match &expected {
                None => {
                    if !got.is_empty() {
                        findings.push(finding(
                            "rollup-data-mismatch",
                            "data-for-rollup-without-data",
                            format!("height {h}: rollup {r} has no data in the block but an entry \
                                     was published"),
                        ));
                    }
                }
                Some(want) => {
                    if got.len() != 1 {
                        findings.push(finding(
                            "rollup-data-mismatch",
                            if got.is_empty() {
                                "included-rollup-data-missing"
                            } else {
                                "included-rollup-data-duplicated"
                            },
                            format!(
                                "height {h}: rollup {r} has data in the block and is not \
                                 filtered, but {} entries were published",
                                got.len()
                            ),
                        ));
                        continue;
                    }
                    let e = got[0];
                    if e.rollup_id() != blocks::rollup_id(r) {
                        findings.push(finding(
                            "rollup-data-mismatch",
                            "rollup-id",
                            format!("height {h}: entry in rollup {r}'s namespace names another \
                                     rollup"),
                        ));
                    }
                    let got_txs: Vec<&[u8]> = e.transactions().iter().map(|b| &b[..]).collect();
                    let want_txs: Vec<&[u8]> = want.iter().map(|b| &b[..]).collect();
                    if got_txs != want_txs {
                        findings.push(finding(
                            "rollup-data-mismatch",
                            "transactions",
                            format!(
                                "height {h}: rollup {r} data differs from the block's (got {} \
                                 items, want {})",
                                got_txs.len(),
                                want_txs.len()
                            ),
                        ));
                    }
                    // conductor: verify_rollup_blob_against_sequencer_blob
                    let tx_root = mth(&got_txs);
                    let ok = e
                        .proof()
                        .audit()
                        .with_root(*m.rollup_transactions_root())
                        .with_leaf_builder()
                        .write(e.rollup_id().as_bytes())
                        .write(&tx_root)
                        .finish_leaf()
                        .perform();
                    if !ok {
                        findings.push(finding(
                            "proof-fails",
                            "rollup-proof-vs-metadata-root",
                            format!("height {h}: proof of rollup {r} does not lead to the \
                                     metadata's rollup_transactions_root"),
                        ));
                    }
                }
            }
        }
    }

    // ---- entries must belong to a block of this submission, in block order --------------------
    let hash_to_pos: BTreeMap<[u8; 32], usize> = metadata
        .iter()
        .enumerate()
        .map(|(i, m)| (*m.block_hash().as_bytes(), i))
        .collect();
    for (r, entries) in &by_rollup {
        let mut last: Option<usize> = None;
        for e in entries {
            match hash_to_pos.get(e.sequencer_block_hash().as_bytes()) {
                None => findings.push(finding(
                    "rollup-data-mismatch",
                    "entry-without-metadata",
                    format!("rollup {r}: entry for a block hash that has no metadata in the same \
                             submission"),
                )),
                Some(pos) => {
                    if let Some(l) = last {
                        if *pos <= l {
                            findings.push(finding(
                                "order",
                                "rollup-entries-not-in-block-order",
                                format!("rollup {r}: entries are not in increasing block order"),
                            ));
                        }
                    }
                    last = Some(*pos);
                }
            }
        }
    }

    // ---- heights strictly increasing inside the submission --------------------------------------
    if out.heights.windows(2).any(|w| w[1] <= w[0]) {
        findings.push(finding(
            "order",
            "heights-not-increasing-within-submission",
            format!("metadata heights {:?}", out.heights),
        ));
    }

    // ---- payload bound ------------------------------------------------------------------------
    if out.compressed > MAX_PAYLOAD && out.heights.len() != 1 {
        findings.push(finding(
            "payload-bound",
            "multi-block-submission-over-limit",
            format!(
                "{} blocks with compressed payload {} > {}",
                out.heights.len(),
                out.compressed,
                MAX_PAYLOAD
            ),
        ));
    }
    if out.compressed > MAX_PAYLOAD && out.heights.len() == 1 {
        findings.push(finding(
            "payload-bound",
            "single-oversized-block-submitted",
            format!(
                "a single block with compressed payload {} > {} was published instead of taking \
                 the documented error path",
                out.compressed, MAX_PAYLOAD
            ),
        ));
    }
    out
}
