//! Async shells around `World`: in-memory tonic transport, the fake Celestia gRPC services, the
//! fake sequencer (layer B), the killable process root future, the per-incarnation driver and the
//! scenario runner.

use std::{
    future::Future,
    pin::Pin,
    sync::{
        Arc,
        OnceLock,
    },
    task::{
        Context,
        Poll,
    },
    time::Duration,
};

use astria_core::generated::{
    astria::sequencerblock::v1::{
        sequencer_service_client::SequencerServiceClient,
        sequencer_service_server::{
            SequencerService,
            SequencerServiceServer,
        },
        FilteredSequencerBlock as RawFilteredSequencerBlock,
        GetFilteredSequencerBlockRequest,
        GetPendingNonceRequest,
        GetPendingNonceResponse,
        GetSequencerBlockRequest,
        GetUpgradesInfoRequest,
        GetUpgradesInfoResponse,
        GetValidatorNameRequest,
        GetValidatorNameResponse,
        SequencerBlock as RawSequencerBlock,
    },
    celestia::v1::{
        query_server::{
            Query as BlobQueryService,
            QueryServer as BlobQueryServer,
        },
        Params as BlobParams,
        QueryParamsRequest as QueryBlobParamsRequest,
        QueryParamsResponse as QueryBlobParamsResponse,
    },
    cosmos::{
        auth::v1beta1::{
            query_server::{
                Query as AuthQueryService,
                QueryServer as AuthQueryServer,
            },
            BaseAccount,
            Params as AuthParams,
            QueryAccountRequest,
            QueryAccountResponse,
            QueryParamsRequest as QueryAuthParamsRequest,
            QueryParamsResponse as QueryAuthParamsResponse,
        },
        base::{
            abci::v1beta1::TxResponse,
            node::v1beta1::{
                service_server::{
                    Service as MinGasPriceService,
                    ServiceServer as MinGasPriceServer,
                },
                ConfigRequest as MinGasPriceRequest,
                ConfigResponse as MinGasPriceResponse,
            },
            tendermint::v1beta1::{
                service_server::{
                    Service as NodeInfoService,
                    ServiceServer as NodeInfoServer,
                },
                GetNodeInfoRequest,
                GetNodeInfoResponse,
            },
        },
        tx::v1beta1::{
            service_server::{
                Service as TxService,
                ServiceServer as TxServer,
            },
            BroadcastTxRequest,
            BroadcastTxResponse,
            GetTxRequest,
            GetTxResponse,
        },
    },
    tendermint::p2p::DefaultNodeInfo,
};
use prost::{
    Message as _,
    Name as _,
};
use telemetry::Metrics as _;
use tokio_util::sync::CancellationToken;
use tonic::{
    Request,
    Response,
    Status,
};

use super::{
    blocks,
    common::{
        Outcome,
        Violations,
    },
    hooks,
    scenario::{
        self,
        KillAt,
        Op,
        RpcKind,
        Scenario,
        LIVENESS_BUDGET_MS,
    },
    world::{
        self,
        lock,
        BroadcastVerdict,
        FileState,
        Reply,
        Shared,
        World,
        CELESTIA_CHAIN_ID,
        CELESTIA_HOST,
        SEQUENCER_HOST,
    },
};
use crate::{
    metrics::Metrics,
    IncludeRollup,
};

// ---------------------------------------------------------------------------------------------
// in-memory transport
// ---------------------------------------------------------------------------------------------

/// `tokio::io::DuplexStream` behind hyper's I/O traits.
pub(crate) struct HyperIo(tokio::io::DuplexStream);

impl hyper::rt::Read for HyperIo {
    fn poll_read(
        mut self: Pin<&mut Self>,
        cx: &mut Context<'_>,
        mut buf: hyper::rt::ReadBufCursor<'_>,
    ) -> Poll<std::io::Result<()>> {
        let mut tmp = [0u8; 16 * 1024];
        let n = tmp.len().min(buf.remaining());
        if n == 0 {
            return Poll::Ready(Ok(()));
        }
        let mut rb = tokio::io::ReadBuf::new(&mut tmp[..n]);
        match tokio::io::AsyncRead::poll_read(Pin::new(&mut self.0), cx, &mut rb) {
            Poll::Ready(Ok(())) => {
                buf.put_slice(rb.filled());
                Poll::Ready(Ok(()))
            }
            Poll::Ready(Err(e)) => Poll::Ready(Err(e)),
            Poll::Pending => Poll::Pending,
        }
    }
}

impl hyper::rt::Write for HyperIo {
    fn poll_write(
        mut self: Pin<&mut Self>,
        cx: &mut Context<'_>,
        buf: &[u8],
    ) -> Poll<std::io::Result<usize>> {
        tokio::io::AsyncWrite::poll_write(Pin::new(&mut self.0), cx, buf)
    }

    fn poll_flush(mut self: Pin<&mut Self>, cx: &mut Context<'_>) -> Poll<std::io::Result<()>> {
        tokio::io::AsyncWrite::poll_flush(Pin::new(&mut self.0), cx)
    }

    fn poll_shutdown(mut self: Pin<&mut Self>, cx: &mut Context<'_>) -> Poll<std::io::Result<()>> {
        tokio::io::AsyncWrite::poll_shutdown(Pin::new(&mut self.0), cx)
    }
}

#[derive(Clone)]
pub(crate) struct SimConnector {
    shared: Shared,
}

impl tonic::codegen::Service<http::Uri> for SimConnector {
    type Error = std::io::Error;
    type Future = Pin<Box<dyn Future<Output = Result<HyperIo, std::io::Error>> + Send>>;
    type Response = HyperIo;

    fn poll_ready(&mut self, _: &mut Context<'_>) -> Poll<Result<(), Self::Error>> {
        Poll::Ready(Ok(()))
    }

    fn call(&mut self, uri: http::Uri) -> Self::Future {
        let host = uri.host().unwrap_or_default().to_string();
        let res = {
            let mut w = lock(&self.shared);
            if w.killed {
                Err(std::io::Error::new(std::io::ErrorKind::ConnectionRefused, "process is dead"))
            } else if !w.on_connect(&host) {
                Err(std::io::Error::new(std::io::ErrorKind::ConnectionRefused, "injected: refused"))
            } else if let Some(tx) = w.incoming.get(&host) {
                let (client, server) = tokio::io::duplex(256 * 1024);
                if tx.send(Ok(server)).is_ok() {
                    Ok(HyperIo(client))
                } else {
                    Err(std::io::Error::new(std::io::ErrorKind::ConnectionRefused, "server gone"))
                }
            } else {
                Err(std::io::Error::new(std::io::ErrorKind::NotFound, "no such simulated host"))
            }
        };
        Box::pin(async move { res })
    }
}

/// Hook H8 lands here.
pub(crate) fn connect_lazy(shared: &Shared, endpoint: tonic::transport::Endpoint) -> tonic::transport::Channel {
    endpoint.connect_with_connector_lazy(SimConnector {
        shared: shared.clone(),
    })
}

async fn answer<T>(reply: Reply<T>) -> Result<Response<T>, Status> {
    match reply {
        Reply::After(ms, result) => {
            if ms > 0 {
                tokio::time::sleep(Duration::from_millis(ms)).await;
            }
            result.map(Response::new)
        }
        Reply::Never => std::future::pending().await,
    }
}

/// Like `answer`, but a stalled request fails after 30 simulated seconds (the relayer sets no
/// timeout on its sequencer gRPC channel; a real connection would be reset eventually).
async fn answer_capped<T>(reply: Reply<T>) -> Result<Response<T>, Status> {
    match reply {
        Reply::Never => {
            tokio::time::sleep(Duration::from_secs(30)).await;
            Err(Status::unavailable("injected: connection reset after stall"))
        }
        other => answer(other).await,
    }
}

// ---------------------------------------------------------------------------------------------
// fake Celestia app
// ---------------------------------------------------------------------------------------------

#[derive(Clone)]
struct FakeCelestia(Shared);

impl FakeCelestia {
    fn simple<T>(&self, kind: RpcKind, make: impl FnOnce(&mut World) -> T) -> Reply<T> {
        let mut w = lock(&self.0);
        match w.rpc_enter::<T>(kind) {
            Err(reply) => reply,
            Ok((nth, lat, late_kill)) => {
                let value = make(&mut w);
                let t = w.now_ms();
                w.ev(format!("t={t} {}#{nth}", kind.name()));
                w.rpc_finish(kind, nth, lat, late_kill, Ok(value))
            }
        }
    }
}

#[async_trait::async_trait]
impl NodeInfoService for FakeCelestia {
    async fn get_node_info(
        self: Arc<Self>,
        _request: Request<GetNodeInfoRequest>,
    ) -> Result<Response<GetNodeInfoResponse>, Status> {
        let reply = self.simple(RpcKind::NodeInfo, |_| GetNodeInfoResponse {
            default_node_info: Some(DefaultNodeInfo {
                network: CELESTIA_CHAIN_ID.to_string(),
                ..Default::default()
            }),
            ..Default::default()
        });
        answer(reply).await
    }
}

#[async_trait::async_trait]
impl AuthQueryService for FakeCelestia {
    async fn account(
        self: Arc<Self>,
        request: Request<QueryAccountRequest>,
    ) -> Result<Response<QueryAccountResponse>, Status> {
        let address = request.into_inner().address;
        let reply = self.simple(RpcKind::Account, |w| {
            w.drain_started = true;
            let account = BaseAccount {
                address,
                pub_key: None,
                account_number: w.cel.account_number,
                sequence: w.cel.sequence,
            };
            QueryAccountResponse {
                account: Some(pbjson_types::Any {
                    type_url: BaseAccount::type_url(),
                    value: account.encode_to_vec().into(),
                }),
            }
        });
        answer(reply).await
    }

    async fn params(
        self: Arc<Self>,
        _request: Request<QueryAuthParamsRequest>,
    ) -> Result<Response<QueryAuthParamsResponse>, Status> {
        let reply = self.simple(RpcKind::AuthParams, |w| QueryAuthParamsResponse {
            params: Some(AuthParams {
                max_memo_characters: 256,
                tx_sig_limit: 7,
                tx_size_cost_per_byte: w.cfg.tx_size_cost_per_byte,
                sig_verify_cost_ed25519: 590,
                sig_verify_cost_secp256k1: 1000,
            }),
        });
        answer(reply).await
    }
}

#[async_trait::async_trait]
impl BlobQueryService for FakeCelestia {
    async fn params(
        self: Arc<Self>,
        _request: Request<QueryBlobParamsRequest>,
    ) -> Result<Response<QueryBlobParamsResponse>, Status> {
        let reply = self.simple(RpcKind::BlobParams, |w| QueryBlobParamsResponse {
            params: Some(BlobParams {
                gas_per_blob_byte: w.cfg.gas_per_blob_byte,
                gov_max_square_size: 64,
            }),
        });
        answer(reply).await
    }
}

#[async_trait::async_trait]
impl MinGasPriceService for FakeCelestia {
    async fn config(
        self: Arc<Self>,
        _request: Request<MinGasPriceRequest>,
    ) -> Result<Response<MinGasPriceResponse>, Status> {
        let reply = self.simple(RpcKind::MinGasPrice, |w| MinGasPriceResponse {
            minimum_gas_price: match w.cfg.min_gas_price_kind {
                0 => "0.002000000000000000utia".to_string(),
                1 => String::new(),
                _ => "0.100000000000000000utia".to_string(),
            },
        });
        answer(reply).await
    }
}

#[async_trait::async_trait]
impl TxService for FakeCelestia {
    async fn get_tx(
        self: Arc<Self>,
        request: Request<GetTxRequest>,
    ) -> Result<Response<GetTxResponse>, Status> {
        let hash = request.into_inner().hash;
        let reply = {
            let mut w = lock(&self.0);
            match w.rpc_enter::<GetTxResponse>(RpcKind::GetTx) {
                Err(reply) => reply,
                Ok((nth, lat, late_kill)) => {
                    let result = match w.on_get_tx(nth, &hash) {
                        Some(height) => Ok(GetTxResponse {
                            tx: None,
                            tx_response: Some(TxResponse {
                                height: i64::try_from(height).unwrap_or(i64::MAX),
                                txhash: hash.to_ascii_uppercase(),
                                code: 0,
                                ..TxResponse::default()
                            }),
                        }),
                        None => Err(Status::not_found(format!("tx not found: {hash}"))),
                    };
                    w.rpc_finish(RpcKind::GetTx, nth, lat, late_kill, result)
                }
            }
        };
        answer(reply).await
    }

    async fn broadcast_tx(
        self: Arc<Self>,
        request: Request<BroadcastTxRequest>,
    ) -> Result<Response<BroadcastTxResponse>, Status> {
        let tx_bytes = request.into_inner().tx_bytes;
        let reply = {
            let mut w = lock(&self.0);
            match w.rpc_enter::<BroadcastTxResponse>(RpcKind::Broadcast) {
                Err(reply) => reply,
                Ok((nth, lat, late_kill)) => {
                    let verdict = w.on_broadcast(nth, &tx_bytes);
                    if let Some(op) = late_kill {
                        w.request_kill(&format!("rpc-broadcast_tx-after#{nth}"), Some(op));
                        Reply::Never
                    } else {
                        match verdict {
                            BroadcastVerdict::Stall => Reply::Never,
                            BroadcastVerdict::Status(status) => Reply::After(lat, Err(status)),
                            BroadcastVerdict::Code(code, log, txhash) => Reply::After(
                                lat,
                                Ok(BroadcastTxResponse {
                                    tx_response: Some(TxResponse {
                                        txhash,
                                        code,
                                        codespace: if code == 0 {
                                            String::new()
                                        } else {
                                            "sdk".to_string()
                                        },
                                        raw_log: log,
                                        ..TxResponse::default()
                                    }),
                                }),
                            ),
                        }
                    }
                }
            }
        };
        answer(reply).await
    }
}

fn spawn_celestia_server(shared: &Shared) {
    let (tx, rx) = tokio::sync::mpsc::unbounded_channel();
    lock(shared).incoming.insert(CELESTIA_HOST.to_string(), tx);
    let svc = FakeCelestia(shared.clone());
    tokio::spawn(async move {
        let _ = tonic::transport::Server::builder()
            .add_service(NodeInfoServer::new(svc.clone()))
            .add_service(AuthQueryServer::new(svc.clone()))
            .add_service(BlobQueryServer::new(svc.clone()))
            .add_service(MinGasPriceServer::new(svc.clone()))
            .add_service(TxServer::new(svc))
            .serve_with_incoming(tokio_stream::wrappers::UnboundedReceiverStream::new(rx))
            .await;
    });
}

// ---------------------------------------------------------------------------------------------
// fake sequencer (layer B)
// ---------------------------------------------------------------------------------------------

#[derive(Clone)]
struct FakeSequencer(Shared);

#[async_trait::async_trait]
impl SequencerService for FakeSequencer {
    async fn get_sequencer_block(
        self: Arc<Self>,
        request: Request<GetSequencerBlockRequest>,
    ) -> Result<Response<RawSequencerBlock>, Status> {
        let height = request.into_inner().height;
        let reply = {
            let mut w = lock(&self.0);
            match w.rpc_enter::<RawSequencerBlock>(RpcKind::SeqGetBlock) {
                Err(reply) => reply,
                Ok((nth, lat, late_kill)) => {
                    let t = w.now_ms();
                    let result = if height >= w.cfg.first_height.min(1) && height <= w.tip {
                        let block = blocks::build(&world::block_spec_for(&w, height));
                        w.handed.insert(height);
                        w.handed_this_incarnation.insert(height);
                        if !w.drain_started {
                            w.served_before_drain += 1;
                            if w.served_before_drain == 129 {
                                // 128 in the channel + 1 parked in `forward_once_free`
                                w.stats.probe("reader_backpressure_channel_full");
                            }
                        }
                        w.ev(format!("t={t} seq_get_block#{nth} height={height} -> served"));
                        Ok(block.into_raw())
                    } else {
                        w.ev(format!("t={t} seq_get_block#{nth} height={height} -> not found"));
                        Err(Status::not_found("block not found"))
                    };
                    w.rpc_finish(RpcKind::SeqGetBlock, nth, lat, late_kill, result)
                }
            }
        };
        answer_capped(reply).await
    }

    async fn get_filtered_sequencer_block(
        self: Arc<Self>,
        _request: Request<GetFilteredSequencerBlockRequest>,
    ) -> Result<Response<RawFilteredSequencerBlock>, Status> {
        Err(Status::unimplemented("not used by the relayer"))
    }

    async fn get_pending_nonce(
        self: Arc<Self>,
        _request: Request<GetPendingNonceRequest>,
    ) -> Result<Response<GetPendingNonceResponse>, Status> {
        Err(Status::unimplemented("not used by the relayer"))
    }

    async fn get_upgrades_info(
        self: Arc<Self>,
        _request: Request<GetUpgradesInfoRequest>,
    ) -> Result<Response<GetUpgradesInfoResponse>, Status> {
        Err(Status::unimplemented("not used by the relayer"))
    }

    async fn get_validator_name(
        self: Arc<Self>,
        _request: Request<GetValidatorNameRequest>,
    ) -> Result<Response<GetValidatorNameResponse>, Status> {
        Err(Status::unimplemented("not used by the relayer"))
    }
}

fn spawn_sequencer_server(shared: &Shared) {
    let (tx, rx) = tokio::sync::mpsc::unbounded_channel();
    lock(shared).incoming.insert(SEQUENCER_HOST.to_string(), tx);
    let svc = FakeSequencer(shared.clone());
    tokio::spawn(async move {
        let _ = tonic::transport::Server::builder()
            .add_service(SequencerServiceServer::new(svc))
            .serve_with_incoming(tokio_stream::wrappers::UnboundedReceiverStream::new(rx))
            .await;
    });
}

// ---------------------------------------------------------------------------------------------
// the process under test
// ---------------------------------------------------------------------------------------------

fn metrics() -> &'static Metrics {
    static M: OnceLock<&'static Metrics> = OnceLock::new();
    M.get_or_init(|| Box::leak(Box::new(Metrics::noop_metrics(&()).expect("noop metrics"))))
}

fn celestia_keys() -> crate::relayer::CelestiaKeys {
    let key = tendermint::private_key::Secp256k1::from_slice(&[0x42u8; 32]).expect("valid key");
    crate::relayer::CelestiaKeys::from(key)
}

fn include_rollup(filter: &[u8]) -> IncludeRollup {
    use base64::{
        prelude::BASE64_STANDARD,
        Engine as _,
    };
    let s: Vec<String> = filter
        .iter()
        .map(|r| BASE64_STANDARD.encode(blocks::rollup_id(*r).as_bytes()))
        .collect();
    IncludeRollup::parse(&s.join(",")).expect("valid filter")
}

/// How one incarnation of the process ended.
#[derive(Debug)]
enum ProcessEnd {
    /// The root future returned.
    Exited(Result<(), String>),
    Killed,
    /// The scenario is over (drained or out of budget).
    Done,
}

/// Wraps the process root future: counts suspensions and drops the inner future at the chosen one.
struct Root<F> {
    inner: Option<Pin<Box<F>>>,
    shared: Shared,
}

impl<F: Future> Future for Root<F> {
    type Output = Option<F::Output>;

    fn poll(mut self: Pin<&mut Self>, cx: &mut Context<'_>) -> Poll<Self::Output> {
        if lock(&self.shared).killed {
            self.inner = None;
            return Poll::Ready(None);
        }
        let Some(inner) = self.inner.as_mut() else {
            return Poll::Ready(None);
        };
        match inner.as_mut().poll(cx) {
            Poll::Ready(v) => {
                self.inner = None;
                Poll::Ready(Some(v))
            }
            Poll::Pending => {
                let kill = lock(&self.shared).on_root_pending();
                if kill {
                    // the lock is released before the process future (and the hooks' guards in
                    // it) is dropped
                    self.inner = None;
                    Poll::Ready(None)
                } else {
                    Poll::Pending
                }
            }
        }
    }
}

/// Layer A process: the real startup-state code, the real `CelestiaClientBuilder`, the real
/// `BlobSubmitter::run`; the reader (`Relayer::run` + `BlockStream`) is replaced by a feeder that
/// hands blocks over the real `BlobSubmitterHandle` starting at last completed + 1, as
/// `Relayer::run` does.
async fn submitter_process(
    shared: Shared,
    token: CancellationToken,
    mut tip_rx: tokio::sync::watch::Receiver<u64>,
) -> Result<(), String> {
    let (path, filter, default_price) = {
        let w = lock(&shared);
        (w.state_path(), include_rollup(&w.cfg.filter), 0.002)
    };
    let startup = crate::relayer::SubmissionStateAtStartup::new_from_path(&path)
        .await
        .map_err(|e| format!("startup: {e:#}"))?;
    let last = startup.last_completed_sequencer_height();
    let state = Arc::new(crate::relayer::State::new());
    let uri: http::Uri = format!("http://{CELESTIA_HOST}").parse().expect("uri");
    let builder = crate::relayer::CelestiaClientBuilder::new(
        CELESTIA_CHAIN_ID.to_string(),
        default_price,
        uri,
        celestia_keys(),
        state.clone(),
    )
    .map_err(|e| format!("builder: {e}"))?;
    let (submitter, handle) = crate::relayer::write::BlobSubmitter::new(
        builder,
        filter,
        state,
        startup,
        token,
        metrics(),
    );
    // the reader stand-in
    let feeder_shared = shared.clone();
    tokio::spawn(async move {
        let mut next = last.map_or(1, |h| h.value() + 1);
        loop {
            while *tip_rx.borrow() < next {
                if tip_rx.changed().await.is_err() {
                    return;
                }
            }
            let spec = {
                let mut w = lock(&feeder_shared);
                if w.killed {
                    return;
                }
                let t = w.now_ms();
                w.handed.insert(next);
                w.handed_this_incarnation.insert(next);
                w.ev(format!("t={t} feeder hands height {next}"));
                world::block_spec_for(&w, next)
            };
            let block = blocks::build(&spec);
            if handle.send(Box::new(block)).await.is_err() {
                return;
            }
            next += 1;
        }
    });
    submitter.run().await.map_err(|e| format!("{e:#}"))
}

/// Layer B process: the real `Relayer::run` (reader, forwarding, submitter task).
async fn whole_process(shared: Shared, token: CancellationToken) -> Result<(), String> {
    let (path, filter, poll_ms) = {
        let w = lock(&shared);
        (w.state_path(), include_rollup(&w.cfg.filter), w.cfg.sequencer_poll_ms)
    };
    let state = Arc::new(crate::relayer::State::new());
    let uri: http::Uri = format!("http://{CELESTIA_HOST}").parse().expect("uri");
    let celestia_client_builder = crate::relayer::CelestiaClientBuilder::new(
        CELESTIA_CHAIN_ID.to_string(),
        0.002,
        uri,
        celestia_keys(),
        state.clone(),
    )
    .map_err(|e| format!("builder: {e}"))?;
    let sequencer_grpc_client = SequencerServiceClient::new(connect_lazy(
        &shared,
        tonic::transport::Endpoint::from_static("http://sequencer.sim"),
    ));
    let sequencer_cometbft_client = super::seq::cometbft_client(&shared)?;
    let relayer = crate::relayer::Relayer {
        relayer_shutdown_token: token.clone(),
        submitter_shutdown_token: token.child_token(),
        sequencer_chain_id: blocks::SEQUENCER_CHAIN_ID.to_string(),
        sequencer_cometbft_client,
        sequencer_grpc_client,
        sequencer_poll_period: Duration::from_millis(poll_ms),
        celestia_client_builder,
        rollup_filter: filter,
        state,
        submission_state_path: path,
        metrics: metrics(),
    };
    relayer.run().await.map_err(|e| format!("{e:#}"))
}

struct TimedOps {
    arrivals: Vec<(u64, u32)>,
    time_kills: Vec<(u64, usize)>,
    shutdowns: Vec<(u64, usize)>,
}

/// One incarnation: runs until the process exits, is killed, or the scenario is over.
async fn drive(shared: Shared, sc: &Scenario, timed: &mut TimedOps) -> ProcessEnd {
    let end = drive_inner(shared.clone(), sc, timed).await;
    // freeze simulated time while the paused clock of this runtime can still be read
    let mut w = lock(&shared);
    let t = w.now_ms();
    w.base_ms = t;
    w.inc_start = None;
    end
}

async fn drive_inner(shared: Shared, sc: &Scenario, timed: &mut TimedOps) -> ProcessEnd {
    let (kill_notify, whole, tip0) = {
        let mut w = lock(&shared);
        w.inc_start = Some(tokio::time::Instant::now());
        w.kill_notify = Arc::new(tokio::sync::Notify::new());
        w.polls = 0;
        w.in_write = false;
        w.first_write_begun = false;
        w.writes_this_incarnation = 0;
        w.served_before_drain = 0;
        w.drain_started = false;
        w.killed = false;
        w.kill_at_end_of_poll = false;
        w.handed_this_incarnation.clear();
        (w.kill_notify.clone(), w.cfg.whole_process, w.tip)
    };
    hooks::set_sim(Some(shared.clone()));
    spawn_celestia_server(&shared);
    let token = CancellationToken::new();
    let (tip_tx, tip_rx) = tokio::sync::watch::channel(tip0);
    let mut root = if whole {
        spawn_sequencer_server(&shared);
        super::seq::register(&shared);
        tokio::spawn(Root {
            inner: Some(Box::pin(whole_process(shared.clone(), token.clone()))),
            shared: shared.clone(),
        })
    } else {
        tokio::spawn(Root {
            inner: Some(Box::pin(submitter_process(shared.clone(), token.clone(), tip_rx))),
            shared: shared.clone(),
        })
    };
    let start = tokio::time::Instant::now();
    let base = lock(&shared).base_ms;
    let horizon = sc.cfg.horizon_ms;
    let mut stuck_restart_done = false;
    loop {
        // next instant at which the world (not the process) does something
        let now = lock(&shared).now_ms();
        let mut next = now + 5_000;
        {
            let w = lock(&shared);
            next = next.min(w.cel.next_block_ms);
        }
        if let Some((t, _)) = timed.arrivals.first() {
            next = next.min((*t).max(now));
        }
        if let Some((t, _)) = timed.time_kills.first() {
            next = next.min((*t).max(now));
        }
        if let Some((t, _)) = timed.shutdowns.first() {
            next = next.min((*t).max(now));
        }
        if now < horizon {
            next = next.min(horizon);
        }
        let deadline = start + Duration::from_millis(next.saturating_sub(base));
        tokio::select! {
            biased;
            () = kill_notify.notified() => return ProcessEnd::Killed,
            res = &mut root => {
                return match res {
                    Ok(Some(r)) => ProcessEnd::Exited(r),
                    Ok(None) => ProcessEnd::Killed,
                    Err(join) => {
                        let msg = if join.is_panic() {
                            super::common::take_last_panic().unwrap_or_else(|| "panic".into())
                        } else {
                            "cancelled".into()
                        };
                        ProcessEnd::Exited(Err(format!("PANIC: {msg}")))
                    }
                };
            }
            () = tokio::time::sleep_until(deadline) => {}
        }
        let mut w = lock(&shared);
        let t = w.sync();
        if t >= horizon && w.faults_on {
            w.faults_on = false;
            w.ev(format!("t={t} faults off"));
        }
        while timed.arrivals.first().is_some_and(|(at, _)| *at <= t) {
            let (_, n) = timed.arrivals.remove(0);
            w.tip += u64::from(n);
            let tip = w.tip;
            w.ev(format!("t={t} sequencer tip -> {tip}"));
            let _ = tip_tx.send(tip);
        }
        // timed process faults; those whose instant passed while the process was down, or after
        // the faults were switched off, are dropped
        let live = w.cfg.kills && w.faults_on;
        while let Some((at, op)) = timed.time_kills.first().copied() {
            if at > t {
                break;
            }
            timed.time_kills.remove(0);
            if live && at + 1_000 > t && at > base {
                w.request_kill("time", Some(op));
                return ProcessEnd::Killed;
            }
        }
        while let Some((at, op)) = timed.shutdowns.first().copied() {
            if at > t {
                break;
            }
            timed.shutdowns.remove(0);
            // (`at > base`: an instant that passed while the process was down would otherwise fire in
            // the first iteration of the new incarnation, racing with the helper thread of its startup
            // file write)
            if live && at + 1_000 > t && at > base && !token.is_cancelled() {
                w.stats.fault("graceful_shutdown");
                w.last_kill_op = Some(op);
                w.ev(format!("t={t} SIGTERM"));
                token.cancel();
            }
        }
        // end of scenario?
        if t >= horizon && timed.arrivals.is_empty() {
            if w.all_confirmed() && w.mempool_len() == 0 {
                return ProcessEnd::Done;
            }
            if t >= horizon + LIVENESS_BUDGET_MS {
                return ProcessEnd::Done;
            }
            // The relayer polls GetTx without a timeout for a BlobTx whose broadcast was
            // acknowledged; if the node dropped that tx the process waits forever. An operator
            // restart is the only way out; do it once, after the faults have stopped.
            if !stuck_restart_done
                && w.cfg.kills
                && w.operator_restarts < 3
                && w.mempool_len() == 0
                && t > w.last_broadcast_ms.max(base) + 150_000
                && t > horizon + 150_000
            {
                stuck_restart_done = true;
                w.operator_restarts += 1;
                w.stats.probe("operator_restart_of_stuck_process");
                w.request_kill("operator-restart", None);
                return ProcessEnd::Killed;
            }
        }
    }
}

fn classify_exit(w: &mut World, res: &Result<(), String>) {
    let t = w.now_ms();
    match res {
        Ok(()) => {
            w.ev(format!("t={t} process exited cleanly"));
        }
        Err(e) => {
            let e = w.sanitize(e);
            // keep the trace free of anything but the stable head of the message
            let head: String = e.chars().take(160).collect();
            w.ev(format!("t={t} process exited with error: {head}"));
            let step = w.step;
            if e.starts_with("PANIC") {
                w.viol.push("C11", "process-panicked", "panic-in-relayer", step, e.clone());
            }
            if e.starts_with("startup:") {
                // the real startup code refused the state file
                let file = w.read_state_file();
                let injected = e.contains("injected fault");
                if !injected {
                    w.startup_refused = true;
                    w.viol.push(
                        "C11",
                        "state-file-unreadable",
                        "startup-refused",
                        step,
                        format!(
                            "SubmissionStateAtStartup::new_from_path failed in incarnation {}: \
                             {e}; harness reads the file as {:?}",
                            w.incarnation, file
                        ),
                    );
                }
            }
            if e.contains("is too large") {
                w.oversized_exit = true;
                w.stats.probe("oversized_block_error_path");
            }
        }
    }
}

fn make_temp_dir() -> std::path::PathBuf {
    static COUNTER: std::sync::atomic::AtomicU64 = std::sync::atomic::AtomicU64::new(0);
    let n = COUNTER.fetch_add(1, std::sync::atomic::Ordering::Relaxed);
    let dir = std::env::temp_dir().join(format!("verif-relayersim-{}-{n}", std::process::id()));
    let _ = std::fs::remove_dir_all(&dir);
    std::fs::create_dir_all(&dir).expect("create temp dir");
    dir
}

pub(crate) struct RunResult {
    pub violations: Violations,
    pub stats: super::common::Stats,
    pub trace: super::common::Trace,
    pub polls_inc0: u32,
    pub writes_inc0: u32,
}

/// Executes one scenario once (no enumeration), optionally with one additional kill.
pub(crate) fn run_once(sc: &Scenario, extra_kill: Option<KillAt>) -> RunResult {
    let dir = make_temp_dir();
    let world = World::new(sc, dir.clone(), extra_kill.clone());
    world::write_initial_state(&world);
    let shared: Shared = Arc::new(std::sync::Mutex::new(world));

    let mut timed = TimedOps {
        arrivals: Vec::new(),
        time_kills: Vec::new(),
        shutdowns: Vec::new(),
    };
    let all_ops: Vec<Op> = sc
        .ops
        .iter()
        .cloned()
        .chain(extra_kill.map(|when| Op::Kill {
            when,
            down_ms: 0,
            clock_jump_s: 0,
        }))
        .collect();
    for (i, op) in all_ops.iter().enumerate() {
        match op {
            Op::Arrive {
                at_ms,
                n,
            } => timed.arrivals.push((*at_ms, *n)),
            Op::Kill {
                when: KillAt::Time {
                    at_ms,
                },
                ..
            } => timed.time_kills.push((*at_ms, i)),
            Op::Shutdown {
                at_ms, ..
            } => timed.shutdowns.push((*at_ms, i)),
            _ => {}
        }
    }
    timed.arrivals.sort_by_key(|a| a.0);
    timed.time_kills.sort_by_key(|a| a.0);
    timed.shutdowns.sort_by_key(|a| a.0);

    let mut polls_inc0 = 0;
    let mut writes_inc0 = 0;
    let mut incarnations = 0u32;
    let mut crash_loops = 0u32;
    loop {
        let rt = tokio::runtime::Builder::new_current_thread()
            .enable_all()
            .start_paused(true)
            .build()
            .expect("runtime");
        let end = rt.block_on(drive(shared.clone(), sc, &mut timed));
        // freeze simulated time, then kill everything that is left of the process
        {
            let mut w = lock(&shared);
            w.killed = true;
            w.incoming.clear();
            if w.incarnation == 0 {
                polls_inc0 = w.polls;
                writes_inc0 = w.writes_this_incarnation;
            }
        }
        drop(rt);
        hooks::set_sim(None);
        if sc.cfg.whole_process {
            super::seq::unregister();
        }
        incarnations += 1;

        let mut w = lock(&shared);
        w.apply_torn_write();
        let (down_ms, jump_s) = match &end {
            ProcessEnd::Done => break,
            ProcessEnd::Killed => match w.last_kill_op.take().and_then(|i| all_ops.get(i).cloned()) {
                Some(Op::Kill {
                    down_ms,
                    clock_jump_s,
                    ..
                }) => (down_ms, clock_jump_s),
                _ => (1_000, 0),
            },
            ProcessEnd::Exited(res) => {
                classify_exit(&mut w, res);
                if w.oversized_exit || w.startup_refused {
                    // terminal: the process can never get past this point again
                    break;
                }
                if res.is_err() {
                    crash_loops += 1;
                }
                match w.last_kill_op.take().and_then(|i| all_ops.get(i).cloned()) {
                    Some(Op::Shutdown {
                        down_ms, ..
                    }) => (down_ms, 0),
                    _ => (1_000, 0),
                }
            }
        };
        if incarnations > 40 || crash_loops > 12 {
            let step = w.step;
            w.viol.push(
                "C11",
                "crash-loop",
                "process-keeps-exiting",
                step,
                format!("{incarnations} incarnations, {crash_loops} error exits"),
            );
            break;
        }
        // the world goes on while the process is down
        let t_up = w.base_ms + down_ms;
        w.advance_chain_to(t_up);
        w.base_ms = t_up;
        if jump_s != 0 {
            w.wall_offset_ms += jump_s * 1000;
            w.stats.fault(if jump_s > 0 {
                "clock_jump_forward"
            } else {
                "clock_jump_backward"
            });
        }
        w.incarnation += 1;
        let file = w.read_state_file();
        let tx = match &file {
            FileState::Prepared {
                blob_tx_hash, ..
            } => {
                if w.cel.confirmed.contains_key(blob_tx_hash) {
                    w.stats.probe("restart_prepared_tx_confirmed");
                    "confirmed"
                } else if w.cel.seen.contains_key(blob_tx_hash) {
                    w.stats.probe("restart_prepared_tx_not_confirmed");
                    "known"
                } else {
                    w.stats.probe("restart_prepared_tx_unknown_to_celestia");
                    "unknown"
                }
            }
            _ => "none",
        };
        let has_tmp = w.dir.join(format!("{}.tmp", world::STATE_FILE)).exists();
        if has_tmp {
            w.stats.probe("restart_with_leftover_temp_file");
        }
        w.stats.probe(&format!("restart_state_{}", file.tag()));
        let behind = w.tip.saturating_sub(
            w.cel.confirmed_heights.keys().next_back().copied().unwrap_or(w.cfg.first_height - 1),
        );
        w.trace.abs(&format!(
            "restart file={} tx={tx} behind={}",
            file.tag(),
            match behind {
                0 => "0",
                1..=3 => "few",
                _ => "many",
            }
        ));
        let inc = w.incarnation;
        let t = w.base_ms;
        w.ev(format!(
            "t={t} RESTART inc={inc} down={down_ms} jump={jump_s}s leftover_tmp={has_tmp}"
        ));
        w.check_state_file("at-restart");
    }

    // ---- end of run: history checks ----------------------------------------------------------
    let mut guard = lock(&shared);
    let w: &mut World = &mut guard;
    let t = w.base_ms;
    w.check_no_gap("end-of-run");
    w.check_state_file("end-of-run");
    if !w.all_confirmed() && !w.oversized_exit && !w.startup_refused {
        let missing: Vec<u64> = (w.cfg.first_height..=w.tip)
            .filter(|h| !w.cel.confirmed_heights.contains_key(h))
            .take(5)
            .collect();
        let step = w.step;
        let msg = format!(
            "{} simulated ms after the last fault the backlog is not confirmed: heights {missing:?}.. \
             missing (tip {}, file {:?})",
            t.saturating_sub(sc.cfg.horizon_ms),
            w.tip,
            w.read_state_file()
        );
        w.viol.push("C11", "bounded-liveness", "backlog-not-confirmed-after-faults-stop", step, msg);
    }
    if !sc.cfg.kills {
        w.check_exactly_once();
    }
    // expected terminal outcome for an oversized block: the error path, and only then
    let oversized_handed = sc
        .cfg
        .blocks
        .oversized
        .iter()
        .any(|h| w.handed.contains(h) && blocks::oversized_effective(&sc.cfg.blocks, &sc.cfg.filter, *h));
    if oversized_handed != w.oversized_exit && !sc.cfg.kills {
        let step = w.step;
        w.viol.push(
            "C12",
            "oversized-block-path",
            if oversized_handed {
                "oversized-block-did-not-take-error-path"
            } else {
                "error-path-without-oversized-block"
            },
            step,
            format!(
                "oversized block handed: {oversized_handed}; submitter exited with the oversized \
                 error: {}",
                w.oversized_exit
            ),
        );
    }
    // non-triviality
    if w.kill_in_flight {
        w.stats.mark_nontrivial("C11");
    }
    let multi = w.cel.submissions.iter().any(|s| s.len() > 1);
    if !sc.cfg.kills && multi && (w.cel.submissions.len() > 1 || !sc.cfg.filter.is_empty()) {
        w.stats.mark_nontrivial("C12");
    }
    if sc.cfg.kills && multi {
        // content checks of C12 also ran here
        w.stats.probe("c12_content_checked_under_kills");
    }
    w.stats.probe_n("incarnations", u64::from(incarnations));
    w.stats.probe_n("celestia_txs_confirmed", u64::from(w.cel.confirmed_txs));
    w.stats.steps = w.step;
    w.stats.sim_ms = t;
    let end_abs = format!("end confirmed={} subs={}", w.all_confirmed(), w.cel.submissions.len().min(9));
    w.trace.abs(&end_abs);
    let trace = std::mem::take(&mut w.trace);
    let mut stats = std::mem::take(&mut w.stats);
    stats.finish(&trace);
    let violations = std::mem::take(&mut w.viol);
    drop(guard);
    let _ = std::fs::remove_dir_all(&dir);
    RunResult {
        violations,
        stats,
        trace,
        polls_inc0,
        writes_inc0,
    }
}

/// Full run of a scenario, including the thorough-tier enumeration of the kill index.
pub(crate) fn run(sc: &Scenario) -> Outcome {
    if !sc.cfg.enum_kill {
        let r = run_once(sc, None);
        return Outcome {
            violations: r.violations.list,
            stats: r.stats,
            trace_lines: r.trace.lines,
        };
    }
    // dry run without the enumerated kill: counts the suspensions of incarnation 0
    let dry = run_once(sc, None);
    let n = dry.polls_inc0.min(600);
    let mut trace = dry.trace;
    let mut stats = dry.stats;
    let mut viol = dry.violations;
    // the enumerated crash points of incarnation 0: every counted suspension of the root future,
    // plus the three points of every `State::write` and two torn variants of each write
    // long waits (GetTx polling of a BlobTx that is late or lost) repeat the same suspension
    // pattern: beyond the first 150 suspensions every 7th is taken
    let mut points: Vec<KillAt> = (1..=n)
        .filter(|k| *k <= 150 || k % 7 == 0)
        .map(|k| KillAt::Poll {
            inc: 0,
            k,
        })
        .collect();
    for nth in 1..=dry.writes_inc0.min(40) {
        for point in 0..3u8 {
            points.push(KillAt::Write {
                nth,
                point,
                torn_permille: None,
            });
        }
        for permille in [0u16, 500] {
            points.push(KillAt::Write {
                nth,
                point: 1,
                torn_permille: Some(permille),
            });
        }
    }
    let selected: Vec<(usize, KillAt)> = match sc.cfg.enum_only_k {
        Some(k) => points.into_iter().enumerate().filter(|(i, _)| *i + 1 == k as usize).collect(),
        None => points.into_iter().enumerate().collect(),
    };
    stats.probe_n("enum_kill_points", selected.len() as u64);
    for (i, when) in selected {
        let k = i + 1;
        let r = run_once(sc, Some(when.clone()));
        trace.ev(&format!("enum k={k} hash={:x}", r.stats.log_hash));
        trace.abs(&format!("k{k}:{:x}", r.stats.run_sig));
        if trace.keep && (!r.violations.list.is_empty() || sc.cfg.enum_only_k.is_some()) {
            trace.lines.extend(r.trace.lines.iter().map(|l| format!("  [k={k}] {l}")));
        }
        for v in r.violations.list {
            viol.push(
                &v.property,
                &v.oracle,
                &v.signature,
                v.step,
                format!("[enumerated crash point {k} of incarnation 0: {when:?}] {}", v.message),
            );
        }
        for (name, c) in r.stats.faults {
            *stats.faults.entry(name).or_default() += c;
        }
        for (name, c) in r.stats.probes {
            *stats.probes.entry(name).or_default() += c;
        }
        for p in r.stats.nontrivial {
            stats.mark_nontrivial(&p);
        }
        stats.steps += r.stats.steps;
        stats.sim_ms += r.stats.sim_ms;
    }
    stats.finish(&trace);
    Outcome {
        violations: viol.list,
        stats,
        trace_lines: trace.lines,
    }
}

#[allow(dead_code)]
pub(crate) fn n_blocks(sc: &Scenario) -> u64 {
    scenario::n_blocks(sc)
}
