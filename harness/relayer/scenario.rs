//! Scenario = config + symbolic op list for the `relayersim` engine, the seeded generator and the
//! minimiser glue.
//!
//! Ops never carry absolute identities that shift when other ops are deleted: RPC-related ops
//! name "the nth request of kind K that the fake Celestia sees" (counted over the whole run),
//! write-related ops name "the nth call of `State::write`", kills by suspension name "the k-th
//! suspension of the process root future in incarnation i". Blocks are a pure function of
//! `(cfg.blocks, height)`.

use serde::{
    Deserialize,
    Serialize,
};

use super::{
    blocks::BlockCfg,
    common::Rng,
};

#[derive(Serialize, Deserialize, Clone, Copy, Debug, PartialEq, Eq, PartialOrd, Ord, Hash)]
pub(crate) enum RpcKind {
    NodeInfo,
    Account,
    AuthParams,
    BlobParams,
    MinGasPrice,
    Broadcast,
    GetTx,
    // layer B (fake sequencer)
    SeqGetBlock,
    SeqAbciInfo,
    SeqStatus,
}

pub(crate) const RPC_KINDS: [RpcKind; 10] = [
    RpcKind::NodeInfo,
    RpcKind::Account,
    RpcKind::AuthParams,
    RpcKind::BlobParams,
    RpcKind::MinGasPrice,
    RpcKind::Broadcast,
    RpcKind::GetTx,
    RpcKind::SeqGetBlock,
    RpcKind::SeqAbciInfo,
    RpcKind::SeqStatus,
];

impl RpcKind {
    pub(crate) fn idx(self) -> usize {
        RPC_KINDS.iter().position(|k| *k == self).unwrap()
    }

    pub(crate) fn name(self) -> &'static str {
        match self {
            RpcKind::NodeInfo => "node_info",
            RpcKind::Account => "account",
            RpcKind::AuthParams => "auth_params",
            RpcKind::BlobParams => "blob_params",
            RpcKind::MinGasPrice => "min_gas_price",
            RpcKind::Broadcast => "broadcast_tx",
            RpcKind::GetTx => "get_tx",
            RpcKind::SeqGetBlock => "seq_get_block",
            RpcKind::SeqAbciInfo => "seq_abci_info",
            RpcKind::SeqStatus => "seq_status",
        }
    }
}

/// What the fake Celestia does with the nth BlobTx it is sent (if the model's own CheckTx rules
/// accept it at all).
#[derive(Serialize, Deserialize, Clone, Debug, PartialEq, Eq)]
pub(crate) enum TxOut {
    /// Enters the mempool, answered with code 0, included in the first block produced at least
    /// `delay_ms` after arrival. `delay_ms` > 60 000 gives "confirmed only after the relayer's
    /// confirmation timeout".
    Include { delay_ms: u64 },
    /// Enters the mempool, answered with code 0, evicted after `evict_ms` without inclusion.
    Lost { evict_ms: u64 },
    /// Enters the mempool and is included after `delay_ms`, but the response never makes it back:
    /// `stall` = no answer (the relayer's 5 s request timeout fires), otherwise gRPC `Unavailable`.
    RespLost { delay_ms: u64, stall: bool },
    /// The request never reaches the node: no mempool entry; stall or gRPC error.
    ReqLost { stall: bool },
    /// Rejected with code 13 and the "insufficient fees; got: Xutia required: Yutia" hint; the node
    /// then insists on at least Y.
    FeeReject { bump: u64 },
    /// Rejected with code 32 (account sequence mismatch) although the sequence was right.
    SeqReject,
    /// Rejected with another CheckTx error code.
    OtherReject { code: u32 },
}

#[derive(Serialize, Deserialize, Clone, Debug, PartialEq, Eq)]
pub(crate) enum RpcFault {
    /// gRPC status `Unavailable`.
    Error,
    /// No answer (client-side timeout fires).
    Stall,
    /// Answer after `ms` (below the client timeout).
    Slow { ms: u64 },
}

#[derive(Serialize, Deserialize, Clone, Debug, PartialEq, Eq)]
pub(crate) enum KillAt {
    /// At the k-th suspension (`Poll::Pending`) of the process root future of incarnation `inc`.
    Poll { inc: u32, k: u32 },
    /// When the nth request of `kind` arrives at the fake: `after_effect = false` kills before the
    /// node has acted on it (request lost with the process), `true` after (e.g. BlobTx in the
    /// mempool, response never seen).
    Rpc { kind: RpcKind, nth: u32, after_effect: bool },
    /// Inside the nth `State::write`: point 0 = before the temp file is written, 1 = after it was
    /// written but before the rename, 2 = right after the rename. `torn_permille` (only with
    /// point 1): the crash hit *during* the write - every file that write touched is left as a
    /// prefix of the new content of that length.
    Write { nth: u32, point: u8, torn_permille: Option<u16> },
    /// At a simulated instant.
    Time { at_ms: u64 },
}

#[derive(Serialize, Deserialize, Clone, Debug, PartialEq, Eq)]
pub(crate) enum Op {
    /// `n` further sequencer blocks exist from `at_ms` on.
    Arrive { at_ms: u64, n: u32 },
    Tx { nth: u32, out: TxOut },
    Rpc { kind: RpcKind, nth: u32, fault: RpcFault },
    /// Kill -9 and restart after `down_ms`; the wall clock jumps by `clock_jump_s` over the restart.
    Kill { when: KillAt, down_ms: u64, clock_jump_s: i64 },
    /// SIGTERM-like: cancel the shutdown token at `at_ms`, wait for exit, restart after `down_ms`.
    Shutdown { at_ms: u64, down_ms: u64 },
    /// The nth `State::write` fails with an I/O error at `point` (0 before temp, 1 after temp).
    WriteError { nth: u32, point: u8 },
    /// The nth connection attempt to the Celestia endpoint is refused.
    ConnectRefused { nth: u32 },
}

#[derive(Serialize, Deserialize, Clone, Debug, PartialEq, Eq)]
pub(crate) struct Cfg {
    pub seed: u64,
    pub blocks: BlockCfg,
    /// First height the relayer has to relay. 1 = state file `fresh`; h > 1 = state file
    /// `started` with last submission h - 1.
    pub first_height: u64,
    /// Rollup indexes to include (empty = all).
    pub filter: Vec<u8>,
    pub celestia_block_ms: u64,
    pub latency_ms: u64,
    pub gas_per_blob_byte: u32,
    pub tx_size_cost_per_byte: u64,
    /// 0: "0.002utia"-like, 1: empty (relayer uses its default), 2: a larger price.
    pub min_gas_price_kind: u8,
    /// Faults (ops keyed by request number) apply only to requests arriving before this instant;
    /// afterwards the world is benign and bounded liveness is checked.
    pub horizon_ms: u64,
    /// Kills allowed (false = C12 "no-crash" profile: exactly-once is checked).
    pub kills: bool,
    /// Thorough tier: run the scenario once per suspension index of incarnation 0.
    pub enum_kill: bool,
    /// When set, the enumeration only runs this index (used by the minimiser).
    pub enum_only_k: Option<u32>,
    /// Layer B: run `Relayer::run` with the real reader against a fake sequencer.
    pub whole_process: bool,
    pub sequencer_poll_ms: u64,
}

#[derive(Serialize, Deserialize, Clone, Debug)]
pub(crate) struct Scenario {
    pub cfg: Cfg,
    pub ops: Vec<Op>,
}

pub(crate) const LIVENESS_BUDGET_MS: u64 = 20 * 60 * 1000;

fn gen_tx_out(rng: &mut Rng, block_ms: u64, fam: &Families) -> TxOut {
    let w = [
        40,
        if fam.lost { 10 } else { 0 },
        if fam.resp_lost { 14 } else { 0 },
        if fam.req_lost { 8 } else { 0 },
        if fam.late { 10 } else { 0 },
        if fam.fee { 8 } else { 0 },
        if fam.seq { 5 } else { 0 },
        if fam.other_reject { 3 } else { 0 },
    ];
    match rng.weighted(&w) {
        0 => TxOut::Include {
            delay_ms: rng.below(2 * block_ms + 1),
        },
        1 => TxOut::Lost {
            evict_ms: rng.range(0, 90_000),
        },
        2 => TxOut::RespLost {
            delay_ms: if rng.chance(1, 4) {
                rng.range(61_000, 150_000)
            } else {
                rng.below(3 * block_ms + 1)
            },
            stall: rng.chance(1, 2),
        },
        3 => TxOut::ReqLost {
            stall: rng.chance(1, 2),
        },
        4 => TxOut::Include {
            delay_ms: rng.range(16_000, 200_000),
        },
        5 => TxOut::FeeReject {
            bump: rng.range(1, 5_000),
        },
        6 => TxOut::SeqReject,
        _ => TxOut::OtherReject {
            code: *rng.pick(&[5u32, 11, 20, 21]),
        },
    }
}

struct Families {
    lost: bool,
    resp_lost: bool,
    req_lost: bool,
    late: bool,
    fee: bool,
    seq: bool,
    other_reject: bool,
    rpc: bool,
    write_err: bool,
    connect: bool,
    clock: bool,
    shutdown: bool,
}

fn gen_kill_at(rng: &mut Rng, horizon_ms: u64, inc: u32) -> KillAt {
    match rng.weighted(&[30, 15, 25, 20, 10]) {
        0 => KillAt::Rpc {
            kind: RpcKind::Broadcast,
            nth: rng.below(6) as u32,
            after_effect: rng.chance(3, 4),
        },
        1 => KillAt::Rpc {
            kind: *rng.pick(&[
                RpcKind::GetTx,
                RpcKind::GetTx,
                RpcKind::Account,
                RpcKind::NodeInfo,
                RpcKind::MinGasPrice,
            ]),
            nth: rng.below(8) as u32,
            after_effect: rng.chance(1, 2),
        },
        2 => {
            let point = rng.below(3) as u8;
            KillAt::Write {
                nth: rng.below(10) as u32 + 1,
                point,
                torn_permille: if point == 1 && rng.chance(1, 2) {
                    Some(rng.below(1000) as u16)
                } else {
                    None
                },
            }
        }
        3 => KillAt::Poll {
            inc,
            k: rng.range(1, 160) as u32,
        },
        _ => KillAt::Time {
            at_ms: rng.below(horizon_ms),
        },
    }
}

pub(crate) fn generate(profile: &str, tier: &str, seed: u64) -> Scenario {
    let mut rng = Rng::new(seed);
    let nokill = profile == "submitter-nokill";
    let whole_process = profile == "process" || profile == "process-nokill";
    let nokill = nokill || profile == "process-nokill";
    let enum_kill = !nokill && tier == "thorough" && rng.chance(1, 2);

    // ---- sizes and knobs -----------------------------------------------------------------------
    let size_class = if nokill {
        rng.weighted(&[30, 30, 18, 22]) as u8
    } else if enum_kill {
        rng.weighted(&[60, 35, 5, 0]) as u8
    } else {
        rng.weighted(&[44, 36, 17, 3]) as u8
    };
    // layer B only: many tiny blocks exist at once while the submitter cannot yet take them (the
    // Celestia node does not answer), so the 128-slot channel fills up and the reader is paused
    let backpressure = whole_process && !enum_kill && rng.chance(if nokill { 3 } else { 2 }, 20);
    let size_class = if backpressure { 0 } else { size_class };
    let n_blocks: u32 = if backpressure {
        rng.range(131, if tier == "thorough" { 220 } else { 150 }) as u32
    } else if enum_kill {
        rng.range(1, 5) as u32
    } else if size_class == 3 {
        rng.range(2, if tier == "thorough" { 12 } else { 8 }) as u32
    } else {
        rng.range(1, 26) as u32
    };
    // With kills the process rebuilds its blobs after a restart, and the order of the rollup blobs
    // inside a BlobTx comes from `HashMap` iteration in `conversion.rs` (unseedable): two runs of
    // one seed could then produce different tx hashes for the same submission. One rollup
    // namespace keeps the blob order (metadata, rollup) fixed; multi-rollup content is covered by
    // the profiles without restarts.
    let n_rollups = if nokill { rng.range(1, 5) as u8 } else { 1 };
    let first_height = if rng.chance(7, 10) {
        1
    } else {
        rng.range(2, 100_000)
    };
    let oversized = if nokill && !whole_process && rng.chance(1, 12) {
        vec![first_height + rng.below(u64::from(n_blocks))]
    } else {
        vec![]
    };
    let blocks = BlockCfg {
        seed: rng.next_u64(),
        n_rollups,
        size_class,
        oversized,
        empty_permille: *rng.pick(&[0u16, 100, 300, 800]),
        deposit_permille: *rng.pick(&[0u16, 200, 600]),
    };
    let filter: Vec<u8> = if rng.chance(1, 3) {
        let mut f: Vec<u8> = (0..n_rollups + 1).filter(|_| rng.chance(1, 2)).collect();
        if f.is_empty() {
            // a filter naming only a rollup that never appears: everything is filtered
            f.push(n_rollups);
        }
        f
    } else {
        vec![]
    };
    let celestia_block_ms = *rng.pick(&[1_500u64, 4_000, 6_000, 12_000, 15_000]);
    let horizon_ms = if enum_kill {
        rng.range(20_000, 90_000)
    } else {
        rng.range(30_000, 400_000)
    };

    let fam = Families {
        // a BlobTx that is acknowledged and then dropped by the node makes the relayer poll GetTx
        // forever (no timeout in `CelestiaClient::try_submit`); only a restart gets it out, so the
        // outcome is generated in the profiles with restarts only
        lost: rng.chance(1, 2) && !nokill,
        resp_lost: rng.chance(3, 5),
        req_lost: rng.chance(1, 2),
        late: rng.chance(1, 2),
        fee: rng.chance(1, 2),
        seq: rng.chance(1, 3),
        other_reject: rng.chance(1, 4),
        rpc: rng.chance(1, 2),
        write_err: !nokill && rng.chance(1, 4),
        connect: rng.chance(1, 4),
        clock: rng.chance(1, 2),
        shutdown: !nokill && rng.chance(1, 5),
    };

    let mut ops = Vec::new();

    // ---- workload: block arrivals ------------------------------------------------------------
    if backpressure {
        ops.push(Op::Arrive {
            at_ms: 0,
            n: n_blocks,
        });
        for nth in 0..rng.range(2, 5) as u32 {
            ops.push(Op::Rpc {
                kind: RpcKind::NodeInfo,
                nth,
                fault: RpcFault::Stall,
            });
        }
    } else {
        let mut left = n_blocks;
        let mut t = 0u64;
        let burst_gap = *rng.pick(&[0u64, 500, 2_000, 10_000, 30_000]);
        while left > 0 {
            let n = if rng.chance(1, 3) {
                left
            } else {
                rng.range(1, u64::from(left)) as u32
            };
            ops.push(Op::Arrive {
                at_ms: t,
                n,
            });
            left -= n;
            t += rng.below(burst_gap + 1) + if rng.chance(1, 5) { rng.below(horizon_ms / 2 + 1) } else { 0 };
            t = t.min(horizon_ms.saturating_sub(1));
        }
    }

    // ---- Celestia-side outcomes -------------------------------------------------------------
    let n_tx_ops = if enum_kill { rng.range(0, 2) } else { rng.range(0, 8) };
    for _ in 0..n_tx_ops {
        let nth = rng.below(if enum_kill { 3 } else { 10 }) as u32;
        if ops.iter().any(|o| matches!(o, Op::Tx{nth: n, ..} if *n == nth)) {
            continue;
        }
        ops.push(Op::Tx {
            nth,
            out: gen_tx_out(&mut rng, celestia_block_ms, &fam),
        });
    }
    if fam.rpc {
        for _ in 0..rng.range(1, 6) {
            let kind = *rng.pick(&[
                RpcKind::NodeInfo,
                RpcKind::Account,
                RpcKind::AuthParams,
                RpcKind::BlobParams,
                RpcKind::MinGasPrice,
                RpcKind::GetTx,
                RpcKind::GetTx,
                RpcKind::GetTx,
            ]);
            let fault = match rng.below(3) {
                0 => RpcFault::Error,
                1 => RpcFault::Stall,
                _ => RpcFault::Slow {
                    ms: rng.range(200, 4_800),
                },
            };
            ops.push(Op::Rpc {
                kind,
                nth: rng.below(12) as u32,
                fault,
            });
        }
    }
    if fam.connect {
        for _ in 0..rng.range(1, 3) {
            ops.push(Op::ConnectRefused {
                nth: rng.below(4) as u32,
            });
        }
    }
    if whole_process && rng.chance(1, 2) {
        for _ in 0..rng.range(1, 6) {
            let kind = *rng.pick(&[
                RpcKind::SeqGetBlock,
                RpcKind::SeqGetBlock,
                RpcKind::SeqAbciInfo,
                RpcKind::SeqStatus,
            ]);
            let fault = match rng.below(3) {
                0 => RpcFault::Error,
                1 => RpcFault::Stall,
                _ => RpcFault::Slow {
                    ms: rng.range(200, 20_000),
                },
            };
            ops.push(Op::Rpc {
                kind,
                nth: rng.below(20) as u32,
                fault,
            });
        }
    }

    // ---- process faults -----------------------------------------------------------------------
    if !nokill {
        let n_kills = if enum_kill {
            // the enumerated kill is added at run time; sometimes a second crash during recovery
            u64::from(rng.chance(1, 3))
        } else {
            rng.weighted(&[5, 40, 30, 15, 10]) as u64
        };
        for i in 0..n_kills {
            let inc = if enum_kill { 1 } else { i as u32 };
            let when = gen_kill_at(&mut rng, horizon_ms, inc);
            let down_ms = match rng.weighted(&[30, 30, 25, 15]) {
                0 => 0,
                1 => rng.range(1, 5_000),
                2 => rng.range(5_000, 70_000),
                _ => rng.range(70_000, 300_000),
            };
            let clock_jump_s = if fam.clock && rng.chance(1, 2) {
                let mag = *rng.pick(&[1i64, 20, 59, 61, 600, 86_400]);
                if rng.chance(1, 2) {
                    mag
                } else {
                    -mag
                }
            } else {
                0
            };
            ops.push(Op::Kill {
                when,
                down_ms,
                clock_jump_s,
            });
        }
        if fam.write_err {
            ops.push(Op::WriteError {
                nth: rng.range(1, 8) as u32,
                point: rng.below(2) as u8,
            });
        }
        if fam.shutdown {
            ops.push(Op::Shutdown {
                at_ms: rng.below(horizon_ms),
                down_ms: rng.range(0, 20_000),
            });
        }
    }

    Scenario {
        cfg: Cfg {
            seed: rng.next_u64(),
            blocks,
            first_height,
            filter,
            celestia_block_ms,
            latency_ms: rng.range(0, 40),
            gas_per_blob_byte: *rng.pick(&[8u32, 1, 20]),
            tx_size_cost_per_byte: *rng.pick(&[10u64, 1, 100]),
            min_gas_price_kind: rng.below(3) as u8,
            horizon_ms,
            kills: !nokill,
            enum_kill,
            enum_only_k: None,
            whole_process,
            sequencer_poll_ms: *rng.pick(&[500u64, 1_000, 2_000]),
        },
        ops,
    }
}

pub(crate) fn n_blocks(sc: &Scenario) -> u64 {
    sc.ops
        .iter()
        .map(|o| match o {
            Op::Arrive {
                n, ..
            } => u64::from(*n),
            _ => 0,
        })
        .sum()
}

pub(crate) fn retain(sc: &Scenario, keep: &[bool]) -> Scenario {
    Scenario {
        cfg: sc.cfg.clone(),
        ops: sc
            .ops
            .iter()
            .zip(keep)
            .filter(|(_, k)| **k)
            .map(|(o, _)| o.clone())
            .collect(),
    }
}

pub(crate) fn simplify(sc: &Scenario) -> Vec<Scenario> {
    let mut out = Vec::new();
    let mut push = |f: &dyn Fn(&mut Scenario) -> bool| {
        let mut c = sc.clone();
        if f(&mut c) {
            out.push(c);
        }
    };
    push(&|c| {
        let ch = c.cfg.blocks.size_class > 0;
        c.cfg.blocks.size_class = 0;
        ch
    });
    push(&|c| {
        let ch = !c.cfg.filter.is_empty();
        c.cfg.filter.clear();
        ch
    });
    push(&|c| {
        let ch = c.cfg.blocks.n_rollups > 1;
        c.cfg.blocks.n_rollups = 1;
        c.cfg.filter.clear();
        ch
    });
    push(&|c| {
        let ch = c.cfg.first_height != 1;
        c.cfg.first_height = 1;
        c.cfg.blocks.oversized.clear();
        ch
    });
    push(&|c| {
        let ch = c.cfg.blocks.deposit_permille != 0 || c.cfg.blocks.empty_permille != 0;
        c.cfg.blocks.deposit_permille = 0;
        c.cfg.blocks.empty_permille = 0;
        ch
    });
    push(&|c| {
        let ch = c.cfg.latency_ms != 0;
        c.cfg.latency_ms = 0;
        ch
    });
    // fewer blocks per arrival, kills without downtime / clock jump
    for i in 0..sc.ops.len() {
        match &sc.ops[i] {
            Op::Arrive {
                at_ms,
                n,
            } if *n > 1 => {
                let mut c = sc.clone();
                c.ops[i] = Op::Arrive {
                    at_ms: *at_ms,
                    n: n / 2,
                };
                out.push(c);
            }
            Op::Kill {
                when,
                down_ms,
                clock_jump_s,
            } if *down_ms != 0 || *clock_jump_s != 0 => {
                let mut c = sc.clone();
                c.ops[i] = Op::Kill {
                    when: when.clone(),
                    down_ms: 0,
                    clock_jump_s: 0,
                };
                out.push(c);
            }
            _ => {}
        }
    }
    // an enumerating scenario: pin the enumeration to one index
    if sc.cfg.enum_kill && sc.cfg.enum_only_k.is_none() {
        for k in 1..=900u32 {
            let mut c = sc.clone();
            c.cfg.enum_only_k = Some(k);
            out.push(c);
        }
    }
    out
}

pub(crate) fn summarize(sc: &Scenario) -> serde_json::Value {
    let ops: Vec<String> = sc.ops.iter().take(24).map(|o| format!("{o:?}")).collect();
    serde_json::json!({
        "first_height": sc.cfg.first_height,
        "blocks": n_blocks(sc),
        "size_class": sc.cfg.blocks.size_class,
        "n_rollups": sc.cfg.blocks.n_rollups,
        "filter": sc.cfg.filter,
        "oversized": sc.cfg.blocks.oversized,
        "celestia_block_ms": sc.cfg.celestia_block_ms,
        "horizon_ms": sc.cfg.horizon_ms,
        "kills": sc.cfg.kills,
        "enum_kill": sc.cfg.enum_kill,
        "whole_process": sc.cfg.whole_process,
        "ops": ops,
        "ops_total": sc.ops.len(),
    })
}
