//! Engine E3 `relayersim`: deterministic simulation of astria-sequencer-relayer with fault
//! injection (properties C11, C12). Mounted as `crate::relayer::verif` by hook H4; a second small
//! mount (`conv.rs`, as `crate::relayer::write::verif_conv`) reaches the items private to
//! `relayer::write` (`conversion::NextSubmission`).
//!
//! See NOTES.md in this directory.
#![allow(dead_code, unreachable_pub, unused_imports, clippy::all, clippy::pedantic)]

#[path = "/verif/harness/common/mod.rs"]
pub(crate) mod common;

pub(crate) mod blocks;
pub(crate) mod decode;
pub(crate) mod scenario;
pub(crate) mod seq;
pub(crate) mod sim;
pub(crate) mod world;

/// The functions the hooks in the crate call (H5 in `submission.rs`, H8 in
/// `celestia_client/builder.rs`). All of them are inert when no simulation is registered on the
/// current thread, so the crate's ordinary tests behave as before.
pub(crate) mod hooks {
    use std::cell::RefCell;

    use super::world::{
        lock,
        Shared,
    };

    thread_local! {
        static SIM: RefCell<Option<Shared>> = const { RefCell::new(None) };
    }

    pub(crate) fn set_sim(shared: Option<Shared>) {
        SIM.with(|s| *s.borrow_mut() = shared);
    }

    fn sim() -> Option<Shared> {
        SIM.with(|s| s.borrow().clone())
    }

    /// H5: `SystemTime::now()` of `submission.rs`.
    pub(crate) fn now() -> std::time::SystemTime {
        match sim() {
            Some(shared) => lock(&shared).wall_now(),
            None => std::time::SystemTime::now(),
        }
    }

    /// H5: fault points inside `State::write`.
    pub(crate) async fn fault_point(name: &'static str) -> Result<(), std::io::Error> {
        if name == "state.write.before_tmp" && sim().is_some() {
            // Let every other task of the process and of the fakes run until it blocks. While the
            // file operations that follow are in flight the paused clock cannot advance, so
            // nothing else becomes runnable and the write is atomic with respect to the scheduler:
            // the real-time duration of `tokio::fs` calls cannot reorder simulated events.
            // "until it blocks" = 48 consecutive yields during which no simulated event was logged
            // (a reader working off a long backlog needs thousands of polls before it blocks on the
            // full channel; a fixed count left it racing with the helper thread of `tokio::fs`).
            let events = || sim().map_or(0, |shared| lock(&shared).trace.events);
            let (mut last, mut quiet) = (events(), 0u32);
            for _ in 0..200_000 {
                tokio::task::yield_now().await;
                let now = events();
                if now == last {
                    quiet += 1;
                    if quiet >= 48 {
                        break;
                    }
                } else {
                    last = now;
                    quiet = 0;
                }
            }
        }
        let action = match sim() {
            Some(shared) => lock(&shared).on_fault_point(name),
            None => 0,
        };
        match action {
            0 => Ok(()),
            1 => Err(std::io::Error::new(
                std::io::ErrorKind::Other,
                "injected fault: no space left on device",
            )),
            _ => std::future::pending().await,
        }
    }

    /// H5: created at the top of `State::write`; its drop marks "the write returned" (the point
    /// right after the rename).
    pub(crate) struct AfterRenameGuard(());

    impl AfterRenameGuard {
        pub(crate) fn new() -> Self {
            if let Some(shared) = sim() {
                lock(&shared).on_write_begin();
            }
            Self(())
        }
    }

    impl Drop for AfterRenameGuard {
        fn drop(&mut self) {
            if let Some(shared) = sim() {
                lock(&shared).on_write_done();
            }
        }
    }

    /// H8: the lazily connecting channel of the Celestia client.
    pub(crate) fn connect_lazy(endpoint: tonic::transport::Endpoint) -> tonic::transport::Channel {
        match sim() {
            Some(shared) => super::sim::connect_lazy(&shared, endpoint),
            None => endpoint.connect_lazy(),
        }
    }
}

pub(crate) struct RelayerSim;

impl common::Engine for RelayerSim {
    type Scenario = scenario::Scenario;

    const NAME: &'static str = "relayersim";

    fn generate(profile: &str, tier: &str, seed: u64) -> Self::Scenario {
        scenario::generate(profile, tier, seed)
    }

    fn run(sc: &Self::Scenario) -> common::Outcome {
        sim::run(sc)
    }

    fn len(sc: &Self::Scenario) -> usize {
        sc.ops.len()
    }

    fn retain(sc: &Self::Scenario, keep: &[bool]) -> Self::Scenario {
        scenario::retain(sc, keep)
    }

    fn simplify(sc: &Self::Scenario) -> Vec<Self::Scenario> {
        scenario::simplify(sc)
    }

    fn summarize(sc: &Self::Scenario) -> serde_json::Value {
        scenario::summarize(sc)
    }
}

#[test]
fn verif_main() {
    let Some(job) = common::read_job() else {
        return;
    }; // inert unless VERIF_JOB is set
    match job.engine.as_str() {
        "relayersim" => common::engine_main::<RelayerSim>(&job),
        "relayerconv" => common::engine_main::<super::write::verif_conv::ConvSim>(&job),
        other => panic!("unknown engine {other}"),
    }
}
