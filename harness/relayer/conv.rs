//! Engine `relayerconv` (C12, component level): drives the real `NextSubmission::{try_add, take}`
//! of `relayer/write/conversion.rs` with the control flow of `BlobSubmitter::run`'s select loop
//! (`pending_block`, "submission in progress" gating, skip of already-submitted heights), under
//! PRNG-chosen interleavings of "block arrives" and "submission slot becomes free".
//!
//! Mounted as `crate::relayer::write::verif_conv` (second mount of hook H4) because `conversion`
//! is private to `relayer::write`. Shares block generation and the conductor-way decoder with the
//! main harness module `crate::relayer::verif`.
#![allow(dead_code, unreachable_pub, unused_imports, clippy::all, clippy::pedantic)]

use std::collections::VecDeque;

use sequencer_client::SequencerBlock;
use serde::{
    Deserialize,
    Serialize,
};
use telemetry::Metrics as _;

use super::conversion::{
    NextSubmission,
    Submission,
    TryAddError,
};
use crate::{
    metrics::Metrics,
    relayer::verif::{
        blocks::{
            self,
            BlockCfg,
        },
        common::{
            self,
            Outcome,
            Rng,
            Stats,
            Trace,
            Violations,
        },
        decode::{
            self,
            RawBlob,
        },
        world::fmt_heights,
    },
    IncludeRollup,
};

#[derive(Serialize, Deserialize, Clone, Debug, PartialEq, Eq)]
pub(crate) enum ConvOp {
    /// The next block (next height) is put into the submitter's channel.
    Arrive,
    /// The submission in flight (if any) completes; the loop sees it at its next iteration.
    Done,
    /// One iteration of the select loop.
    Step,
}

#[derive(Serialize, Deserialize, Clone, Debug)]
pub(crate) struct ConvScenario {
    pub blocks: BlockCfg,
    pub first_height: u64,
    pub filter: Vec<u8>,
    /// Heights at or below this are "already submitted" (`started_submission` at startup); blocks
    /// below it that arrive must be skipped.
    pub already_submitted: u64,
    pub ops: Vec<ConvOp>,
}

pub(crate) struct ConvSim;

fn metrics() -> &'static Metrics {
    static M: std::sync::OnceLock<&'static Metrics> = std::sync::OnceLock::new();
    M.get_or_init(|| Box::leak(Box::new(Metrics::noop_metrics(&()).expect("noop metrics"))))
}

fn include_rollup(filter: &[u8]) -> IncludeRollup {
    use base64::{
        prelude::BASE64_STANDARD,
        Engine as _,
    };
    let s: Vec<String> = filter
        .iter()
        .map(|r| BASE64_STANDARD.encode(blocks::rollup_id(*r).as_bytes()))
        .collect();
    IncludeRollup::parse(&s.join(",")).expect("valid filter")
}

fn poll_take(next: &mut NextSubmission) -> Option<Submission> {
    // `TakeSubmission` is ready at its first poll
    use std::{
        future::Future as _,
        task::{
            Context,
            Poll,
            RawWaker,
            RawWakerVTable,
            Waker,
        },
    };
    fn raw() -> RawWaker {
        fn no(_: *const ()) {}
        fn clone(_: *const ()) -> RawWaker {
            raw()
        }
        static VT: RawWakerVTable = RawWakerVTable::new(clone, no, no, no);
        RawWaker::new(std::ptr::null(), &VT)
    }
    let waker = unsafe { Waker::from_raw(raw()) };
    let mut cx = Context::from_waker(&waker);
    let mut fut = std::pin::pin!(next.take());
    match fut.as_mut().poll(&mut cx) {
        Poll::Ready(v) => v,
        Poll::Pending => panic!("TakeSubmission must be ready when polled"),
    }
}

impl common::Engine for ConvSim {
    type Scenario = ConvScenario;

    const NAME: &'static str = "relayerconv";

    fn generate(_profile: &str, _tier: &str, seed: u64) -> ConvScenario {
        let mut rng = Rng::new(seed);
        let size_class = rng.weighted(&[30, 30, 20, 20]) as u8;
        let n_blocks = if size_class == 3 {
            rng.range(2, 14)
        } else {
            rng.range(1, 40)
        };
        let n_rollups = rng.range(1, 6) as u8;
        let first_height = if rng.chance(1, 2) {
            1
        } else {
            rng.range(2, 1_000_000)
        };
        let oversized = if rng.chance(1, 10) {
            vec![first_height + rng.below(n_blocks)]
        } else {
            vec![]
        };
        let filter: Vec<u8> = if rng.chance(2, 5) {
            let mut f: Vec<u8> = (0..n_rollups + 1).filter(|_| rng.chance(1, 2)).collect();
            if f.is_empty() {
                f.push(n_rollups);
            }
            f
        } else {
            vec![]
        };
        let already_submitted = if rng.chance(1, 4) {
            first_height + rng.below(n_blocks.min(3))
        } else {
            first_height - 1
        };
        // interleaving: weights of the three op kinds vary per run (slow vs fast Celestia)
        let w_arrive = *rng.pick(&[1u32, 3, 6]);
        let w_done = *rng.pick(&[1u32, 2, 6]);
        let w_step = *rng.pick(&[2u32, 4, 8]);
        let mut ops = Vec::new();
        let mut arrived = 0;
        while arrived < n_blocks {
            match rng.weighted(&[w_arrive, w_done, w_step]) {
                0 => {
                    ops.push(ConvOp::Arrive);
                    arrived += 1;
                }
                1 => ops.push(ConvOp::Done),
                _ => ops.push(ConvOp::Step),
            }
        }
        ConvScenario {
            blocks: BlockCfg {
                seed: rng.next_u64(),
                n_rollups,
                size_class,
                oversized,
                empty_permille: *rng.pick(&[0u16, 100, 300, 800]),
                deposit_permille: *rng.pick(&[0u16, 200, 600]),
            },
            first_height,
            filter,
            already_submitted,
            ops,
        }
    }

    fn run(sc: &ConvScenario) -> Outcome {
        let mut trace = Trace::new();
        let mut stats = Stats::default();
        let mut viol = Violations::default();

        let mut next_submission = NextSubmission::new(include_rollup(&sc.filter), metrics());
        let mut queue: VecDeque<SequencerBlock> = VecDeque::new();
        let mut pending_block: Option<SequencerBlock> = None;
        let mut ongoing: Option<u64> = None; // greatest height of the submission in flight
        let mut done_ready = false;
        let mut last_submitted = sc.already_submitted;
        let mut next_height = sc.first_height;
        let mut accumulated: Vec<u64> = Vec::new(); // heights the harness saw accepted by try_add
        let mut handed: Vec<u64> = Vec::new(); // heights that had to be submitted
        let mut submissions: Vec<Vec<u64>> = Vec::new();
        let mut terminal: Option<u64> = None; // oversized error at this height
        let mut deferred = 0u64;
        let mut step = 0u64;

        // the ops, then a drain phase that lets everything complete
        let drain = std::iter::repeat([ConvOp::Done, ConvOp::Step, ConvOp::Step]).flatten();
        let mut drain_budget = 6 * (sc.ops.len() + 8);
        let mut ops = sc.ops.iter().cloned().chain(drain);

        loop {
            let Some(op) = ops.next() else { break };
            step += 1;
            if step > sc.ops.len() as u64 {
                // drain phase
                drain_budget -= 1;
                let idle = queue.is_empty() && pending_block.is_none() && ongoing.is_none()
                    && accumulated.is_empty();
                if idle || drain_budget == 0 || terminal.is_some() {
                    break;
                }
            }
            if terminal.is_some() {
                break;
            }
            // adds a block the way `add_sequencer_block_to_next_submission` does
            let mut add = |block: SequencerBlock,
                           next_submission: &mut NextSubmission,
                           pending_block: &mut Option<SequencerBlock>,
                           accumulated: &mut Vec<u64>,
                           trace: &mut Trace,
                           stats: &mut Stats,
                           viol: &mut Violations|
             -> Option<u64> {
                let h = block.height().value();
                match next_submission.try_add(block) {
                    Ok(()) => {
                        trace.ev(&format!("add {h} ok"));
                        accumulated.push(h);
                        None
                    }
                    Err(TryAddError::Full(block)) => {
                        trace.ev(&format!("add {h} full"));
                        stats.probe("block_deferred_payload_full");
                        deferred += 1;
                        if accumulated.is_empty() {
                            viol.push(
                                "C12",
                                "full-on-empty",
                                "full-returned-for-empty-accumulator",
                                step,
                                format!("try_add({h}) returned Full although nothing is accumulated"),
                            );
                        }
                        if block.height().value() != h {
                            viol.push(
                                "C12",
                                "exactly-once",
                                "full-returned-another-block",
                                step,
                                format!("try_add({h}) handed back height {}", block.height()),
                            );
                        }
                        *pending_block = Some(*block);
                        None
                    }
                    Err(TryAddError::OversizedBlock {
                        sequencer_height, ..
                    }) => {
                        trace.ev(&format!("add {h} oversized"));
                        stats.probe("oversized_block_error_path");
                        if !blocks::oversized_effective(&sc.blocks, &sc.filter, h)
                            || sequencer_height.value() != h
                        {
                            viol.push(
                                "C12",
                                "oversized-block-path",
                                "error-path-without-oversized-block",
                                step,
                                format!("try_add({h}) reported an oversized block at \
                                         {sequencer_height} but the block is small"),
                            );
                        }
                        Some(h)
                    }
                    Err(other) => {
                        viol.push(
                            "C12",
                            "conversion-error",
                            "try-add-failed",
                            step,
                            format!("try_add({h}) failed: {other}"),
                        );
                        Some(h)
                    }
                }
            };
            match op {
                ConvOp::Arrive => {
                    let spec = blocks::spec(&sc.blocks, next_height);
                    queue.push_back(blocks::build(&spec));
                    if next_height > sc.already_submitted {
                        handed.push(next_height);
                    }
                    trace.ev(&format!("arrive {next_height}"));
                    next_height += 1;
                }
                ConvOp::Done => {
                    if ongoing.is_some() {
                        done_ready = true;
                    }
                }
                ConvOp::Step => {
                    // select!(biased; shutdown, ongoing result, take, recv)
                    if ongoing.is_some() && done_ready {
                        last_submitted = ongoing.take().unwrap_or(last_submitted);
                        done_ready = false;
                        trace.ev(&format!("submission done up to {last_submitted}"));
                        continue;
                    }
                    if ongoing.is_none() {
                        if let Some(submission) = poll_take(&mut next_submission) {
                            let heights = check_submission(
                                sc,
                                submission,
                                &accumulated,
                                step,
                                &mut viol,
                                &mut stats,
                            );
                            trace.ev(&format!("take {}", fmt_heights(&heights)));
                            trace.abs(&format!("take:{}", heights.len()));
                            accumulated.clear();
                            ongoing = Some(heights.iter().copied().max().unwrap_or(last_submitted));
                            submissions.push(heights);
                            if let Some(block) = pending_block.take() {
                                terminal = add(
                                    block,
                                    &mut next_submission,
                                    &mut pending_block,
                                    &mut accumulated,
                                    &mut trace,
                                    &mut stats,
                                    &mut viol,
                                );
                            }
                            continue;
                        }
                    }
                    if pending_block.is_none() {
                        if let Some(block) = queue.pop_front() {
                            let h = block.height().value();
                            if h <= last_submitted {
                                trace.ev(&format!("skip {h}"));
                                stats.probe("block_skipped_already_submitted");
                                // the block counts as covered by the earlier submission
                                handed.retain(|x| *x != h);
                            } else {
                                terminal = add(
                                    block,
                                    &mut next_submission,
                                    &mut pending_block,
                                    &mut accumulated,
                                    &mut trace,
                                    &mut stats,
                                    &mut viol,
                                );
                            }
                        }
                    }
                }
            }
        }

        // ---- history checks -----------------------------------------------------------------
        let mut expect_next: Option<u64> = None;
        for (i, s) in submissions.iter().enumerate() {
            if s.is_empty() {
                viol.push("C12", "exactly-once", "empty-submission", step, format!("submission {i} is empty"));
                continue;
            }
            let contiguous = s.windows(2).all(|w| w[1] == w[0] + 1);
            let first_ok = expect_next.map_or(true, |n| s[0] == n);
            if !contiguous || !first_ok {
                let sig = if expect_next.is_some_and(|n| s[0] < n) {
                    "block-in-two-submissions"
                } else {
                    "block-skipped-between-submissions"
                };
                viol.push(
                    "C12",
                    "exactly-once",
                    sig,
                    step,
                    format!(
                        "submission {i} = {} after expecting {:?}; all: {}",
                        fmt_heights(s),
                        expect_next,
                        submissions.iter().map(|s| fmt_heights(s)).collect::<Vec<_>>().join(" ")
                    ),
                );
            }
            expect_next = Some(s.last().copied().unwrap_or(0) + 1);
        }
        if terminal.is_none() {
            for h in &handed {
                let n = submissions.iter().filter(|s| s.contains(h)).count();
                if n != 1 {
                    viol.push(
                        "C12",
                        "exactly-once",
                        if n == 0 {
                            "handed-block-in-no-submission"
                        } else {
                            "block-in-two-submissions"
                        },
                        step,
                        format!(
                            "height {h} was handed over and is in {n} submissions: {}",
                            submissions.iter().map(|s| fmt_heights(s)).collect::<Vec<_>>().join(" ")
                        ),
                    );
                    break;
                }
            }
        }
        // an oversized block that was handed over and reached try_add must have ended the run
        if let Some(h) = terminal {
            trace.abs("terminal-oversized");
            let _ = h;
        } else if let Some(h) = sc
            .blocks
            .oversized
            .iter()
            .find(|h| handed.contains(h) && blocks::oversized_effective(&sc.blocks, &sc.filter, **h))
        {
            viol.push(
                "C12",
                "oversized-block-path",
                "oversized-block-did-not-take-error-path",
                step,
                format!("block {h} alone exceeds the limit but was not rejected with the oversized error"),
            );
        }
        if submissions.iter().any(|s| s.len() > 1) && deferred > 0 {
            stats.mark_nontrivial("C12");
        }
        stats.probe_n("submissions", submissions.len() as u64);
        stats.steps = step;
        stats.finish(&trace);
        Outcome {
            violations: viol.list,
            stats,
            trace_lines: trace.lines,
        }
    }

    fn len(sc: &ConvScenario) -> usize {
        sc.ops.len()
    }

    fn retain(sc: &ConvScenario, keep: &[bool]) -> ConvScenario {
        let mut c = sc.clone();
        c.ops = sc
            .ops
            .iter()
            .zip(keep)
            .filter(|(_, k)| **k)
            .map(|(o, _)| o.clone())
            .collect();
        c
    }

    fn simplify(sc: &ConvScenario) -> Vec<ConvScenario> {
        let mut out = Vec::new();
        if sc.blocks.size_class > 0 {
            let mut c = sc.clone();
            c.blocks.size_class -= 1;
            out.push(c);
        }
        if !sc.filter.is_empty() {
            let mut c = sc.clone();
            c.filter.clear();
            out.push(c);
        }
        if sc.blocks.n_rollups > 1 {
            let mut c = sc.clone();
            c.blocks.n_rollups = 1;
            c.filter.clear();
            out.push(c);
        }
        if sc.first_height != 1 {
            let mut c = sc.clone();
            c.already_submitted = c.already_submitted.saturating_sub(c.first_height - 1);
            c.blocks.oversized = c.blocks.oversized.iter().map(|h| h - (c.first_height - 1)).collect();
            c.first_height = 1;
            out.push(c);
        }
        if sc.blocks.deposit_permille != 0 || sc.blocks.empty_permille != 0 {
            let mut c = sc.clone();
            c.blocks.deposit_permille = 0;
            c.blocks.empty_permille = 0;
            out.push(c);
        }
        out
    }

    fn summarize(sc: &ConvScenario) -> serde_json::Value {
        let ops: String = sc
            .ops
            .iter()
            .take(120)
            .map(|o| match o {
                ConvOp::Arrive => 'A',
                ConvOp::Done => 'D',
                ConvOp::Step => 's',
            })
            .collect();
        serde_json::json!({
            "first_height": sc.first_height, "already_submitted": sc.already_submitted,
            "size_class": sc.blocks.size_class, "n_rollups": sc.blocks.n_rollups,
            "filter": sc.filter, "oversized": sc.blocks.oversized, "ops": ops,
            "ops_total": sc.ops.len(),
        })
    }
}

/// Per-submission checks: what `take()` handed out is exactly what was accumulated, in order, within
/// the bound, and decodes the conductor's way to the blocks' data.
fn check_submission(
    sc: &ConvScenario,
    submission: Submission,
    accumulated: &[u64],
    step: u64,
    viol: &mut Violations,
    stats: &mut Stats,
) -> Vec<u64> {
    let claimed_size = submission.compressed_size();
    let num_blocks = submission.num_blocks();
    let greatest = submission.greatest_sequencer_height().value();
    let blobs: Vec<RawBlob> = submission
        .into_blobs()
        .into_iter()
        .map(|b| RawBlob {
            namespace: b.namespace,
            data: b.data,
        })
        .collect();
    let mut findings = Vec::new();
    let decoded = decode::decode_and_check(&sc.blocks, &sc.filter, &blobs, &mut findings);
    for f in findings {
        viol.push("C12", f.oracle, &f.signature, step, f.message);
    }
    if decoded.heights != accumulated {
        viol.push(
            "C12",
            "exactly-once",
            "taken-submission-differs-from-accumulated-blocks",
            step,
            format!(
                "take() returned blocks {:?} but the blocks accepted by try_add since the last \
                 take were {:?}",
                decoded.heights, accumulated
            ),
        );
    }
    if claimed_size != decoded.compressed || num_blocks != decoded.heights.len() {
        viol.push(
            "C12",
            "payload-bound",
            "reported-size-differs-from-blobs",
            step,
            format!(
                "Submission reports {claimed_size} bytes / {num_blocks} blocks, blobs carry {} \
                 bytes / {} blocks",
                decoded.compressed,
                decoded.heights.len()
            ),
        );
    }
    if decoded.heights.iter().copied().max() != Some(greatest) {
        viol.push(
            "C12",
            "order",
            "greatest-height-wrong",
            step,
            format!("greatest_sequencer_height() = {greatest}, blocks {:?}", decoded.heights),
        );
    }
    if decoded.heights.len() > 1 {
        stats.probe("submissions_multi_block");
    }
    if decoded.compressed > 500_000 {
        stats.probe("submissions_over_half_limit");
    }
    let mut h = decoded.heights;
    h.sort_unstable();
    h
}
