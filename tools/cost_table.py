#!/usr/bin/env python3
"""Prints a markdown table of measured cost/reach per property from evidence/*.json."""
import glob, json, os
VERIF = os.path.dirname(os.path.dirname(os.path.abspath(__file__)))
ROWS = []
ROWS.append("| Property | Runs | Distinct non-trivial | CPU s in runs | Runs/hour (16 workers) | Simulated time (s) | Fault kinds fired / injections | Probes hit |")
ROWS.append("|---|---|---|---|---|---|---|---|")
for f in sorted(glob.glob(os.path.join(VERIF, "evidence", "C*.json"))):
    e = json.load(open(f)); c = e["coverage"]
    ff = c.get("faults_fired", {})
    sim = c.get("simulated_seconds", c.get("simulated_time_s", c.get("simulated_ms", 0) / 1000 if c.get("simulated_ms") else ""))
    ROWS.append("| %s | %d | %d | %.0f | %d | %s | %d / %d | %d |" % (
        os.path.basename(f)[:-5], c["evaluations"], c["distinct_nontrivial"], c.get("cpu_seconds_in_runs", 0),
        c.get("runs_per_hour", 0), sim if sim == "" else int(sim), len([k for k, v in ff.items() if v]), sum(ff.values()), len([k for k, v in c.get("probes_hit", {}).items() if v])))


def into_design():
    """Replaces the block between the COST-TABLE markers of DESIGN.md by the current table."""
    import io, contextlib, runpy
    p = os.path.join(VERIF, "DESIGN.md")
    s = open(p).read()
    a, b = s.index("<!-- COST-TABLE-BEGIN -->"), s.index("<!-- COST-TABLE-END -->")
    open(p, "w").write(s[:a] + "<!-- COST-TABLE-BEGIN -->\n" + TABLE + s[b:])


TABLE = "\n".join(ROWS) + "\n"
if __name__ == "__main__":
    import sys
    print(TABLE)
    if "--design" in sys.argv:
        into_design()
