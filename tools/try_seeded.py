#!/usr/bin/env python3
"""Apply a seeded change (seeded/<id>/patch.diff) to /repo, run the given checks, undo it.

  tools/try_seeded.py <seeded-id> <Cxx> [<Cyy> ...] [--tier quick] [--seeds 1,2,3]

Prints one line per (check, seed) with exit code and the VIOLATION/oracle lines, and appends the
outcome to seeded/<id>/runs.jsonl. The patch is always reverted (git checkout -- .) at the end.
"""
import json
import os
import subprocess
import sys
import time

VERIF = os.path.dirname(os.path.dirname(os.path.abspath(__file__)))
REPO = "/repo"


def main():
    args = [a for a in sys.argv[1:] if not a.startswith("--")]
    opts = {}
    it = iter(sys.argv[1:])
    for a in it:
        if a.startswith("--"):
            opts[a[2:]] = next(it)
    args = [a for a in args if a not in opts.values()]
    sid, checks = args[0], args[1:]
    tier = opts.get("tier", "quick")
    seeds = [int(x) for x in opts.get("seeds", "20260921").split(",")]
    d = os.path.join(VERIF, "seeded", sid)
    patch = os.path.join(d, "patch.diff")
    st = subprocess.run(["git", "-C", REPO, "status", "--porcelain", "--untracked-files=no"], stdout=subprocess.PIPE, text=True).stdout.strip()
    if st:
        print("refusing: /repo has uncommitted changes:\n" + st)
        sys.exit(2)
    r = subprocess.run(["git", "-C", REPO, "apply", "--whitespace=nowarn", patch])
    if r.returncode != 0:
        print("patch does not apply")
        sys.exit(2)
    results = []
    try:
        for c in checks:
            for seed in seeds:
                t0 = time.time()
                p = subprocess.run([os.path.join(VERIF, "check"), c, "--tier", tier, "--seed", str(seed)],
                                   cwd=VERIF, stdout=subprocess.PIPE, stderr=subprocess.PIPE, text=True)
                lines = [l for l in p.stdout.splitlines() if "VIOLATION" in l or l.startswith("  oracle=")]
                res = {"seeded": sid, "check": c, "tier": tier, "seed": seed, "exit": p.returncode,
                       "wall_s": round(time.time() - t0, 1), "lines": [l[:400] for l in lines][:8]}
                if p.returncode == 2:
                    res["stderr_tail"] = p.stderr[-800:]
                results.append(res)
                print(json.dumps(res))
                sys.stdout.flush()
                # copy the replay files of this seeded run next to the patch for the record
                for l in lines:
                    if "replay=" in l:
                        rp = l.split("replay=")[1].strip()
                        if os.path.exists(rp):
                            dst = os.path.join(d, "replay-%s-%s" % (c, os.path.basename(rp)))
                            try:
                                os.replace(rp, dst)
                            except OSError:
                                pass
    finally:
        subprocess.run(["git", "-C", REPO, "checkout", "--", "."])
        with open(os.path.join(d, "runs.jsonl"), "a") as f:
            for res in results:
                f.write(json.dumps(res) + "\n")
    caught = [r for r in results if r["exit"] == 1]
    print("CAUGHT by %s" % sorted({r["check"] for r in caught}) if caught else "MISSED")


if __name__ == "__main__":
    main()
