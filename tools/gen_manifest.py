#!/usr/bin/env python3
"""Regenerates /verif/MANIFEST.json from registry.d/*.json and manifest_static.json.

A property is *claimed* iff some registry fragment has a `props` entry for it; every other property
of properties.jsonl must have a reason in manifest_static.json["not_applicable"].
"""
import json
import os
import subprocess
import sys

VERIF = os.path.dirname(os.path.dirname(os.path.abspath(__file__)))
sys.path.insert(0, VERIF)


def main():
    static = json.load(open(os.path.join(VERIF, "manifest_static.json")))
    engines, props = {}, {}
    d = os.path.join(VERIF, "registry.d")
    for fn in sorted(os.listdir(d)):
        if fn in static.get("pending_fragments", []):
            continue  # engine still being integrated: its hooks are not in /repo yet
        if fn.endswith(".json"):
            r = json.load(open(os.path.join(d, fn)))
            engines.update(r.get("engines", {}))
            for k, v in r.get("props", {}).items():
                if k in props:
                    # one property served by several engines (stages): describe every stage
                    props[k]["stages"].extend(v["stages"])
                    for key in ("level_text", "level_note", "rule"):
                        props[k][key] = props[k].get(key, "") + " || NEXT STAGE (%s): " % "+".join(sorted({s2["engine"] for s2 in v["stages"]})) + v.get(key, "")
                else:
                    props[k] = v
    all_ids = [json.loads(l)["id"] for l in open(os.path.join(VERIF, "properties.jsonl")) if l.strip()]
    try:
        hook_commits = subprocess.run(
            ["git", "-C", "/repo", "log", "--format=%H %s", "--grep=^verif hook"],
            stdout=subprocess.PIPE, text=True).stdout.strip().splitlines()
    except OSError:
        hook_commits = []
    checks = []
    for pid in all_ids:
        if pid not in props:
            continue
        p = props[pid]
        engs = sorted({s["engine"] for s in p["stages"]})
        checks.append({
            "property_id": pid,
            "quick_cmd": "./check %s --tier quick" % pid,
            "thorough_cmd": "./check %s --tier thorough" % pid,
            "evidence_file": "/verif/evidence/%s.json" % pid,
            "replay_cmd_template": "./check replay {path}",
            "engine": "+".join(engs),
            "level_claimed": {
                "category": p["level"],
                "text": p["level_text"],
                "design_ref": p.get("design_ref", "DESIGN.md section 5, %s" % pid),
            },
            "level_note": p["level_note"],
            "technique": p.get("technique", "deterministic simulation with fault injection: seeded search over schedules and fault sequences, invariants + reference model"),
        })
    na = []
    for pid in all_ids:
        if pid in props:
            continue
        reason = static["not_applicable"].get(pid)
        if not reason:
            print("no not_applicable reason for unclaimed property %s" % pid, file=sys.stderr)
            sys.exit(1)
        na.append({"property_id": pid, "reason": reason})
    manifest = {
        "version": 1,
        "setup_cmd": static["setup_cmd"],
        "hooks": dict(static["hooks"], source_commits=[c.split()[0] for c in hook_commits]),
        "engines": [
            {"name": n, "path": e.get("path", ""), "serves_properties": sorted(k for k, v in props.items() if any(s["engine"] == n for s in v["stages"])),
             "kind_free_text": e.get("kind", "")}
            for n, e in sorted(engines.items())
        ],
        "checks": checks,
        "notes": static.get("notes", ""),
        "not_applicable": na,
    }
    with open(os.path.join(VERIF, "MANIFEST.json"), "w") as f:
        json.dump(manifest, f, indent=1)
        f.write("\n")
    try:
        import jsonschema
        jsonschema.validate(manifest, json.load(open("/root/.vp/MANIFEST.schema.json")))
        print("MANIFEST.json valid: %d checks, %d not_applicable" % (len(checks), len(na)))
    except ImportError:
        print("MANIFEST.json written (jsonschema not importable here; validate with python3-vt)")


if __name__ == "__main__":
    main()
