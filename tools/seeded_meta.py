#!/usr/bin/env python3
"""Writes seeded/<id>/meta.json (what the change breaks, what it needs to manifest, what was run)
from the seeding agent's notes, tools/try_seeded.py results (runs.jsonl) and the independent
confirmation log (confirm.log, produced by tools/verify_seed.sh)."""
import json, os, glob, re
V = os.path.dirname(os.path.dirname(os.path.abspath(__file__)))
REVERTS = {
 "revert-F1-prices-order": ("C05", "reverts fix 7c48def: oracle prices applied before txs on the execute path, after them on the cached path", "a block carrying a price for pair P and a CurrencyPairsChange for P, reached by nodes through different ABCI call paths"),
 "revert-F2-price-length": ("C15", "reverts fix d08997d: FinalizeBlock fails when a vote-extension price does not decode", "a validly signed vote extension with a price of length != 16 inside a >2/3 extended commit"),
 "revert-F3-empty-ext-fallback": ("C06", "reverts fix 8174703: undecodable empty extended commit info when the real one does not fit", "max_tx_bytes smaller than the encoded extended commit info at a height with vote extensions"),
 "revert-F4-ics20-partial": ("C18", "reverts fix cbb7ba0: a refused ICS20 receive to a bridge leaves the cached deposit", "an incoming packet to a bridge account (valid memo) that fails at a later step, e.g. more returned than escrowed"),
 "revert-F5-ibcrelay-auth": ("C06", "reverts fix aeec58e: unauthorized IbcRelay signer reported as non-fatal after Blackburn", "NOT OBSERVABLE while fix bb5bee6 is in place: the proposer now re-runs the mutable checks against the start-of-block state, which is what validators check; the revert is behaviour-preserving (equivalent change)"),
 "revert-F15-finalize-redelivery": ("C05", "reverts fix 7049fba: FinalizeBlock skips execution whenever the execution cache matches, even if an earlier FinalizeBlock of the block already consumed the cached state", "the consensus engine of a node restarts alone between FinalizeBlock and Commit and replays the block against the surviving application (FinalizeBlock delivered twice before Commit)"),
 "revert-F6-stale-mempool-tx": ("C06", "reverts fix bb5bee6: mempool txs not re-checked against the start-of-block state before proposing", "a transaction queued behind a nonce gap whose mutable checks no longer hold at the start of the block but hold again after an earlier transaction of the same block"),
}
for d in sorted(glob.glob(os.path.join(V, "seeded", "*"))):
    sid = os.path.basename(d)
    meta = {}
    mp = os.path.join(d, "meta.json")
    if os.path.exists(mp):
        try:
            meta = json.load(open(mp))
        except ValueError:
            meta = {}
    agent = meta.get("agent_notes", {k: v for k, v in meta.items() if k not in ("verif",)})
    runs = []
    rp = os.path.join(d, "runs.jsonl")
    if os.path.exists(rp):
        runs = [json.loads(l) for l in open(rp) if l.strip()]
    caught = sorted({r["check"] for r in runs if r["exit"] == 1})
    missed = sorted({r["check"] for r in runs if r["exit"] == 0} - set(caught))
    confirm = None
    cp = "/tmp/verify-%s.log" % sid
    short = "/tmp/verify-%s.log" % sid.split("-")[0]
    for c in (cp, short):
        if os.path.exists(c):
            txt = open(c).read()
            open(os.path.join(d, "confirm.log"), "w").write("\n".join(l for l in txt.splitlines() if re.search(r"^==|Summary|PASS \[|FAIL \[", l) and "TRY " not in l) + "\n")
    if os.path.exists(os.path.join(d, "confirm.log")):
        confirm = open(os.path.join(d, "confirm.log")).read().strip().splitlines()
    if sid in REVERTS:
        prop, summary, needs = REVERTS[sid]
        source = "revert of a fix: commit of this repository (the defect returning)"
    else:
        prop = agent.get("property", "?")
        summary = agent.get("summary", "")
        needs = agent.get("needs_to_manifest", "")
        source = "independent sub-agent given only the property text and a scratch worktree"
    out = {
        "property": prop,
        "source": source,
        "breaks": summary,
        "needs_to_manifest": needs,
        "demonstration": agent.get("demo_test_name") or ("demo.diff" if os.path.exists(os.path.join(d, "demo.diff")) else None),
        "independent_confirmation": confirm or "not run (revert of a fix: the original finding's replay is the demonstration)",
        "checks_run": [{"check": r["check"], "tier": r["tier"], "seed": r["seed"], "exit": r["exit"], "first_lines": r["lines"][:2]} for r in runs],
        "caught_by_quick_check": caught,
        "quick_checks_that_stayed_silent": missed,
        "agent_notes": agent,
    }
    json.dump(out, open(mp, "w"), indent=1)
    print(sid, prop, "caught by", caught, "silent", missed)
