#!/bin/bash
# Independently confirms a seeded change: the demonstration passes without the patch, fails with it,
# and the crate's existing tests pass with the patch. Usage: tools/verify_seed.sh <seeded-id> <crate> <demo test filter>
set -u
ID=$1; CRATE=$2; FILTER=$3; TGT=${4:-/tmp/tgt-seed}
D=/verif/seeded/$ID
WT=/tmp/seed-verify
export CARGO_TARGET_DIR=$TGT CARGO_NET_OFFLINE=true CARGO_BUILD_JOBS=8
# unique artifact hash for this worktree (several worktrees share the target dir)
CFG="--config profile.dev.package.$CRATE.codegen-units=197 --config profile.test.package.$CRATE.codegen-units=197"
if [ ! -d $WT ]; then git -C /repo worktree add --detach $WT HEAD -q; fi
cd $WT && git checkout -q --detach $(git -C /repo rev-parse HEAD) && git checkout -- . && git clean -fdq
git apply --whitespace=nowarn $D/demo.diff || { echo "demo.diff does not apply"; exit 2; }
touch crates/$CRATE/src/lib.rs
echo "== demo WITHOUT patch"; cargo nextest run $CFG -p $CRATE --offline --no-fail-fast --retries 0 -E "test(/$FILTER/)" 2>&1 | grep -E "PASS|FAIL|Summary|error" | tail -8
git apply --whitespace=nowarn $D/patch.diff || { echo "patch.diff does not apply"; exit 2; }
touch crates/$CRATE/src/lib.rs
echo "== demo WITH patch"; cargo nextest run $CFG -p $CRATE --offline --no-fail-fast --retries 0 -E "test(/$FILTER/)" 2>&1 | grep -E "PASS|FAIL|Summary|error" | tail -8
# SUITE_FLAGS: e.g. "-j 2 --retries 1" for the crates whose black-box tests time out under load (BASELINE.json notes them)
echo "== existing suite WITH patch (demo excluded)"; cargo nextest run $CFG -p $CRATE --offline --no-fail-fast ${SUITE_FLAGS:---retries 0} -E "not test(/$FILTER/)" 2>&1 | grep -E "^\s+FAIL|Summary|error\[" | sort | uniq | tail -12
git checkout -- . && git clean -fdq
